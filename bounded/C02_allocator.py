"""BOUNDED stand-in for C02 (labelled bounded, never counted as proved): the allocation matrix of the REAL Allocator for enumerated and
random small schedules, checked against the property's wording: rectangular matrix, join point ids 0..len(schedule), every leaf task
allocated to exactly its client indices 0..clients-1 (each once), total_clients = the element's clients, row = global index mod width,
join points list only clients of their own element, one task set per non-empty element.
Bound: <= 4 schedule elements, parallel elements of <= 4 leaves with 1-5 clients each, optional explicit client count (capping and
over-committing), completes-parent / any-completes-parent flags.   usage: C02_allocator.py <result.json> | --replay <file>"""
import itertools
import json
import os
import random
import sys

sys.path.insert(0, os.path.join(os.path.dirname(os.path.abspath(__file__)), "..", "replay"))


def specs():
    T = lambda c, cp=False, ac=False: ("task", c, cp, ac)  # noqa: E731
    out = []
    # exhaustive: one or two elements; leaf tasks of 1-3 clients; parallels of 1-2 leaves with optional explicit count 1-4
    leaves = [T(c) for c in (1, 2, 3)] + [T(2, True), T(1, False, True)]
    pars = [("parallel", ex, list(ts)) for n in (1, 2) for ts in itertools.product(leaves, repeat=n) for ex in (None, 1, 2, 4)]
    els = leaves + pars
    for e in els:
        out.append([e])
    for a, b in itertools.product(els[:: max(1, len(els) // 25)], repeat=2):
        out.append([a, b])
    rnd = random.Random(2)
    for _ in range(3000 if os.environ.get('VERIF_TIER') == 'thorough' else 600):
        spec = []
        for _ in range(rnd.randint(1, 4)):
            if rnd.random() < 0.4:
                spec.append(T(rnd.randint(1, 5)))
            else:
                ts = [T(rnd.randint(1, 5), rnd.random() < 0.3, rnd.random() < 0.3) for _ in range(rnd.randint(1, 4))]
                spec.append(("parallel", rnd.choice([None, None, rnd.randint(1, 7)]), ts))
        out.append(spec)
    return out


def main():
    from C02 import allocator_violation

    if sys.argv[1] == "--replay":
        spec = json.load(open(sys.argv[2]))["case"]["schedule"]
        spec = [tuple(e[:2]) + ([tuple(t) for t in e[2]],) if e[0] == "parallel" else tuple(e) for e in spec]
        v = allocator_violation(spec)
        print(("REPRODUCED: " if v else "NOT-REPRODUCED: ") + f"Allocator({spec}): {v}")
        sys.exit(1 if v else 0)
    violations, n = [], 0
    for spec in specs():
        n += 1
        try:
            v = allocator_violation(spec)
        except Exception as ex:  # noqa
            v = f"raised {type(ex).__name__}: {ex}"
        if v and len(violations) < 5:
            violations.append({"schedule": spec, "problem": v})
    json.dump({"bound": "<=4 elements; leaves with 1-5 clients; parallels of <=4 leaves, optional explicit clients 1-7; completes-parent flags", "cases": n, "violations": violations}, open(sys.argv[1], "w"), indent=1)
    sys.exit(1 if violations else 0)


if __name__ == "__main__":
    main()
