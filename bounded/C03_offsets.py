"""BOUNDED stand-in for C03 (labelled bounded): offset table == skipping lines one by one on real files (scenario S1 of bounded/C14_files.py:
4 corpora incl. multi-byte UTF-8 content and CRLF line ends, 12 skip targets each, through the real preparator and io.MmapSource).
usage: C03_offsets.py <result.json> | --replay <file>"""
import json
import os
import sys

sys.path.insert(0, os.path.dirname(os.path.abspath(__file__)))
from C14_files import run  # noqa: E402

if __name__ == "__main__":
    r = run(("s1",))
    if sys.argv[1] == "--replay":
        print(("REPRODUCED: " if r["violations"] else "NOT-REPRODUCED: ") + (str(r["violations"][0])[:500] if r["violations"] else "offset tables agree with line-by-line skipping"))
        sys.exit(1 if r["violations"] else 0)
    json.dump({"bound": "4 corpora (multi-byte, plain 50000-multiples, no trailing newline, CRLF) x 12 skip targets", "cases": r["cases"], "violations": r["violations"][:5]}, open(sys.argv[1], "w"), indent=1, default=str)
    sys.exit(1 if r["violations"] else 0)
