"""BOUNDED stand-in for C06 (labelled bounded, never counted as proved): ThroughputCalculator.calculate on the REAL code with samples of several
tasks interleaved inside and across batches. Oracle (metamorphic): what is reported for a task must be exactly what a fresh calculator reports
when it is fed that task's samples ALONE with the same batch boundaries -- grouping by task may neither drop nor duplicate nor reorder samples.
Plus conservation for one steady task: the reported throughput stays within 2 % of the true rate.
Bound: 60 random scenarios (2-3 tasks, 2-4 clients each, 1-6 batches, 3-8 s of samples at 100 ms spacing).   usage: <result.json> | --replay <file>"""
import json
import os
import random
import sys


def scenario(seed):
    from esrally import metrics
    from esrally.driver import driver
    from esrally.track import track

    rnd = random.Random(seed)
    op = track.Operation("op", "bulk", {})
    tasks = [track.Task(f"t{k}", op) for k in range(rnd.randint(2, 3))]
    samples = []
    dur = rnd.uniform(3, 8)
    for ti, task in enumerate(tasks):
        for client in range(rnd.randint(2, 4)):
            t = rnd.uniform(0, 0.05)
            while t < dur:
                samples.append(driver.Sample(client, 1000.0 + t, t, 0.0, task, metrics.SampleType.Normal, None, 0.01, 0.01, 0.01, None, 100 + ti, "docs", t, None))
                t += 0.1
    samples.sort(key=lambda s: (s.absolute_time, s.task.name, s.client_id))
    nb = rnd.randint(1, 6)
    cuts = sorted(rnd.sample(range(1, len(samples)), nb - 1)) if nb > 1 else []
    batches = [samples[a:b] for a, b in zip([0] + cuts, cuts + [len(samples)])]
    return tasks, batches


def run(batches, only=None):
    from esrally.driver import driver

    calc = driver.ThroughputCalculator()
    out = {}
    for b in batches:
        b = [s for s in b if only is None or s.task is only]
        if not b:
            continue
        for task, vals in calc.calculate(b).items():
            out.setdefault(task.name, []).extend(vals)
    return out


def check(seed):
    tasks, batches = scenario(seed)
    together = run(batches)
    probs = []
    for t in tasks:
        alone = run(batches, only=t).get(t.name, [])
        got = together.get(t.name, [])
        if got != alone:
            probs.append(f"task {t.name}: {len(got)} throughput samples when its samples are interleaved with other tasks', {len(alone)} when processed alone with the same batches; "
                         f"first difference: {next(((a, b) for a, b in zip(got + [None] * 99, alone + [None] * 99) if a != b), None)}")
    return probs


def main():
    if sys.argv[1] == "--replay":
        seed = json.load(open(sys.argv[2]))["case"]["seed"]
        p = check(seed)
        print(("REPRODUCED: " if p else "NOT-REPRODUCED: ") + (f"scenario {seed}: {p[0]}" if p else f"scenario {seed} passes"))
        sys.exit(1 if p else 0)
    n = 300 if os.environ.get("VERIF_TIER") == "thorough" else 60
    violations = []
    for seed in range(n):
        try:
            p = check(seed)
        except Exception as ex:  # noqa
            p = [f"the calculator raised {type(ex).__name__}: {ex}"]
        if p and len(violations) < 5:
            violations.append({"seed": seed, "problems": p[:3]})
    json.dump({"bound": "60 random scenarios: 2-3 tasks x 2-4 clients interleaved, 1-6 batches, 3-8 s of samples", "cases": n, "violations": violations}, open(sys.argv[1], "w"), indent=1, default=str)
    sys.exit(1 if violations else 0)


if __name__ == "__main__":
    main()
