"""BOUNDED stand-in for C08 (labelled bounded, never counted as proved): the REAL results pipeline on in-memory stores filled with generated
samples -- GlobalStatsCalculator (normal samples only; p50 = median within [min, max]; error rate), GlobalStats.metrics lookup, and the
persistence round trip Race.as_dict -> JSON -> GlobalStats.
Bound: 40 random sample sets (1-3 tasks, warm-up and normal samples of throughput / latency / service_time / processing_time, 0-30 % failed
requests), zero-valued and missing global metrics.   usage: C08_results.py <result.json> | --replay <file>"""
import datetime
import json
import random
import statistics
import sys


def build_store(rnd, n_tasks):
    from esrally import config, metrics, track

    cfg = config.Config()
    cfg.add(config.Scope.application, "system", "env.name", "bounded")
    cfg.add(config.Scope.application, "track", "params", {})
    store = metrics.InMemoryMetricsStore(cfg, clock=metrics.time.Clock if hasattr(metrics, "time") else None)
    ops = [track.Operation(f"op{k}", "search") for k in range(n_tasks)]
    tasks = [track.Task(f"task{k}", ops[k]) for k in range(n_tasks)]
    ch = track.Challenge("ch", schedule=tasks, default=True)
    t = track.Track("t", challenges=[ch])
    store.open("rid", datetime.datetime(2024, 1, 1), "t", "ch", "car", create=True)
    truth = {}
    for task in tasks:
        per = {}
        for metric in ("throughput", "latency", "service_time", "processing_time"):
            warm = [round(rnd.uniform(1, 50), 3) for _ in range(rnd.randint(0, 12))]
            norm = [round(rnd.uniform(500, 2000), 3) for _ in range(rnd.randint(1, 9))]
            for st_, vals in ((metrics.SampleType.Warmup, warm), (metrics.SampleType.Normal, norm)):
                for k, v in enumerate(vals):
                    md = {"success": not (metric == "service_time" and st_ == metrics.SampleType.Normal and k % 4 == 3)} if metric == "service_time" else None
                    store.put_value_cluster_level(metric, v, unit="ms" if metric != "throughput" else "docs/s", task=task.name, operation=task.operation.name,
                                                  operation_type=task.operation.type, sample_type=st_, meta_data=md)
            per[metric] = norm
        truth[task.name] = per
    return cfg, store, t, ch, truth


def check_results(rnd):
    from esrally import metrics

    n_tasks = rnd.randint(1, 3)
    cfg, store, t, ch, truth = build_store(rnd, n_tasks)
    stats = metrics.calculate_results(store, metrics.create_race(cfg, t, ch)) if False else metrics.GlobalStatsCalculator(store, t, ch)()
    probs = []
    for name, per in truth.items():
        m = stats.metrics(name)
        if m is None:
            probs.append(f"no result record for task {name}")
            continue
        tp = m["throughput"]
        norm = per["throughput"]
        if abs(tp["min"] - min(norm)) > 1e-6 or abs(tp["max"] - max(norm)) > 1e-6 or abs(tp["mean"] - statistics.mean(norm)) > 1e-6 or abs(tp["median"] - statistics.median(norm)) > 1e-6:
            probs.append(f"task {name}: throughput {tp} but the NORMAL samples are {sorted(norm)} (warm-up samples must not count)")
        if not (tp["min"] - 1e-9 <= tp["median"] <= tp["max"] + 1e-9):
            probs.append(f"task {name}: throughput median {tp['median']} outside [min, max] = [{tp['min']}, {tp['max']}]")
        for metric in ("latency", "service_time", "processing_time"):
            got, norm = m[metric], sorted(per[metric])
            if abs(got["mean"] - statistics.mean(norm)) > 1e-6:
                probs.append(f"task {name}: {metric} mean {got['mean']} but the normal samples are {norm}")
            if "50_0" in got and abs(got["50_0"] - statistics.median(norm)) > 1e-6:
                probs.append(f"task {name}: {metric} p50 {got['50_0']} but the median of the normal samples {norm} is {statistics.median(norm)}")
            want_keys = sorted(metrics.encode_float_key(p_) for p_ in metrics.percentiles_for_sample_size(len(norm)))
            got_keys = sorted(k for k in got if k not in ("mean", "unit"))
            if got_keys != want_keys:
                probs.append(f"task {name}: {metric} reports percentiles {got_keys}; {len(norm)} normal samples call for {want_keys} (warm-up samples must not count)")
            if "100_0" in got and abs(got["100_0"] - max(norm)) > 1e-6:
                probs.append(f"task {name}: {metric} p100 {got['100_0']} but max of the normal samples is {max(norm)}")
        st_norm = per["service_time"]
        failed = sum(1 for k in range(len(st_norm)) if k % 4 == 3)
        if abs(m["error_rate"] - failed / len(st_norm)) > 1e-9:
            probs.append(f"task {name}: error rate {m['error_rate']} but {failed} of {len(st_norm)} normal requests failed")
    return probs, stats


def check_lookup():
    from esrally import metrics

    probs = []
    g = metrics.GlobalStats({"op_metrics": [{"task": "index", "operation": "bulk"}, {"task": "bulk", "operation": "bulk-op"}, {"operation": "legacy"}]})
    for name, want in (("bulk", "bulk-op"), ("index", "bulk"), ("legacy", "legacy"), ("bulk-op", None), ("nope", None)):
        r = g.metrics(name)
        got = r["operation"] if r else None
        if got != want:
            probs.append(f"GlobalStats.metrics({name!r}) returned the record of operation {got!r}, expected {want!r} (records are filed under their task name; the operation name is only the fall-back for old races)")
    return probs


def check_round_trip(stats):
    """what `esrally compare` reads back from race.json is what the race computed (zero-valued metrics and empty lists included)"""
    from esrally import metrics, track, version

    probs = []
    d0 = stats.as_dict()
    d0.setdefault("old_gc_count", 0)
    for zero_key in ("merge_throttle_time", "old_gc_count", "flush_count", "translog_size"):
        d0[zero_key] = 0

    class R:
        def as_dict(self):
            return dict(d0)

    ch = track.Challenge("ch", schedule=[], default=True)
    t = track.Track("t", challenges=[ch])
    race = metrics.Race(version.version(), None, "env", "rid", datetime.datetime(2024, 1, 1), "from-sources", {}, t, None, ch, "defaults", None, None, None, results=R())
    back = json.loads(json.dumps(race.as_dict()))
    g = metrics.GlobalStats(back.get("results"))
    g0 = metrics.GlobalStats(d0)
    for k, v in vars(g0).items():
        if getattr(g, k, None) != v:
            probs.append(f"global metric {k}: computed {v!r}, read back from race.json as {getattr(g, k, None)!r}")
    return probs[:4]


def check_ladder():
    """percentiles_for_sample_size over every count up to 20000 and around every power of ten up to 10^9 (BOUNDED; the ladder itself is proved by the contract when the
    function is within the verifier's subset): depends on the count only, one more '9' per decade, ascending, ends with 100"""
    from esrally import metrics

    want = lambda n: [100] if n == 1 else [50] + [90, 99, 99.9, 99.99][: min(len(str(n)) - 1, 4)] + [100]  # noqa: E731
    ns = list(range(1, 20001)) + [10**k + d for k in range(4, 10) for d in (-1, 0, 1)]
    for n in ns:
        try:
            got = metrics.percentiles_for_sample_size(n)
        except Exception as ex:  # noqa
            return [f"percentiles_for_sample_size({n}) raised {type(ex).__name__}: {ex}"]
        if list(got) != want(n):
            return [f"percentiles_for_sample_size({n}) = {list(got)}, documented ladder gives {want(n)}"]
    return []


def main():
    if sys.argv[1] == "--replay":
        seed = json.load(open(sys.argv[2]))["case"].get("seed", 0)
        rnd = random.Random(seed)
        p, stats = check_results(rnd)
        p = p + check_lookup() + check_round_trip(stats) + check_ladder()
        print(("REPRODUCED: " if p else "NOT-REPRODUCED: ") + (p[0] if p else "results pipeline scenario passes"))
        sys.exit(1 if p else 0)
    violations, cases = [], 0
    import os

    for seed in range(200 if os.environ.get('VERIF_TIER') == 'thorough' else 40):
        rnd = random.Random(seed)
        cases += 1
        try:
            p, stats = check_results(rnd)
            if seed == 0:
                p = p + check_lookup() + check_round_trip(stats) + check_ladder()
        except Exception as ex:  # noqa
            import traceback

            p = [f"the results pipeline raised {type(ex).__name__}: {ex} @ {traceback.format_exc().strip().splitlines()[-3][:140]}"]
        if p and len(violations) < 5:
            violations.append({"seed": seed, "problems": p[:4]})
    json.dump({"bound": "40 random sample sets (1-3 tasks, warm-up + normal samples, failed requests), metrics lookup table, race.json round trip with zero-valued metrics, percentile ladder for every count <= 20000 and around powers of ten <= 10^9", "cases": cases,
               "violations": violations}, open(sys.argv[1], "w"), indent=1)
    sys.exit(1 if violations else 0)


if __name__ == "__main__":
    main()
