"""BOUNDED stand-in for C10 (labelled bounded, never counted as proved): generated small track specifications through the REAL
TrackSpecificationReader (fidelity of the loaded model; every single-rule violation rejected with TrackSyntaxError), and generated template
trees with one- and two-level rally.collect includes through the REAL TemplateSource.
Bound: 1-2 challenges, schedules of <= 3 elements (tasks / parallel of <= 3 tasks), 14 single-rule violations, include depth <= 2.
--replay <file> re-runs one recorded case."""
import copy
import json
import os
import sys
import tempfile


def base_track():
    return {
        "description": "d",
        "indices": [{"name": "idx"}],
        "corpora": [{"name": "c1", "documents": [{"source-file": "d.json.bz2", "document-count": 10, "compressed-bytes": 1, "uncompressed-bytes": 2}]}],
        "operations": [{"name": "bulk", "operation-type": "bulk", "bulk-size": 10}, {"name": "q", "operation-type": "search"}],
        "challenges": [
            {"name": "ch1", "default": True, "schedule": [
                {"operation": "bulk", "warmup-time-period": 10, "time-period": 20, "clients": 4, "tags": ["t1"]},
                {"parallel": {"warmup-iterations": 3, "iterations": 5, "completed-by": "q2", "tasks": [
                    {"operation": "q", "name": "q1", "clients": 2}, {"operation": "q", "name": "q2", "iterations": 7}]}},
                {"operation": "q", "name": "q3", "iterations": 2, "target-throughput": 10}]},
            {"name": "ch2", "schedule": [{"operation": "q", "warmup-iterations": 1, "iterations": 1}]},
        ],
    }


def load(spec):
    from esrally.track import loader

    r = loader.TrackSpecificationReader()
    return r("unittest", copy.deepcopy(spec), "/mappings")


def fidelity(spec, t):
    probs = []
    if [c.name for c in t.challenges] != [c["name"] for c in spec["challenges"]]:
        probs.append("challenge order/names differ")
    for cs, c in zip(spec["challenges"], t.challenges):
        if len(c.schedule) != len(cs["schedule"]):
            probs.append(f"challenge {c.name}: {len(c.schedule)} schedule elements, file has {len(cs['schedule'])}")
            continue
        for es, e in zip(cs["schedule"], c.schedule):
            leaves = [(ts, es["parallel"]) for ts in es["parallel"]["tasks"]] if "parallel" in es else [(es, {})]
            got = list(e)
            if len(got) != len(leaves):
                probs.append("task count differs")
                continue
            for (ts, par), task in zip(leaves, got):
                name = ts.get("name", ts["operation"])
                want = dict(name=name, clients=ts.get("clients", 1), warmup_iterations=ts.get("warmup-iterations", par.get("warmup-iterations")),
                            iterations=ts.get("iterations", par.get("iterations")), warmup_time_period=ts.get("warmup-time-period", par.get("warmup-time-period")),
                            time_period=ts.get("time-period", par.get("time-period")), completes_parent=name == par.get("completed-by"), any_completes_parent=par.get("completed-by") == "any",
                            tags=ts.get("tags", []))
                for k, w in want.items():
                    if getattr(task, k) != w:
                        probs.append(f"task {name}: {k} == {getattr(task, k)!r}, the file says {w!r}")
    if sum(1 for c in t.challenges if c.default) != 1:
        probs.append("not exactly one default challenge")
    return probs


def violations_of_rules():
    """(name, mutation of the base track) -- each must be rejected"""
    def m(f):
        s = base_track()
        f(s)
        return s

    sch = lambda s: s["challenges"][0]["schedule"]
    par = lambda s: sch(s)[1]["parallel"]
    return [
        ("duplicate task name (sequential)", m(lambda s: sch(s).append({"operation": "q", "name": "q3", "iterations": 1}))),
        ("duplicate task name inside one parallel element", m(lambda s: par(s)["tasks"].append({"operation": "q", "name": "q1"}))),
        ("same operation twice without names inside one parallel element", m(lambda s: par(s).update(tasks=[{"operation": "q"}, {"operation": "q"}], **{"completed-by": "q"}))),
        ("duplicate task name across sequential and parallel", m(lambda s: par(s)["tasks"].append({"operation": "q", "name": "bulk"}))),
        ("duplicate challenge name", m(lambda s: s["challenges"][1].update(name="ch1"))),
        ("two default challenges", m(lambda s: s["challenges"][1].update(default=True))),
        ("no default challenge", m(lambda s: s["challenges"][0].pop("default"))),
        ("duplicate operation name", m(lambda s: s["operations"].append({"name": "q", "operation-type": "search"}))),
        ("duplicate corpus name", m(lambda s: s["corpora"].append(copy.deepcopy(s["corpora"][0])))),
        ("warmup-iterations with time-period", m(lambda s: sch(s)[0].update(**{"warmup-iterations": 3}))),
        ("warmup-time-period with iterations", m(lambda s: sch(s)[0].update(iterations=3))),
        ("ramp-up without warmup-time-period", m(lambda s: (sch(s)[0].pop("warmup-time-period"), sch(s)[0].update(**{"ramp-up-time-period": 5})))),
        ("ramp-up longer than warmup-time-period", m(lambda s: sch(s)[0].update(**{"ramp-up-time-period": 11}))),
        ("ramp-up with iterations", m(lambda s: sch(s)[2].update(**{"ramp-up-time-period": 5}))),
        ("unknown completed-by task", m(lambda s: par(s).update(**{"completed-by": "nope"}))),
        ("several tasks match completed-by", m(lambda s: par(s)["tasks"].append({"operation": "q", "name": "q2"}))),
        ("indices together with data streams", m(lambda s: s.update(**{"data-streams": [{"name": "ds"}]}))),
    ]


def template_cases():
    """(description, files, expected challenge->task names)"""
    head = '{% import "rally.helpers" as rally %}\n'
    op = '{"name": "q", "operation-type": "search"}'
    t = lambda n: '{"operation": "q", "name": "%s", "iterations": 1}' % n
    one = {
        "track.json": head + '{"indices": [{"name": "i"}], "operations": [%s], "challenges": [{{ rally.collect(parts="challenges/*.json") }}]}' % op,
        "challenges/a.json": '{"name": "a", "default": true, "schedule": [%s]}' % t("a1"),
        "challenges/b.json": '{"name": "b", "schedule": [%s, %s]}' % (t("b1"), t("b2")),
    }
    two = {
        "track.json": one["track.json"],
        "challenges/full.json": '{"name": "full", "default": true, "schedule": [{{ rally.collect(parts="tasks/*.json") }}]}',
        "challenges/tasks/t1.json": t("f1"),
        "challenges/tasks/t2.json": t("f2"),
        "tasks/other.json": t("WRONG"),
    }
    return [("one-level includes", one, {"a": ["a1"], "b": ["b1", "b2"]}), ("two-level includes (part in a sub-directory of the including part)", two, {"full": ["f1", "f2"]})]


def run_template(files, expected):
    from esrally import config
    from esrally.track import loader

    with tempfile.TemporaryDirectory() as d:
        for rel, content in files.items():
            p = os.path.join(d, rel)
            os.makedirs(os.path.dirname(p), exist_ok=True)
            open(p, "w").write(content)
        try:
            rendered = loader.render_template_from_file(os.path.join(d, "track.json"), {}, complete_track_params=loader.CompleteTrackParams())
            t = loader.TrackSpecificationReader()("t", json.loads(rendered), d)
        except Exception as ex:  # noqa
            return [f"valid track with includes rejected: {type(ex).__name__}: {str(ex)[:150]}"]
        got = {c.name: [task.name for e in c.schedule for task in e] for c in t.challenges}
        return [] if got == expected else [f"loaded {got}, the files say {expected}"]


READER_TRACK = """{
  "version": 2, "description": "bounded reader scenario",
  "indices": [{"name": "logs", "body": "index-body.json"}],
  "operations": [{"name": "append", "operation-type": "bulk", "bulk-size": {{ bulk_size | default(100) }}}],
  "schedule": [{"operation": "append", "clients": {{ clients | default(2) }}, "warmup-time-period": 5, "time-period": 10}]
}"""
READER_BODY = '{"settings": {"index.number_of_shards": {{ shards | default(1) }}, "index.number_of_replicas": {{ replicas | default(0) }}}}'


def reader_cases():
    """(name, user-defined track parameters, expected observation or 'error')  -- through the REAL TrackFileReader.read on a track directory whose
    index body file is a template too: parameters used ONLY there count as used; unused / reserved parameters are a configuration error"""
    d0 = {"bulk-size": 100, "clients": 2, "shards": 1, "replicas": 0}
    return [
        ("no parameters", None, d0),
        ("parameter used in track.json", {"bulk_size": 500}, dict(d0, **{"bulk-size": 500})),
        ("parameter used only in the index body file", {"shards": 3}, dict(d0, shards=3)),
        ("parameters used in track.json and in the index body file", {"clients": 8, "replicas": 1}, dict(d0, clients=8, replicas=1)),
        ("misspelled (unused) parameter", {"shard": 3}, "error"),
        ("unused parameter next to a used one", {"shards": 3, "unknown_knob": 1}, "error"),
        ("reserved parameter", {"now": "2020-01-01"}, "error"),
    ]


def run_reader(params, expected):
    from esrally import config, exceptions, paths
    from esrally.track import loader

    with tempfile.TemporaryDirectory() as d:
        open(os.path.join(d, "track.json"), "w").write(READER_TRACK)
        open(os.path.join(d, "index-body.json"), "w").write(READER_BODY)
        cfg = config.Config()
        cfg.add(config.Scope.application, "node", "rally.root", paths.rally_root())
        if params is not None:
            cfg.add(config.Scope.application, "track", "params", dict(params))
        saved = sys.stdout
        sys.stdout = open(os.devnull, "w")
        try:
            t = loader.TrackFileReader(cfg).read("bounded", os.path.join(d, "track.json"), d)
        except (exceptions.TrackConfigError, loader.TrackSyntaxError) as ex:
            return [] if expected == "error" else [f"valid track with parameters {params} rejected: {type(ex).__name__}: {str(ex)[:160]}"]
        except Exception as ex:  # noqa
            return [f"parameters {params}: {type(ex).__name__}: {str(ex)[:160]}"]
        finally:
            sys.stdout = saved
        if expected == "error":
            return [f"track loaded although the parameters {params} are unused / reserved"]
        task = t.challenges[0].schedule[0]
        got = {"bulk-size": task.operation.params["bulk-size"], "clients": task.clients, "shards": t.indices[0].body["settings"]["index.number_of_shards"],
               "replicas": t.indices[0].body["settings"]["index.number_of_replicas"]}
        return [] if got == expected else [f"parameters {params}: loaded values {got}, expected {expected}"]


def main():
    from esrally.track import loader

    if sys.argv[1] == "--replay":
        rec = json.load(open(sys.argv[2]))["case"]
        kind = rec["kind"]
        if kind == "rule":
            name, spec = next(x for x in violations_of_rules() if x[0] == rec["name"])
            try:
                load(spec)
                print(f"REPRODUCED: track with [{name}] was loaded instead of being rejected")
                sys.exit(1)
            except loader.TrackSyntaxError:
                print("NOT-REPRODUCED: rejected")
                sys.exit(0)
        if kind == "reader":
            name, params, exp = next(x for x in reader_cases() if x[0] == rec["name"])
            p = run_reader(params, exp)
            print(("REPRODUCED: " if p else "NOT-REPRODUCED: ") + f"TrackFileReader.read, {name}: {p}")
            sys.exit(1 if p else 0)
        if kind == "template":
            desc, files, exp = next(x for x in template_cases() if x[0] == rec["name"])
            p = run_template(files, exp)
            print(("REPRODUCED: " if p else "NOT-REPRODUCED: ") + f"{desc}: {p}")
            sys.exit(1 if p else 0)
        p = fidelity(base_track(), load(base_track()))
        print(("REPRODUCED: " if p else "NOT-REPRODUCED: ") + str(p))
        sys.exit(1 if p else 0)
    cases, violations = 0, []
    spec = base_track()
    cases += 1
    try:
        p = fidelity(spec, load(spec))
    except Exception as ex:  # noqa
        p = [f"valid track rejected: {type(ex).__name__}: {ex}"]
    if p:
        violations.append({"kind": "fidelity", "name": "base track", "problems": p})
    # valid variants: drop optional properties one at a time
    for ci, c in enumerate(spec["challenges"]):
        for ei, e in enumerate(c["schedule"]):
            leaves = e["parallel"]["tasks"] if "parallel" in e else [e]
            for li, leaf in enumerate(leaves):
                for key in [k for k in leaf if k not in ("operation", "iterations", "time-period", "warmup-time-period", "name")]:
                    s2 = base_track()
                    e2 = s2["challenges"][ci]["schedule"][ei]
                    (e2["parallel"]["tasks"][li] if "parallel" in e2 else e2).pop(key)
                    cases += 1
                    try:
                        p = fidelity(s2, load(s2))
                    except Exception as ex:  # noqa
                        p = [f"valid variant rejected: {type(ex).__name__}: {ex}"]
                    if p:
                        violations.append({"kind": "fidelity", "name": f"without {key} on {leaf.get('name', leaf['operation'])}", "problems": p})
    for name, s2 in violations_of_rules():
        cases += 1
        try:
            load(s2)
            violations.append({"kind": "rule", "name": name, "problems": [f"track with [{name}] was loaded instead of being rejected with a track syntax error"]})
        except loader.TrackSyntaxError:
            pass
        except Exception as ex:  # noqa
            violations.append({"kind": "rule", "name": name, "problems": [f"rejected with {type(ex).__name__} instead of a track syntax error: {ex}"]})
    for desc, files, exp in template_cases():
        cases += 1
        p = run_template(files, exp)
        if p:
            violations.append({"kind": "template", "name": desc, "problems": p})
    for name, params, exp in reader_cases():
        cases += 1
        p = run_reader(params, exp)
        if p:
            violations.append({"kind": "reader", "name": name, "problems": p})
    json.dump({"bound": "base track with 2 challenges (tasks + parallel), optional-property drops, 17 single-rule violations, include depth <= 2, 7 track-parameter sets through TrackFileReader.read", "cases": cases, "nontrivial": cases - 1,
               "violations": violations[:5]}, open(sys.argv[1], "w"), indent=1)
    sys.exit(1 if violations else 0)


main()
