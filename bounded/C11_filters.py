"""BOUNDED stand-in for C11 (labelled bounded, never counted as proved): exhaustive enumeration of small schedules and filter lists on the
real TaskFilterTrackProcessor. Bound: <= 3 schedule elements, each a leaf or a parallel of 1-2 leaves (with or without an explicit client count), leaves drawn from 4 distinct
tasks (2 names x op types x tag shapes), <= 2 filters from {name, type:, tag:} forms, include and exclude mode.
Also replays a single recorded case:  C11_filters.py --replay <file>"""
import itertools
import json
import sys


def build(schedule_spec):
    from esrally.track import track

    pool = {
        "a": lambda: track.Task("a", track.Operation("op-a", "bulk", {}), tags="setup"),
        "b": lambda: track.Task("b", track.Operation("op-b", "search", {}), tags=["setup", "heavy"]),
        "c": lambda: track.Task("c", track.Operation("op-c", "search", {}), tags="pre-setup"),
        "d": lambda: track.Task("d", track.Operation("op-d", "force-merge", {})),
        # task filters are case-sensitive and go by the TASK name (an operation may carry the name of another task)
        "E": lambda: track.Task("Query-EU", track.Operation("a", "search", {}), tags="ReadOnly"),
    }
    sched = []
    for el in schedule_spec:
        if isinstance(el, str):
            sched.append(pool[el]())
        elif el[0].startswith("#"):
            sched.append(track.Parallel([pool[x]() for x in el[1:]], clients=int(el[0][1:])))  # a parallel element with an explicit client count
        else:
            sched.append(track.Parallel([pool[x]() for x in el]))
    ch = track.Challenge("c", schedule=sched, default=True)
    return track.Track("t", challenges=[ch]), ch


def selected(leaf, filters):
    for f in filters:
        if ":" not in f:
            if leaf.name == f:
                return True
        else:
            k, v = f.split(":")
            if k == "type" and leaf.operation.type == v:
                return True
            if k == "tag" and v in list(leaf.tags):
                return True
    return False


def leaves(ch):
    out = []
    for el in ch.schedule:
        out.append([t.name for t in el])
    return out


def run_case(spec, filters, exclude):
    from esrally import config
    from esrally.track import loader

    cfg = config.Config()
    cfg.add(config.Scope.application, "track", "include.tasks" if not exclude else "exclude.tasks", list(filters))
    t, ch = build(spec)
    before = [(el, [leaf for leaf in el]) for el in ch.schedule]
    want = []
    for el, ls in before:
        keep = [leaf.name for leaf in ls if selected(leaf, filters) != exclude]
        if keep:
            want.append(keep)
    loader.TaskFilterTrackProcessor(cfg).on_after_load_track(t)
    got = leaves(ch)
    problems = []
    if any(hasattr(el, "tasks") and len(el.tasks) == 0 for el in ch.schedule):
        problems.append("an empty parallel element is left in the schedule")
    if [g for g in got if g] != want:
        problems.append(f"remaining tasks {got}, expected {want}")
    # the driver must be able to execute and report every remaining step
    try:
        from esrally.driver import driver

        alloc = driver.Allocator(ch.schedule)
        if len(alloc.tasks_per_joinpoint) != len(alloc.join_points) - 1:
            problems.append(f"{len(alloc.join_points) - 1} steps but {len(alloc.tasks_per_joinpoint)} progress entries")
    except Exception as ex:  # noqa
        problems.append(f"driver allocation fails: {type(ex).__name__}: {ex}")
    return problems


def main():
    if sys.argv[1] == "--replay":
        rec = json.load(open(sys.argv[2]))
        c = rec["case"]
        p = run_case([tuple(x) if isinstance(x, list) else x for x in c["schedule"]], c["filters"], c["exclude"])
        print(("REPRODUCED: " if p else "NOT-REPRODUCED: ") + f"schedule {c['schedule']} with {'exclude' if c['exclude'] else 'include'} filters {c['filters']}: {p}")
        sys.exit(1 if p else 0)
    elements = ["a", "b", "c", "d", "E", ("a", "b"), ("b", "c"), ("c", "d"), ("a",), ("a", "d"), ("a", "E"), ("#2", "a", "b"), ("#1", "c", "d"), ("#3", "a")]
    flt = ["a", "b", "type:search", "type:bulk", "tag:setup", "tag:heavy", "zzz", "Query-EU", "query-eu", "tag:ReadOnly", "tag:readonly"]
    cases = nontrivial = 0
    violations = []
    for n in (1, 2, 3):
        for spec in itertools.product(elements, repeat=n):
            names = [x for el in spec for x in (el if isinstance(el, tuple) else (el,)) if not x.startswith("#")]
            if len(set(names)) != len(names):
                continue  # task names are unique within a challenge (enforced by the loader, C10)
            for k in (1, 2):
                for fs in itertools.combinations(flt, k):
                    for exclude in (False, True):
                        cases += 1
                        if any(isinstance(el, tuple) for el in spec):
                            nontrivial += 1
                        p = run_case(spec, fs, exclude)
                        if p and len(violations) < 5:
                            violations.append({"schedule": [list(el) if isinstance(el, tuple) else el for el in spec], "filters": list(fs), "exclude": exclude, "problems": p})
    json.dump({"bound": "<=3 elements (leaf or parallel of 1-2 leaves, with/without explicit clients) over 4 tasks, 1-2 filters of 7, include+exclude", "cases": cases, "nontrivial": nontrivial, "violations": violations}, open(sys.argv[1], "w"), indent=1)
    sys.exit(1 if violations else 0)


main()
