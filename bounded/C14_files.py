"""BOUNDED stand-in for C14 (labelled bounded, never counted as proved): the parts of corpus preparation that are library / file-system
behaviour and therefore outside the contracts — exercised on REAL files with the REAL code.

  S1 offset table == skipping lines one by one (io.prepare_file_offset_table via DocumentSetPreparator, io.skip_lines with io.MmapSource):
     3 corpora (multi-byte UTF-8 content, exact 50000-multiples, no trailing newline), 12 skip targets each.
  S2 what an earlier run can leave behind: every byte-prefix of a finished offset table (an interrupted table build), a stale table that is
     older than the data file, a table left by a different data file. After preparation returns, readers must be positioned correctly.
  S3 real archives of every supported format: round trip through Decompressor / prepare_document_set; truncated and wrong-size archives
     must end in an explicit error and never in a silently accepted document file.
  S4 net.download against a local HTTP server that misbehaves (404/500/304, short body, dropped connection, wrong declared size): the final
     name never holds a partial file, no <file>.tmp survives, a pre-existing final file is never replaced by a partial one.

usage: C14_files.py <result.json> | --replay <violation.json>
"""
import bz2
import gzip
import http.server
import io as _io
import json
import os
import shutil
import sys
import tarfile
import tempfile
import threading
import time
import zipfile


def log(*a):
    pass


# ---------------------------------------------------------------------------------------------------------------- helpers
def write_corpus(path, n, kind):
    offs = [0]
    with open(path, "wb") as f:
        for i in range(n):
            if kind == "multibyte" and i % 5 == 0:
                name = f"Zürich-{i} 日本語 \U0001f600"
            else:
                name = f"plain-{i}"
            line = ('{"id": %d, "name": "%s"}' % (i, name)).encode("utf-8")
            if not (kind == "no-trailing-newline" and i == n - 1):
                line += b"\r\n" if kind == "crlf" and i % 7 == 0 else b"\n"
            f.write(line)
            offs.append(offs[-1] + len(line))
    return offs


def documents(size, nlines, archive=None, csize=None, file="docs.json", base_url=None):
    from esrally.track import track

    return track.Documents(
        source_format=track.Documents.SOURCE_FORMAT_BULK,
        document_file=file,
        document_archive=archive,
        base_url=base_url,
        number_of_documents=nlines,
        compressed_size_in_bytes=csize,
        uncompressed_size_in_bytes=size,
    )


def preparator(offline=True):
    from esrally.track import loader

    return loader.DocumentSetPreparator("c14-bounded", loader.Downloader(offline=offline, test_mode=False), loader.Decompressor())


def reader_position(path, skip):
    """where the real reader stands after io.skip_lines (exactly as track.params.Slice opens it)"""
    from esrally.utils import io

    with io.MmapSource(path, "r") as src:
        io.skip_lines(path, src, skip)
        return src.mm.tell()


TARGETS = (0, 1, 49_999, 50_000, 50_001, 77_777, 99_999, 100_000, 100_001, 119_999, 120_000, 120_001)


def positions_ok(path, offs, targets=TARGETS):
    """[] or a list of problems"""
    n = len(offs) - 1
    out = []
    for skip in targets:
        want = offs[min(skip, n)]
        try:
            got = reader_position(path, skip)
        except Exception as e:  # noqa
            out.append(dict(skip=skip, error=f"{type(e).__name__}: {e}"[:160]))
            continue
        if got != want:
            out.append(dict(skip=skip, reader_at_byte=got, line_by_line_byte=want))
    return out


# ---------------------------------------------------------------------------------------------------------------- S1 / S2
def interrupted_build(path, cut):
    """run the real io.prepare_file_offset_table in a forked child whose table writes reach the disk byte by byte; the child dies
    (os._exit, nothing is flushed or cleaned up) once `cut` bytes of table data have been written"""
    pid = os.fork()
    if pid == 0:
        try:
            import builtins

            from esrally.utils import io

            real_open = builtins.open
            written = [0]

            class Cut:
                def __init__(self, f):
                    self.f = f

                def write(self, text):
                    for ch in text:
                        if written[0] >= cut:
                            self.f.flush()
                            os._exit(9)
                        self.f.write(ch)
                        written[0] += 1
                    return len(text)

                def __getattr__(self, name):
                    return getattr(self.f, name)

            def open_(file, mode="r", *a, **kw):
                f = real_open(file, mode, *a, **kw)
                return Cut(f) if ".offset" in str(file) and "w" in mode else f

            builtins.open = open_
            io.prepare_file_offset_table(path)
            if written[0] >= cut:
                os._exit(9)  # dies right after the last write, before the table is closed
        finally:
            os._exit(0)
    os.waitpid(pid, 0)


def s1_offset_tables(tmp, res):
    for kind, n in (("multibyte", 120_000), ("plain", 100_000), ("no-trailing-newline", 100_001), ("crlf", 60_000)):
        d = tempfile.mkdtemp(dir=tmp)
        p = os.path.join(d, "docs.json")
        offs = write_corpus(p, n, kind)
        preparator().prepare_document_set(documents(os.path.getsize(p), n), d)
        res["cases"] += len(TARGETS)
        if not os.path.isfile(p + ".offset"):
            res["violations"].append(dict(scenario="S1", corpus=kind, problem="preparation returned without an offset table"))
            continue
        bad = positions_ok(p, offs)
        if bad:
            res["violations"].append(dict(scenario="S1", corpus=kind, lines=n, problem="offset table and line-by-line skipping disagree", details=bad[:4]))
        shutil.rmtree(d)


def s2_leftovers(tmp, res, only_cut=None):
    d = tempfile.mkdtemp(dir=tmp)
    p = os.path.join(d, "docs.json")
    n = 120_000
    offs = write_corpus(p, n, "multibyte")
    size = os.path.getsize(p)
    from esrally.utils import io

    io.prepare_file_offset_table(p)
    with open(p + ".offset") as f:
        table = f.read()
    targets = (50_000, 100_000, 119_999)
    # (a) an interrupted table build: the REAL build runs in a forked child that dies after `cut` bytes of table data reached the disk
    #     (whatever file name the code writes the table to); then preparation runs again, as the next Rally invocation would
    cuts = range(len(table) + 1) if only_cut is None else [only_cut]
    for cut in cuts:
        for leftover in os.listdir(d):
            if leftover != "docs.json":
                os.remove(os.path.join(d, leftover))
        interrupted_build(p, cut)
        left = sorted(x for x in os.listdir(d) if x != "docs.json")
        res["cases"] += 1
        try:
            preparator().prepare_document_set(documents(size, n), d)
        except Exception as e:  # noqa: an explicit error is an acceptable outcome of preparation
            res["explicit_errors"] += 1
            continue
        bad = positions_ok(p, offs, targets)
        if bad:
            res["class_hits"].setdefault("C14-interrupted-offset-table-build", []).append(
                dict(scenario="S2a", table_prefix_bytes=cut, table_prefix=table[:cut], files_left_by_the_interrupted_build=left, details=bad[:3]))
    if only_cut is not None:
        return
    # (b) a stale table (older than the data file, garbage content) must be rebuilt
    with open(p + ".offset", "w") as f:
        f.write("50000;7\n100000;9\n")
    old = time.time() - 3600
    os.utime(p + ".offset", (old, old))
    res["cases"] += 1
    preparator().prepare_document_set(documents(size, n), d)
    bad = positions_ok(p, offs, targets)
    if bad:
        res["violations"].append(dict(scenario="S2b", problem="a stale offset table (older than the data file) was used", details=bad[:3]))
    # (c) wrong number of lines declared: explicit error and no table left behind
    os.remove(p + ".offset")
    res["cases"] += 1
    try:
        preparator().prepare_document_set(documents(size, n + 1), d)
        res["violations"].append(dict(scenario="S2c", problem="a document file with the wrong number of lines was accepted"))
    except Exception as e:  # noqa
        if type(e).__name__ != "DataError":
            res["violations"].append(dict(scenario="S2c", problem=f"wrong line count raised {type(e).__name__} instead of DataError"))
        if os.path.exists(p + ".offset"):
            res["violations"].append(dict(scenario="S2c", problem="offset table of a rejected document file was left behind"))
    shutil.rmtree(d)


# ---------------------------------------------------------------------------------------------------------------- S3
def make_archive(fmt, doc_path, d):
    name = os.path.basename(doc_path)
    if fmt == "bz2":
        a = doc_path + ".bz2"
        with open(doc_path, "rb") as src, bz2.open(a, "wb") as dst:
            shutil.copyfileobj(src, dst)
    elif fmt == "gz":
        a = doc_path + ".gz"
        with open(doc_path, "rb") as src, gzip.open(a, "wb") as dst:
            shutil.copyfileobj(src, dst)
    elif fmt == "zst":
        import zstandard

        a = doc_path + ".zst"
        with open(doc_path, "rb") as src, open(a, "wb") as dst:
            zstandard.ZstdCompressor().copy_stream(src, dst)
    elif fmt == "zip":
        a = os.path.join(d, "docs.zip")
        with zipfile.ZipFile(a, "w", zipfile.ZIP_DEFLATED) as z:
            z.write(doc_path, name)
    else:
        a = os.path.join(d, "docs." + fmt)
        mode = {"tar": "w", "tar.gz": "w:gz", "tgz": "w:gz", "tar.bz2": "w:bz2"}[fmt]
        with tarfile.open(a, mode) as t:
            t.add(doc_path, name)
    return a


FORMATS = ("bz2", "gz", "zst", "zip", "tar", "tar.gz", "tgz", "tar.bz2")


def s3_archives(tmp, res):
    n = 2_000
    for fmt in FORMATS:
        for fault in ("none", "truncated-archive", "wrong-uncompressed-size", "undeclared-sizes", "partial-document-present"):
            d = tempfile.mkdtemp(dir=tmp)
            p = os.path.join(d, "docs.json")
            write_corpus(p, n, "multibyte")
            with open(p, "rb") as f:
                content = f.read()
            try:
                a = make_archive(fmt, p, d)
            except ImportError:
                res["skipped"].append(f"{fmt}: library missing")
                shutil.rmtree(d)
                break
            os.remove(p)
            size, csize = len(content), os.path.getsize(a)
            if fault == "truncated-archive":
                with open(a, "rb") as f:
                    raw = f.read()
                with open(a, "wb") as f:
                    f.write(raw[: len(raw) // 2])
                csize = os.path.getsize(a)  # the track declares the size of what is on disk: only the content is corrupt
            elif fault == "wrong-uncompressed-size":
                size += 1
            elif fault == "undeclared-sizes":
                size = csize = None
            elif fault == "partial-document-present":
                with open(p, "wb") as f:
                    f.write(content[: len(content) // 3])  # an interrupted decompression of an earlier run
            res["cases"] += 1
            docs = documents(size, n, archive=os.path.basename(a), csize=csize)
            try:
                preparator().prepare_document_set(docs, d)
                returned, err = True, None
            except BaseException as e:  # noqa
                returned, err = False, e
            case = dict(scenario="S3", format=fmt, fault=fault)
            if returned:
                ok = os.path.isfile(p) and open(p, "rb").read() == content and os.path.isfile(p + ".offset")
                if fault in ("truncated-archive", "wrong-uncompressed-size"):
                    res["violations"].append(dict(case, problem="preparation returned normally although the archive cannot produce the declared document file"))
                elif not ok:
                    res["violations"].append(dict(case, problem="preparation returned but the document file is missing / differs from the archive content / has no offset table"))
            else:
                if fault in ("none", "undeclared-sizes", "partial-document-present"):
                    res["violations"].append(dict(case, problem=f"preparation failed on a healthy archive: {type(err).__name__}: {err}"[:300]))
                else:
                    res["explicit_errors"] += 1
            shutil.rmtree(d)


# ---------------------------------------------------------------------------------------------------------------- S4
BODY = b"".join(b'{"id": %d}\n' % i for i in range(5000))


class Handler(http.server.BaseHTTPRequestHandler):
    protocol_version = "HTTP/1.1"

    def log_message(self, *a):
        pass

    def do_GET(self):
        mode = self.path.strip("/").split("/")[0]
        self.server.hits[mode] = self.server.hits.get(mode, 0) + 1
        if mode == "ok":
            self.send_response(200)
            self.send_header("Content-Length", str(len(BODY)))
            self.end_headers()
            self.wfile.write(BODY)
        elif mode in ("404", "500", "304", "301"):
            body = b"<html>error page that must never be stored as corpus data</html>"
            self.send_response(int(mode))
            if mode == "301":
                self.send_header("Location", "/301/again")
            self.send_header("Content-Length", str(len(body) if mode != "304" else 0))
            self.end_headers()
            if mode != "304":
                self.wfile.write(body)
        elif mode == "short":
            # declares the full length, sends a third of it and closes the connection
            self.send_response(200)
            self.send_header("Content-Length", str(len(BODY)))
            self.end_headers()
            self.wfile.write(BODY[: len(BODY) // 3])
            self.wfile.flush()
            self.close_connection = True
        elif mode == "flaky":
            # fails twice like "short", then serves the file: the retry loop must end with the complete file
            if self.server.hits[mode] <= 2:
                self.send_response(200)
                self.send_header("Content-Length", str(len(BODY)))
                self.end_headers()
                self.wfile.write(BODY[:100])
                self.wfile.flush()
                self.close_connection = True
            else:
                self.send_response(200)
                self.send_header("Content-Length", str(len(BODY)))
                self.end_headers()
                self.wfile.write(BODY)
        elif mode == "nolength":
            self.send_response(200)
            self.send_header("Connection", "close")
            self.end_headers()
            self.wfile.write(BODY[: len(BODY) // 2])
            self.close_connection = True


def s4_downloads(tmp, res):
    from esrally.utils import net

    try:
        srv = http.server.ThreadingHTTPServer(("127.0.0.1", 0), Handler)
    except OSError as e:
        res["skipped"].append(f"S4: no loopback networking ({e})")
        return
    srv.hits = {}
    th = threading.Thread(target=srv.serve_forever, daemon=True)
    th.start()
    sleeps = []
    saved = dict(net.download_http.__kwdefaults__ or {})
    net.download_http.__kwdefaults__ = dict(saved, sleep=lambda s: sleeps.append(s))  # the 5 s pause between attempts is recorded, not waited for
    try:
        base = f"http://127.0.0.1:{srv.server_address[1]}"
        # (mode, declared size, a final file exists beforehand, expectation)
        cases = [
            ("ok", len(BODY), False, "complete"),
            ("ok", None, False, "complete"),
            ("ok", len(BODY), True, "complete"),
            ("ok", len(BODY) + 1, False, "error"),
            ("ok", len(BODY) - 1, True, "error"),
            ("404", len(BODY), False, "error"),
            ("500", None, True, "error"),
            ("304", None, False, "error"),
            ("short", len(BODY), False, "error"),
            ("short", None, True, "error"),
            ("flaky", len(BODY), False, "complete"),
            ("nolength", len(BODY), False, "error"),
        ]
        for mode, declared, preexisting, expect in cases:
            d = tempfile.mkdtemp(dir=tmp)
            target = os.path.join(d, "docs.json.bz2")
            old = b"OLD-COMPLETE-FILE"
            if preexisting:
                with open(target, "wb") as f:
                    f.write(old)
            srv.hits.clear()
            del sleeps[:]
            res["cases"] += 1
            try:
                net.download(f"{base}/{mode}/docs.json.bz2", target, declared)
                returned, err = True, None
            except BaseException as e:  # noqa
                returned, err = False, e
            case = dict(scenario="S4", server=mode, declared_size=declared, final_file_before=preexisting)
            final = open(target, "rb").read() if os.path.isfile(target) else None
            if os.path.exists(target + ".tmp"):
                res["violations"].append(dict(case, problem="<file>.tmp left behind"))
            if expect == "complete":
                if not returned or final != BODY:
                    res["violations"].append(dict(case, problem=f"download of a healthy file did not end with the complete file ({type(err).__name__ if err else 'returned'})"))
            else:
                if returned:
                    res["violations"].append(dict(case, problem="download returned normally although no complete, verified file could be fetched", final_size=None if final is None else len(final)))
                else:
                    res["explicit_errors"] += 1
                if final is not None and final != (old if preexisting else None):
                    res["violations"].append(dict(case, problem="a partial / wrong file stands under the final name", final_size=len(final)))
            if mode == "short" and (srv.hits.get("short") != 11 or sleeps != [5] * 10):
                res["violations"].append(dict(case, problem=f"dropped connections: {srv.hits.get('short')} attempts, pauses {sleeps} (documented: 11 attempts, 5 s apart)"))
            if mode in ("404", "500", "304") and srv.hits.get(mode) != 1:
                res["violations"].append(dict(case, problem=f"HTTP {mode} was requested {srv.hits.get(mode)} times (an HTTP error is not retried)"))
            shutil.rmtree(d)
    finally:
        net.download_http.__kwdefaults__ = saved
        srv.shutdown()
        srv.server_close()


# ---------------------------------------------------------------------------------------------------------------- main
def run(which=("s1", "s2", "s3", "s4"), only_cut=None):
    import logging

    logging.disable(logging.CRITICAL)
    res = dict(cases=0, explicit_errors=0, violations=[], class_hits={}, skipped=[])
    tmp = tempfile.mkdtemp(prefix="c14-bounded-")
    devnull = open(os.devnull, "w")
    saved_out = sys.stdout
    sys.stdout = devnull  # console.info progress lines of the real code
    try:
        for name, fn in (("s1", s1_offset_tables), ("s2", lambda t, r: s2_leftovers(t, r, only_cut)), ("s3", s3_archives), ("s4", s4_downloads)):
            if name not in which:
                continue
            try:
                fn(tmp, res)
            except Exception as e:  # noqa: the real code failed on a healthy scenario step
                import traceback

                res["violations"].append(dict(scenario=name.upper(), problem=f"the real code raised {type(e).__name__}: {e}"[:300], where=traceback.format_exc()[-600:]))
    finally:
        sys.stdout = saved_out
        shutil.rmtree(tmp, ignore_errors=True)
    return res


def main():
    if sys.argv[1] == "--replay":
        case = json.load(open(sys.argv[2])).get("case", {})
        scen = case.get("scenario", "")
        if scen.startswith("S2a"):
            r = run(("s2",), only_cut=case.get("table_prefix_bytes"))
            hits = r["class_hits"].get("C14-interrupted-offset-table-build", [])
            if hits:
                print(f"REPRODUCED: offset table cut after {hits[0]['table_prefix_bytes']} bytes ({hits[0]['table_prefix']!r}) is accepted by preparation; {hits[0]['details'][0]}")
                sys.exit(1)
            print("NOT-REPRODUCED: preparation rebuilt or rejected the interrupted offset table")
            sys.exit(0)
        r = run(({"S1": "s1", "S2": "s2", "S3": "s3", "S4": "s4"}.get(scen[:2], "s1"),))
        same = [v for v in r["violations"] if all(v.get(k) == case.get(k) for k in ("scenario", "format", "fault", "server", "declared_size", "corpus") if k in case)]
        if same:
            print(f"REPRODUCED: {same[0]}")
            sys.exit(1)
        print("NOT-REPRODUCED: the recorded scenario passes on this tree")
        sys.exit(0)
    t0 = time.time()
    r = run()
    r["bound"] = "S1: 4 corpora x 12 skip targets; S2: every byte-prefix of one finished 2-entry table + stale table + wrong line count; S3: 8 archive formats x 5 faults (2000-line corpus); S4: 12 download scenarios against a local faulty HTTP server"
    r["secs"] = round(time.time() - t0, 1)
    json.dump(r, open(sys.argv[1], "w"), indent=1, default=str)
    sys.exit(1 if r["violations"] or r["class_hits"] else 0)


if __name__ == "__main__":
    main()
