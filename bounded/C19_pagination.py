"""BOUNDED stand-in for C19 (labelled bounded, never counted as proved): the cursors and counters of paginated searches against json.loads
on the REAL code: (a) CompositeAggExtractor: after_key of composite aggregations whose source names contain dots, share a last path
component, or are non-ASCII; (b) the scroll-search runner: hits / pages / hits_relation for totals given as a number or as an object,
including ZERO hits, with and without results-per-page.
Bound: 7 after_key key sets x 3 value sets x 2 key orders x 2 encodings; 18 scroll scenarios.   usage: <result.json> | --replay <file>"""
import asyncio
import io
import itertools
import json
import sys
from unittest import mock

KEYSETS = [["vendor_id"], ["vendor_id", "payment_type"], ["geo.src", "geo.dest"], ["source.ip", "destination.ip"], ["a.b.c", "c"], ["名.前", "plain"], ["x.y", "x", "y"]]
VALUES = [["US", 7, 2.5], ["a]b", "so\"rt", 0], [None, "é", -1]]


def composite_cases():
    for keys, vals, reverse, ascii_ in itertools.product(KEYSETS, VALUES, (False, True), (False, True)):
        after = {k: vals[i % len(vals)] for i, k in enumerate(keys)}
        aggs = {"by_x": {"after_key": after, "buckets": [{"key": after, "doc_count": 3}]}}
        doc = {"took": 5, "timed_out": False, "hits": {"total": {"value": 10, "relation": "eq"}, "hits": []}, "aggregations": aggs}
        if reverse:
            doc = dict(reversed(list(doc.items())))
        yield dict(kind="composite", keys=keys, values=vals, reverse=reverse, ascii=ascii_), json.dumps(doc, ensure_ascii=ascii_).encode("utf-8"), after


def check_composite(raw, after):
    from esrally.driver import runner

    parsed = runner.CompositeAggExtractor()(io.BytesIO(raw), False, ["by_x"], None)
    probs = []
    if parsed.get("after_key") != after:
        probs.append(f"after_key cursor {parsed.get('after_key')!r}, the response says {after!r}")
    if parsed.get("hits.total.value") != 10 or parsed.get("took") != 5 or parsed.get("timed_out") is not False:
        probs.append(f"selective parse {parsed}")
    return probs


def page(total, n_hits, scroll_id="c2Ny"):
    return json.dumps({"_scroll_id": scroll_id, "took": 3, "timed_out": False, "hits": {"total": total, "hits": [{"_id": str(i), "_source": {"f": i}} for i in range(n_hits)]}}).encode()


def scroll_cases():
    for total_form, hits_per_page, size, pages in itertools.product(("object", "number"), ([0], [2, 2, 0], [3, 1]), (None, 2, 3), ("all",)):
        n = sum(hits_per_page)
        total = {"value": n, "relation": "eq"} if total_form == "object" else n
        yield dict(kind="scroll", total_form=total_form, hits_per_page=hits_per_page, size=size, pages=pages), [page(total, h) for h in hits_per_page], n


async def run_scroll(pages_raw, size, pages_param):
    from esrally.driver import runner

    requests = []
    empty = page({"value": 0, "relation": "eq"}, 0)

    async def perform_request(*, method, path, params=None, body=None, headers=None):
        requests.append(path)
        idx = len(requests) - 1
        return io.BytesIO(pages_raw[idx] if idx < len(pages_raw) else empty)

    es = mock.MagicMock()
    es.options.return_value = es
    es.perform_request = perform_request
    es.clear_scroll = mock.AsyncMock(return_value=io.BytesIO(b'{"succeeded": true, "num_freed": 1}'))
    params = {"operation-type": "scroll-search", "index": "logs", "pages": pages_param, "body": {"query": {"match_all": {}}}}
    if size is not None:
        params["results-per-page"] = size
    return await runner.Query()(es, params), len(requests)


def check_scroll(case, pages_raw, n):
    try:
        result, n_requests = asyncio.run(run_scroll(pages_raw, case["size"], case["pages"]))
    except Exception as ex:  # noqa
        return [f"the scroll runner raised {type(ex).__name__}: {ex}"]
    probs = []
    if result.get("hits") != n:
        probs.append(f"reports hits={result.get('hits')!r}, the first page says total {n}")
    if result.get("hits_relation") != "eq":
        probs.append(f"hits_relation {result.get('hits_relation')!r}")
    # pages: every page fetched until a page came back short (results-per-page known) or empty; never more requests than pages with hits + 1
    want_max = len([h for h in case["hits_per_page"] if h > 0]) + 1
    if not (1 <= result.get("pages", 0) <= want_max) or n_requests != result.get("pages"):
        probs.append(f"reports {result.get('pages')} pages with {n_requests} requests for pages of {case['hits_per_page']} hits")
    return probs


def run_case(case):
    if case["kind"] == "composite":
        for c, raw, after in composite_cases():
            if all(c[k] == case[k] for k in ("keys", "values", "reverse", "ascii")):
                return check_composite(raw, after)
    for c, pages_raw, n in scroll_cases():
        if all(c[k] == case[k] for k in ("total_form", "hits_per_page", "size", "pages")):
            return check_scroll(c, pages_raw, n)
    return []


def main():
    if sys.argv[1] == "--replay":
        case = json.load(open(sys.argv[2]))["case"]["case"]
        p = run_case(case)
        print(("REPRODUCED: " if p else "NOT-REPRODUCED: ") + f"{case}: {p}")
        sys.exit(1 if p else 0)
    cases, violations = 0, []
    for c, raw, after in composite_cases():
        cases += 1
        try:
            p = check_composite(raw, after)
        except Exception as ex:  # noqa
            p = [f"CompositeAggExtractor raised {type(ex).__name__}: {ex}"]
        if p and len(violations) < 5:
            violations.append({"case": c, "problems": p})
    for c, pages_raw, n in scroll_cases():
        cases += 1
        p = check_scroll(c, pages_raw, n)
        if p and len(violations) < 5:
            violations.append({"case": c, "problems": p})
    json.dump({"bound": "composite after_key: 7 key sets (dotted, colliding last component, non-ASCII) x 3 value sets x key order x encoding; scroll: total as object/number, 0 / 4 hits, results-per-page none/2/3",
               "cases": cases, "violations": violations}, open(sys.argv[1], "w"), indent=1)
    sys.exit(1 if violations else 0)


if __name__ == "__main__":
    main()
