"""BOUNDED stand-in for C19 (labelled bounded, never counted as proved): enumerated search responses for the search_after cursor and the
selective parser, compared with json.loads on the real code.
Bound: 1-3 hits, 1-2 sort values per hit drawn from numbers and strings over {a, ], [, ",", \\", "sort", non-ASCII}, optional _source
that itself mentions "sort", both key orders (sort before/after _source), ascii and raw-UTF-8 encodings.
Known class (see known_findings.txt): a sort STRING that contains ']'.   --replay <file> re-runs one recorded case."""
import io
import itertools
import json
import sys

SORT_VALUES = [1609780186, -3, 2.5, "a", "a]b", "[x", "x,y", 'q"r', "sort", "é", "日本", "]"]
SOURCES = [None, {"f": "v"}, {"sort": [9, 9]}, {"t": 'the "sort": [1] text'}, {"名": "é]"}]


def make(hits_spec, source_first, ensure_ascii):
    hits = []
    for sort_vals, src in hits_spec:
        h = {"_index": "i", "_id": "1"}
        if source_first and src is not None:
            h["_source"] = src
        h["sort"] = list(sort_vals)
        if not source_first and src is not None:
            h["_source"] = src
        hits.append(h)
    doc = {"pit_id": "p1", "took": 7, "timed_out": False, "hits": {"total": {"value": len(hits), "relation": "eq"}, "hits": hits}}
    return json.dumps(doc, ensure_ascii=ensure_ascii).encode("utf-8"), doc


def check(raw, doc):
    from esrally.driver import runner

    problems = []
    ex = runner.SearchAfterExtractor()
    try:
        parsed, last = ex(io.BytesIO(raw), True, None)
    except Exception as e:  # noqa
        return [f"extractor raised {type(e).__name__}: {e}"]
    want = doc["hits"]["hits"][-1]["sort"] if doc["hits"]["hits"] else None
    if last != want:
        problems.append(f"cursor {last!r}, the last hit's sort value is {want!r}")
    if parsed.get("pit_id") != "p1" or parsed.get("took") != 7 or parsed.get("timed_out") is not False or parsed.get("hits.total.value") != len(doc["hits"]["hits"]):
        problems.append(f"selective parse {parsed}")
    return problems


def known_class(doc, source_first):
    """classes of inputs recorded in known_findings.txt (anything else that fails is a violation)"""
    if any(isinstance(v, str) and "]" in v for h in doc["hits"]["hits"] for v in h["sort"]):
        return "C19-bracket-in-sort-string"
    last = doc["hits"]["hits"][-1]
    if (not source_first and '"sort"' in json.dumps(last.get("_source"))) or any(isinstance(v, str) and '"sort"' in json.dumps(v) for v in last["sort"]):
        return "C19-sort-text-after-sort-key"  # the text "sort" (in quotes) occurs again after the last hit's sort key
    return None


def main():
    if sys.argv[1] == "--replay":
        rec = json.load(open(sys.argv[2]))
        c = rec.get("case") or rec.get("known_input")
        raw, doc = make([(tuple(s), src) for s, src in c["hits"]], c["source_first"], c["ensure_ascii"])
        p = check(raw, doc)
        print(("REPRODUCED: " if p else "NOT-REPRODUCED: ") + f"search response with hits (sort, _source) {c['hits']} (source first: {c['source_first']}, ascii-escaped: {c['ensure_ascii']}): {p}")
        sys.exit(1 if p else 0)
    cases = nontrivial = 0
    known_hits, known_examples = {}, {}
    violations = []
    singles = [(v,) for v in SORT_VALUES]
    pairs = [(1, v) for v in SORT_VALUES] + [(v, "z") for v in SORT_VALUES[3:]]
    hit_opts = [(s, src) for s in singles + pairs for src in SOURCES]
    specs = [[h] for h in hit_opts]
    specs += [[a, b] for a in hit_opts[::7] for b in hit_opts]
    specs += [[a, b, c] for a in hit_opts[::17] for b in hit_opts[3::19] for c in hit_opts[::3]]
    for spec in specs:
        for source_first, ensure_ascii in itertools.product((False, True), (False, True)):
            raw, doc = make(spec, source_first, ensure_ascii)
            cases += 1
            if any(isinstance(v, str) for h in doc["hits"]["hits"] for v in h["sort"]) or any(h.get("_source") for h in doc["hits"]["hits"]):
                nontrivial += 1
            p = check(raw, doc)
            if p:
                rec = {"hits": [[list(s), src] for s, src in spec], "source_first": source_first, "ensure_ascii": ensure_ascii, "problems": p}
                kc = known_class(doc, source_first)
                if kc:
                    known_hits[kc] = known_hits.get(kc, 0) + 1
                    known_examples.setdefault(kc, rec)
                elif len(violations) < 5:
                    violations.append(rec)
    json.dump({"bound": "1-3 hits, 1-2 sort values from 12 (numbers, strings with ] [ , quote, the word sort, non-ASCII), 5 _source shapes, both key orders, ascii/raw UTF-8",
               "cases": cases, "nontrivial": nontrivial, "violations": violations, "known_class_hits": known_hits, "known_examples": known_examples}, open(sys.argv[1], "w"), indent=1)
    sys.exit(1 if violations else 0)


main()
