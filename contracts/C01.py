"""C01 — the schedule runs step by step on all clients under any message timing (handler-local barrier and progress guarantees)."""

DRIVER = {
    "Driver.currently_completed": "int", "Driver.workers": "list[any]", "Driver.workers_completed_current_step": "dict[int,tuple[real,real]]", "Driver.current_step": "int",
    "Driver.number_of_steps": "int", "Driver.complete_current_task_sent": "bool", "Driver.most_recent_sample_per_client": "any", "Driver.metrics_store": "any", "Driver.telemetry": "any",
    "Driver.generated_api_key_ids": "any", "Driver.default_sync_es_client": "any", "Driver.driver_actor": "any", "Driver.logger": "any", "Driver.config": "any",
    "Driver.clients_per_worker": "dict[int,int]", "Driver.raw_samples": "list[any]", "Driver.sample_post_processor": "any",
    "ClientAllocation.client_id": "int", "ClientAllocation.task": "obj[JoinPoint]",
    "JoinPoint.id": "int", "JoinPoint.any_task_completes_parent": "list[int]", "JoinPoint.clients_executing_completing_task": "list[int]", "JoinPoint.preceding_task_completes_parent": "bool",
    "JoinPoint.num_clients_executing_completing_task": "int",
}
W = "len(self.workers)"

# ---- completed-by broadcast
ANY_JP = "exists(lambda j: 0 <= j and j < len(task_allocations) and len(task_allocations[j].task.any_task_completes_parent) > 0)"
CP_JP = "exists(lambda j: 0 <= j and j < len(task_allocations) and task_allocations[j].task.preceding_task_completes_parent)"
# the join point that names completing clients: the first allocation whose join point has some
FIRST_CP = ("(0 <= f and f < len(task_allocations) and task_allocations[f].task.preceding_task_completes_parent "
            "and forall(lambda j: implies(0 <= j and j < f, not task_allocations[j].task.preceding_task_completes_parent)))")
CLIENTS = "task_allocations[f].task.clients_executing_completing_task"
ALL_DONE = f"forall(lambda c: implies(0 <= c and c < len({CLIENTS}), has(self.workers_completed_current_step, self.clients_per_worker[{CLIENTS}[c]])))"
BROADCAST = (f"nev() == {W} and self.complete_current_task_sent and forall(lambda q: implies(0 <= q and q < {W}, evk(q) == 'complete_current_task' and eva(q, 1, 'any') == self.workers[q]))")
SILENT = "nev() == 0 and self.complete_current_task_sent == old(self.complete_current_task_sent)"
MAY_COMPLETE = dict(
    target="esrally/driver/driver.py::Driver.may_complete_current_task",
    prop="C01",
    self_type="obj[Driver]",
    params={"task_allocations": "list[obj[ClientAllocation]]"},
    fields=DRIVER,
    externals={"self.driver_actor.complete_current_task": dict(event="complete_current_task")},
    requires=[
        # every client named by a join point is mapped to a worker
        "forall(lambda j: implies(0 <= j and j < len(task_allocations), forall(lambda c: implies(0 <= c and c < len(task_allocations[j].task.clients_executing_completing_task), "
        "has(self.clients_per_worker, task_allocations[j].task.clients_executing_completing_task[c])))))",
    ],
    locals={"pending_client_ids": "list[int]"},
    loops={
        0: dict(inv=["nev() == _i and self.complete_current_task_sent", "forall(lambda q: implies(0 <= q and q < _i, evk(q) == 'complete_current_task' and eva(q, 1, 'any') == self.workers[q]))"]),
        1: dict(
            modifies_objs=["pending_client_ids"],
            inv=[
                "nev() == 0 and not self.complete_current_task_sent and ref(pending_client_ids) >= NREF0()",
                # pending is empty so far iff every completing client seen so far sits on a worker that has reached the join point
                "(len(pending_client_ids) == 0) == forall(lambda c: implies(0 <= c and c < _i, has(self.workers_completed_current_step, self.clients_per_worker[current_join_point.clients_executing_completing_task[c]])))",
            ],
        ),
        2: dict(inv=["nev() == _i and self.complete_current_task_sent", "forall(lambda q: implies(0 <= q and q < _i, evk(q) == 'complete_current_task' and eva(q, 1, 'any') == self.workers[q]))"]),
    },
    ensures=[
        # at most one broadcast per step
        f"implies(old(self.complete_current_task_sent), {SILENT})",
        # completed-by: any -> broadcast as soon as the first worker arrives
        f"implies(not old(self.complete_current_task_sent) and {ANY_JP}, {BROADCAST})",
        # completed-by: <task> -> broadcast exactly when every client of the named task sits on a worker that has reached the join point
        f"forall(lambda f: implies(not old(self.complete_current_task_sent) and not {ANY_JP} and {FIRST_CP} and {ALL_DONE}, {BROADCAST}))",
        f"forall(lambda f: implies(not old(self.complete_current_task_sent) and not {ANY_JP} and {FIRST_CP} and not {ALL_DONE}, {SILENT}))",
        f"implies(not {ANY_JP} and not {CP_JP}, {SILENT})",
        # whatever happens, the only messages are CompleteCurrentTask, either none or one per worker
        f"(nev() == 0 or nev() == {W}) and forall(lambda q: implies(0 <= q and q < nev(), evk(q) == 'complete_current_task'))",
    ],
    emits=True,
    modifies=["self"],
    only_fields={"self": ["complete_current_task_sent"]},
    cover=["return"],
)

# ---- sending every worker to the next step
MOVE_NEXT = dict(
    target="esrally/driver/driver.py::Driver.move_to_next_task",
    prop="C01",
    self_type="obj[Driver]",
    params={"workers_curr_step": "dict[int,tuple[real,real]]"},
    fields=DRIVER,
    externals={
        "self.config.opts": dict(returns="any"),
        "self.metrics_store.to_externalizable": dict(event="externalize", returns="any", event_kwargs=["clear"]),
        "self.driver_actor.on_task_finished": dict(event="on_task_finished"),
        "time.perf_counter": dict(returns="real"),
        "self.driver_actor.drive_at": dict(event="drive_at"),
        "self.post_process_samples": dict(event="post_process"),  # not called here today; if it ever is, it shows up in the event trace
    },
    requires=[f"forall(lambda w: implies(0 <= w and w < {W}, has(workers_curr_step, w)))"],
    loops={0: dict(inv=[f"nev() == 2 + _i", "evk(0) == 'externalize' and eva(0, 1, 'bool') and evk(1) == 'on_task_finished' and eva(1, 1, 'any') == eva(0, 0, 'any')",
                        "forall(lambda q: implies(0 <= q and q < _i, evk(2 + q) == 'drive_at' and eva(2 + q, 1, 'any') == self.workers[q]))"])},
    ensures=[
        # the step's metrics are handed over (with clear) once, race control is told once, then EVERY worker gets exactly one Drive, in order
        f"nev() == 2 + {W} and evk(0) == 'externalize' and eva(0, 1, 'bool') and evk(1) == 'on_task_finished' and eva(1, 1, 'any') == eva(0, 0, 'any')",
        f"forall(lambda q: implies(0 <= q and q < {W}, evk(2 + q) == 'drive_at' and eva(2 + q, 1, 'any') == self.workers[q]))",
    ],
    emits=True,
    cover=["return"],
)

# ---- the barrier
JP_EXT = {
    "time.perf_counter": dict(returns="real"),
    "self.update_progress_message": dict(returns="none"),
    "self.post_process_samples": dict(event="post_process"),
    "self.telemetry.on_benchmark_stop": dict(event="telemetry_stop"),
    "self.metrics_store.to_externalizable": dict(event="externalize", returns="any", event_kwargs=["clear"]),
    "self.metrics_store.close": dict(event="close_store"),
    "delete_api_keys": dict(outcomes=[dict(returns="any"), dict(raises="RallyError")]),
    "console.warn": dict(drop=True),
    "self.driver_actor.on_benchmark_complete": dict(event="on_benchmark_complete"),
}
LAST = f"old(self.currently_completed) + 1 == {W}"
JOINPOINT = dict(
    target="esrally/driver/driver.py::Driver.joinpoint_reached",
    prop="C01",
    self_type="obj[Driver]",
    params={"worker_id": "int", "worker_local_timestamp": "real", "task_allocations": "list[obj[ClientAllocation]]"},
    fields=DRIVER,
    externals=JP_EXT,
    requires=[
        f"0 <= self.current_step and self.current_step < self.number_of_steps and 0 <= self.currently_completed and self.currently_completed < {W}",
        f"0 <= worker_id and worker_id < {W} and not has(self.workers_completed_current_step, worker_id)",
        # bookkeeping invariant of a step: the workers that already reported are exactly the `currently_completed` ones
        f"forall(lambda w: implies(has(self.workers_completed_current_step, w), 0 <= w and w < {W}))",
        f"implies({LAST}, forall(lambda w: implies(0 <= w and w < {W} and w != worker_id, has(self.workers_completed_current_step, w))))",
    ] + MAY_COMPLETE["requires"],
    ensures=[
        # not the last worker of the step: nobody is sent on, the step does not advance, nothing is reported
        f"implies(not {LAST}, self.current_step == old(self.current_step) and self.currently_completed == old(self.currently_completed) + 1 and has(self.workers_completed_current_step, worker_id) "
        "and forall(lambda q: implies(0 <= q and q < nev(), evk(q) == 'complete_current_task')))",
        # the last worker: the step advances by one, bookkeeping is reset ...
        f"implies({LAST}, self.current_step == old(self.current_step) + 1 and self.currently_completed == 0 and not self.complete_current_task_sent and len(self.workers_completed_current_step) == 0)",
        # ... and EXACTLY ONE of: the race is complete (reported once, no worker is driven on) or every worker gets exactly one Drive after race control was told
        f"implies({LAST} and self.current_step == self.number_of_steps, exists(lambda q: 0 <= q and q < nev() and evk(q) == 'on_benchmark_complete' "
        "and forall(lambda r: implies(0 <= r and r < nev() and r != q, evk(r) != 'on_benchmark_complete' and evk(r) != 'drive_at' and evk(r) != 'on_task_finished'))))",
        # the samples of the finished step are post-processed FIRST, whether the race goes on or ends (before results are externalised / the store is closed)
        f"implies({LAST}, nev() >= 1 and evk(0) == 'post_process')",
        f"implies({LAST} and self.current_step != self.number_of_steps, nev() == 3 + {W} and evk(0) == 'post_process' and evk(1) == 'externalize' and evk(2) == 'on_task_finished' "
        f"and forall(lambda q: implies(0 <= q and q < {W}, evk(3 + q) == 'drive_at' and eva(3 + q, 1, 'any') == self.workers[q])))",
    ],
    cover=["return"],
)

CONTRACTS = [MAY_COMPLETE, MOVE_NEXT, JOINPOINT]
ASSUMPTIONS = ["thespian delivers each message once, FIFO per sender/receiver pair, handlers run atomically; DriverActor.drive_at / complete_current_task / on_task_finished / on_benchmark_complete send exactly one message each (they are one-line wrappers)",
               "join points between schedule elements come from Allocator.allocations (C02)"]
NOT_DECIDED = ["the quantifier over delivery orders, delays, clock offsets; liveness (outside this family)", "the composition lemma (no worker in step k+1 while another is in step k) is assumed from the handler contracts, not proved",
               "Worker handlers (drive / wake-up chain) -- see the worker contracts when present"]
TRUSTED = []

# ======================================================================= the worker side
WK = {
    "Worker.driver_actor": "any", "Worker.worker_id": "any", "Worker.config": "any", "Worker.track": "any", "Worker.client_allocations": "any", "Worker.client_contexts": "any",
    "Worker.current_task_index": "int", "Worker.next_task_index": "int", "Worker.on_error": "any", "Worker.pool": "any", "Worker.executor_future": "any", "Worker.sampler": "opt[obj[Sampler]]",
    "Worker.start_driving": "bool", "Worker.wakeup_interval": "real", "Worker.sample_queue_size": "any", "Worker.logger": "any", "Worker.complete": "any", "Worker.cancel": "any",
    "BenchmarkFailure.message": "any", "BenchmarkFailure.cause": "any", "JoinPointReached.worker_id": "any", "JoinPointReached.worker_timestamp": "real", "JoinPointReached.task": "any",
    "UpdateSamples.client_id": "any", "UpdateSamples.samples": "any", "Drive.client_start_timestamp": "real",
}
WK_GHOST = {"$complete": "bool", "$cancel": "bool"}  # the two threading.Event flags shared with the executor thread
WK_EXT = {
    "self.send": dict(event="send"),
    "self.wakeupAfter": dict(event="wakeupAfter"),
    "self.complete.set": dict(ghost_set=("$complete", "True")),
    "self.complete.clear": dict(ghost_set=("$complete", "False")),
    "self.complete.is_set": dict(ghost_get="$complete"),
    "self.cancel.set": dict(ghost_set=("$cancel", "True")),
    "self.cancel.clear": dict(ghost_set=("$cancel", "False")),
    "self.cancel.is_set": dict(ghost_get="$cancel"),
    "self.client_allocations.is_joinpoint": dict(uf="ISJP", returns="bool", pure=True, recv_arg=True),
    "self.client_allocations.tasks": dict(uf="TASKS", returns="list[any]", pure=True, recv_arg=True),
    "self.executor_future.result": dict(event="future.result", outcomes=[dict(returns="any"), dict(raises="Exception")]),
    "self.executor_future.done": dict(returns="bool"),
    "self.executor_future.exception": dict(returns="any"),
    "self.sampler.samples": dict(attr=True, event="drain", returns="list[any]"),
    "Sampler": dict(event="new_sampler", returns="obj[Sampler]"),
    "AsyncIoAdapter": dict(returns="any", ensures=["not isnone(result)"]),
    "self.pool.submit": dict(event="submit", returns="any", ensures=["not isnone(result)"]),
    "time.perf_counter": dict(returns="real"),
    "datetime.timedelta": dict(returns="any"),
}
WK_OPQ = {"ISJP": dict(names=["ca", "i"], args=["any", "int"], ret="bool"), "TASKS": dict(names=["ca", "i"], args=["any", "int"], ret="list[any]")}
IS_JPR = "clsof(eva({q}, 2, 'obj[JoinPointReached]')) == 'cls:JoinPointReached'"

SEND_SAMPLES = dict(
    target="esrally/driver/driver.py::Worker.send_samples",
    prop="C01",
    self_type="obj[Worker]",
    fields=WK,
    ghost_state=WK_GHOST,
    externals=WK_EXT,
    returns="opt[list[any]]",
    ensures=[
        # the queue is drained exactly once and everything drained is shipped in ONE UpdateSamples message (nothing if it was empty)
        "implies(not bool(self.sampler), nev() == 0 and isnone(result))",
        "implies(bool(self.sampler), nev() >= 1 and evk(0) == 'drain' and ref(result) == ref(eva(0, 0, 'list[any]')))",
        "implies(bool(self.sampler) and len(result) > 0, nev() == 2 and evk(1) == 'send' and eva(1, 1, 'any') == self.driver_actor and clsof(eva(1, 2, 'obj[UpdateSamples]')) == 'cls:UpdateSamples' "
        "and ref(eva(1, 2, 'obj[UpdateSamples]').samples) == ref(result))",
        "implies(bool(self.sampler) and len(result) == 0, nev() == 1)",
    ],
    emits=True,
    cover=["return"],
)
W_DRIVE_MSG = dict(
    target="esrally/driver/driver.py::Worker.receiveMsg_Drive",
    prop="C01",
    self_type="obj[Worker]",
    params={"msg": "obj[Drive]", "sender": "any"},
    fields=WK,
    ghost_state=WK_GHOST,
    externals=WK_EXT,
    # a Drive message arms exactly one wake-up and marks that the next wake-up starts the next column
    ensures=["self.start_driving and nev() == 1 and evk(0) == 'wakeupAfter'", "self.current_task_index == old(self.current_task_index) and self.next_task_index == old(self.next_task_index)"],
    cover=["return"],
)
W_COMPLETE = dict(
    target="esrally/driver/driver.py::Worker.receiveMsg_CompleteCurrentTask",
    prop="C01",
    self_type="obj[Worker]",
    params={"msg": "any", "sender": "any"},
    fields=WK,
    ghost_state=WK_GHOST,
    externals=WK_EXT,
    opaque=WK_OPQ,
    ensures=[
        # CompleteCurrentTask only ends tasks of the element the worker is currently executing: at a join point it is ignored
        "implies(ISJP(self.client_allocations, self.current_task_index), $complete == old($complete))",
        "implies(not ISJP(self.client_allocations, self.current_task_index), $complete)",
        "nev() == 0 and $cancel == old($cancel)",
    ],
    cover=["return"],
)
AT_JP_EXIT = "ISJP(self.client_allocations, self.current_task_index)"
W_DRIVE = dict(
    target="esrally/driver/driver.py::Worker.drive",
    prop="C01",
    self_type="obj[Worker]",
    fields=WK,
    ghost_state=WK_GHOST,
    externals=WK_EXT,
    opaque=WK_OPQ,
    requires=["not isnone(self.config)",
              # the allocation matrix is an input: its columns exist before the call
              "forall(lambda c: ref(TASKS(self.client_allocations, c)) < NREF0() and ref(TASKS(self.client_allocations, c)) >= 1)"],
    loops={0: dict(modifies_objs=["self"], only_fields={"self": ["current_task_index", "next_task_index"]}, inv=["self.next_task_index == self.current_task_index + 1 and self.current_task_index >= at('L0', self.current_task_index) and nev() == 0",
                        "ref(task_allocations) == ref(TASKS(self.client_allocations, self.current_task_index))",
                        # the loop only moves the two column indices
                        "self.executor_future == at('L0', self.executor_future) and ref(self.sampler) == ref(at('L0', self.sampler)) and self.client_allocations == at('L0', self.client_allocations) "
                        "and self.driver_actor == at('L0', self.driver_actor) and self.worker_id == at('L0', self.worker_id) and self.config == at('L0', self.config) and $complete == at('L0', $complete) and $cancel == at('L0', $cancel)",
                        "forall(lambda c: implies(at('L0', self.current_task_index) <= c and c < self.current_task_index, len(TASKS(self.client_allocations, c)) == 0))"])},
    ensures=[
        # the worker moves to the NEXT non-empty column, never further
        "self.current_task_index >= old(self.next_task_index) and self.next_task_index == self.current_task_index + 1 and len(TASKS(self.client_allocations, self.current_task_index)) > 0",
        # ... columns passed over are empty, or are task columns skipped because the step was told to complete (completed-by); a join-point column is NEVER passed
        "forall(lambda c: implies(old(self.next_task_index) <= c and c < self.current_task_index, len(TASKS(self.client_allocations, c)) == 0 "
        "or (old($complete) and not ISJP(self.client_allocations, c))))",
        # PROGRESS (a): at a join point the finished executor is joined, the samples are flushed, exactly one JoinPointReached goes to the driver, the task-local flags are reset
        f"implies({AT_JP_EXIT}, nev() >= 1 and evk(nev() - 1) == 'send' and eva(nev() - 1, 1, 'any') == self.driver_actor and {IS_JPR.format(q='nev() - 1')} "
        "and not $complete and not $cancel and isnone(self.executor_future) and isnone(self.sampler) "
        "and forall(lambda q: implies(0 <= q and q < nev() - 1, evk(q) != 'submit' and evk(q) != 'wakeupAfter' and evk(q) != 'new_sampler')))",
        f"implies({AT_JP_EXIT} and not isnone(old(self.executor_future)), evk(0) == 'future.result')",
        f"implies({AT_JP_EXIT} and not isnone(old(self.sampler)), evk(0) == 'drain' or (nev() >= 2 and evk(0) == 'future.result' and evk(1) == 'drain'))",
        # PROGRESS (b): otherwise an executor for this column is submitted AND a wake-up is armed -- 'neither a message nor a pending wake-up' is impossible
        f"implies(not {AT_JP_EXIT}, nev() >= 2 and evk(nev() - 2) == 'submit' and evk(nev() - 1) == 'wakeupAfter' and self.executor_future == eva(nev() - 2, 0, 'any') and not isnone(self.sampler))",
        # the sampler is only replaced after it has been drained (no sample is lost at a task-to-task transition)
        f"implies(not {AT_JP_EXIT} and not isnone(old(self.sampler)), nev() >= 4 and evk(0) == 'drain' and evk(nev() - 3) == 'new_sampler')",
    ],
    raises={"Exception": dict(ensures=["evk(nev() - 1) == 'future.result!'"]), "AssertionError": dict(ensures=["False"])},
    emits=True,
    modifies=["self"],
    only_fields={"self": ["current_task_index", "next_task_index", "executor_future", "sampler"]},
    ghost_modifies=["$complete", "$cancel"],
    cover=["return"],
)
W_FAIL = dict(
    target="esrally/driver/driver.py::Worker.receiveMsg_BenchmarkFailure",
    prop="C01",
    self_type="obj[Worker]",
    params={"msg": "any", "sender": "any"},
    fields=WK,
    ghost_state=WK_GHOST,
    externals=WK_EXT,
    ensures=["nev() == 1 and evk(0) == 'send' and eva(0, 1, 'any') == self.driver_actor and eva(0, 2, 'any') == msg"],
    cover=["return"],
)
CONTRACTS += [SEND_SAMPLES, W_DRIVE_MSG, W_COMPLETE, W_DRIVE, W_FAIL]

# the executor side of completed-by (a client of the completing task runs until its own runner is done; the flag is set when it ends): the
# AsyncExecutor.__call__ contract of C04, claimed here too
from contracts.C04 import CALL as _EXEC_CALL  # noqa: E402

CONTRACTS += [dict(_EXEC_CALL, prop="C01")]
