"""C02 — every task gets exactly its clients; clients are partitioned over workers."""

C, P = "client_count", "clients_per_host"


def base(h):
    return f"base({C}, {P}, {h})"


def k(h):
    return f"({base(f'({h})+1')} - {base(h)})"


def W(h):
    return f"host_configs[{h}]['cores']"


def host_done(h, res, lo):
    wl = f"{res}[{h}]['workers']"
    return (
        f"ref({res}[{h}]) < NREF() and ref({wl}) < NREF() and ref({res}[{h}]) >= {lo} and ref({wl}) >= {lo} and len({wl}) == {W(h)} and "
        f"forall(lambda w: implies(0 <= w and w < len({wl}), ref({wl}[w]) < NREF() and ref({wl}[w]) >= {lo} and len({wl}[w]) == f({k(h)}, {W(h)}, w) and "
        f"forall(lambda j: implies(0 <= j and j < len({wl}[w]), {wl}[w][j] == {base(h)} + S({k(h)}, {W(h)}, w) + j))))"
    )


KK, WW = "clients_on_this_host", "workers_on_this_host"

CWA = dict(
    target="esrally/driver/driver.py::calculate_worker_assignments",
    prop="C02",
    params={"host_configs": "list[rec{host:str,cores:int}]", "client_count": "int"},
    fields={"rec.workers": "list[list[int]]"},
    locals={"assignments": "list[rec{host:str,workers:list[list[int]]}]", "worker_assignment": "list[int]"},
    float="round",
    requires=[
        "len(host_configs) >= 1",
        "len(host_configs) <= 2**20",
        "client_count >= 0",
        "client_count <= 2**40",
        "forall(lambda h: implies(0 <= h and h < len(host_configs), host_configs[h]['cores'] >= 1))",
    ],
    opaque={
        # f(kk, ww, w): clients of worker w when kk clients are dealt round-robin to ww workers
        "f": dict(names=["kk", "ww", "w"], args=["int", "int", "int"], ret="int", body="kk // ww + (1 if w < kk % ww else 0)"),
        # S(kk, ww, w): clients of workers 0..w-1 (prefix sum of f)
        "S": dict(names=["kk", "ww", "w"], args=["int", "int", "int"], ret="int", body="w * (kk // ww) + (w if w < kk % ww else kk % ww)"),
        # base(c, p, h): first client id of host h = min(c, h*p)
        "base": dict(names=["c", "p", "h"], args=["int", "int", "int"], ret="int", body="c if c <= h * p else h * p"),
    },
    lemmas={
        "F0": dict(vars={"ww": "int", "w": "int"}, stmt="implies(ww >= 1 and w >= 0, f(0, ww, w) == 0)"),
        "Fstep": dict(
            vars={"kk": "int", "ww": "int", "w": "int"},
            stmt="implies(ww >= 1 and kk >= 0 and 0 <= w and w < ww, f(kk + 1, ww, w) == f(kk, ww, w) + (1 if w == kk % ww else 0))",
        ),
        "Fnonneg": dict(vars={"kk": "int", "ww": "int", "w": "int"}, stmt="implies(ww >= 1 and kk >= 0 and 0 <= w, f(kk, ww, w) >= 0)"),
        "Fbal": dict(
            vars={"kk": "int", "ww": "int", "w": "int", "w2": "int"},
            stmt="implies(ww >= 1 and kk >= 0 and 0 <= w and w < ww and 0 <= w2 and w2 < ww, f(kk, ww, w) - f(kk, ww, w2) <= 1)",
        ),
        "S0": dict(vars={"kk": "int", "ww": "int"}, stmt="implies(ww >= 1, S(kk, ww, 0) == 0)"),
        "Sstep": dict(
            vars={"kk": "int", "ww": "int", "w": "int"},
            stmt="implies(ww >= 1 and kk >= 0 and 0 <= w and w < ww, S(kk, ww, w + 1) == S(kk, ww, w) + f(kk, ww, w))",
        ),
        "Send": dict(vars={"kk": "int", "ww": "int"}, stmt="implies(ww >= 1 and kk >= 0, S(kk, ww, ww) == kk)"),
        "B0": dict(vars={"c": "int", "p": "int"}, stmt="implies(c >= 0 and p >= 0, base(c, p, 0) == 0)"),
        "Bstep": dict(
            vars={"c": "int", "p": "int", "h": "int"},
            stmt="implies(c >= 0 and p >= 0 and h >= 0, base(c, p, h + 1) == base(c, p, h) + (p if p <= c - base(c, p, h) else c - base(c, p, h)) and base(c, p, h) <= c)",
        ),
        "Bend": dict(vars={"c": "int", "p": "int", "H": "int"}, stmt="implies(p * H >= c and c >= 0, base(c, p, H) == c)"),
    },
    use=[
        ("L1", "F0", {"ww": WW, "w": "w"}),
        ("L1", "Fstep", {"kk": "_i1", "ww": WW, "w": "w"}),
        ("L2", "S0", {"kk": KK, "ww": WW}),
        ("L2", "Sstep", {"kk": KK, "ww": WW, "w": "_i2"}),
        ("L2", "Fnonneg", {"kk": KK, "ww": WW, "w": "_i2"}),
        ("L0", "Send", {"kk": KK, "ww": WW}),
        ("", "B0", {"c": C, "p": P}),
        ("", "Bstep", {"c": C, "p": P, "h": "_i0"}),
        ("", "Bend", {"c": C, "p": P, "H": "len(host_configs)"}),
    ],
    loops={
        0: dict(
            modifies_objs=["assignments"],
            inv=[
                f"{P} >= 0 and {P} * len(host_configs) >= {C}",
                f"client_idx == {base('_i')}",
                "remaining_clients == client_count - client_idx",
                "len(assignments) == _i",
                "forall(lambda h: implies(0 <= h and h < _i, " + host_done("h", "assignments", "_nentry0") + "))",
            ],
        ),
        1: dict(
            modifies_objs=["clients_per_worker"],
            inv=[
                f"len(clients_per_worker) == {WW}",
                f"forall(lambda w: implies(0 <= w and w < {WW}, clients_per_worker[w] == f(_i, {WW}, w)))",
            ],
        ),
        2: dict(
            modifies_objs=["assignment['workers']"],
            inv=[
                "len(assignment['workers']) == _i",
                f"client_idx == at('L2', client_idx) + S({KK}, {WW}, _i)",
                "forall(lambda w: implies(0 <= w and w < _i, ref(assignment['workers'][w]) < NREF() and ref(assignment['workers'][w]) >= _nentry2 and "
                f"len(assignment['workers'][w]) == f({KK}, {WW}, w) and "
                "forall(lambda j: implies(0 <= j and j < len(assignment['workers'][w]), assignment['workers'][w][j] == at('L2', client_idx) + "
                f"S({KK}, {WW}, w) + j))))",
            ],
        ),
        3: dict(
            modifies_objs=["worker_assignment"],
            inv=[
                "len(worker_assignment) == _i - _lo3",
                "forall(lambda j: implies(0 <= j and j < _i - _lo3, worker_assignment[j] == _lo3 + j))",
            ],
        ),
    },
    ensures=[
        # one entry per host, in order; at most one worker per core (exactly `cores` worker slots)
        "len(result) == len(host_configs)",
        # worker w of host h holds exactly the contiguous ids base(h)+S(w) .. base(h)+S(w+1)-1: no loss, no duplicate
        "forall(lambda h: implies(0 <= h and h < len(host_configs), " + host_done("h", "result", "NREF0()") + "))",
        # the ranges tile [0, client_count)
        f"{base('len(host_configs)')} == client_count",
    ],
    cover=["return"],
)

from contracts.C02_alloc import ALLOC_CONTRACTS  # noqa: E402

CONTRACTS = [CWA] + ALLOC_CONTRACTS
ASSUMPTIONS = [
    "ceil(client_count / host_count) evaluated under the float rounding model fl(x)=x(1+d), |d|<=2^-53 (client_count <= 2^40, hosts <= 2^20)",
    "Allocator: x.clients of a schedule element / leaf task is a pure function CL(x) >= 0 while the matrix is built; Task.__iter__ / Parallel.__iter__ are `return iter(<list>)` (checked syntactically on every run); "
    "loops of Allocator.allocations may modify any object created by the call (modifies_fresh) and nothing older",
]
NOT_DECIDED = []
TRUSTED = []
NOT_DECIDED += [
    "Allocator: that every (leaf task, client index) is allocated EXACTLY once is proved per allocation (index = loop index - start, within 0..clients-1, "
    "loop runs over the task's whole range) but not as a statement over the finished matrix; join_points / tasks_per_joinpoint are covered by the bounded stand-in only",
]


def extra_checks(runner, ev):
    """BOUNDED stand-in (never counted as proved): the finished allocation matrix of the real Allocator for 1350 small schedules."""
    from pyvc.run import bounded_check

    return bounded_check(ev, "C02", "C02_allocator.py", "Allocator.allocations / join_points / tasks_per_joinpoint vs the property wording (real code)",
                         "esrally/driver/driver.py::Allocator.allocations")

