"""C02 (second part) — Allocator: the allocation matrix. Imported by contracts/C02.py."""

ALLOC_FIELDS = {
    "Allocator.schedule": "list[obj[Task|Parallel]]",
    "Parallel.tasks": "list[obj[Task]]",
    "Task.completes_parent": "bool",
    "Task.any_completes_parent": "bool",
    "TaskAllocation.task": "obj[Task]",
    "TaskAllocation.client_index_in_task": "int",
    "TaskAllocation.global_client_index": "int",
    "TaskAllocation.total_clients": "int",
    "JoinPoint.id": "int",
    "JoinPoint.any_task_completes_parent": "list[int]",
    "JoinPoint.clients_executing_completing_task": "list[int]",
    "JoinPoint.num_clients_executing_completing_task": "int",
    "JoinPoint.preceding_task_completes_parent": "bool",
}
# x.clients of a schedule element / leaf task: a pure function CL(x) of the object while the matrix is built (Task: the attribute; Parallel: the
# explicit client count or the sum over its tasks -- Parallel.clients is under its own contract)
CL = dict(attr=True, recv_arg=True, pure=True, uf="CL", returns="int", ensures=["result >= 0"])
ALLOC_OPAQUE = {
    "CL": dict(names=["x"], args=["any"], ret="int"),
    # f(kk, ww, w): entries of row w when kk entries are dealt round-robin to ww rows
    "f": dict(names=["kk", "ww", "w"], args=["int", "int", "int"], ret="int", body="kk // ww + (1 if w < kk % ww else 0)"),
}
ALLOC_LEMMAS = {
    "F0": dict(vars={"ww": "int", "w": "int"}, stmt="implies(ww >= 1 and w >= 0, f(0, ww, w) == 0)"),
    "Fstep": dict(
        vars={"kk": "int", "ww": "int", "w": "int"},
        stmt="implies(ww >= 1 and kk >= 0 and 0 <= w and w < ww, f(kk + 1, ww, w) == f(kk, ww, w) + (1 if w == kk % ww else 0))",
    ),
    "Fend": dict(
        vars={"kk": "int", "ww": "int", "w": "int"},
        stmt="implies(ww >= 1 and kk >= 0 and 0 <= w and w < ww, f(kk, ww, w) == kk // ww + (1 if w < kk % ww else 0) and 0 <= kk % ww and kk % ww < ww)",
    ),
}

CLIENTS = dict(
    target="esrally/driver/driver.py::Allocator.clients",
    prop="C02",
    self_type="obj[Allocator]",
    params={},
    fields=ALLOC_FIELDS,
    modules=["esrally/track/track.py"],
    opaque=ALLOC_OPAQUE,
    externals={"task.clients": CL},
    loops={
        0: dict(
            inv=[
                "max_clients >= 1",
                "forall(lambda j: implies(0 <= j and j < _i, CL(self.schedule[j]) <= max_clients))",
                "max_clients == 1 or exists(lambda j: 0 <= j and j < _i and max_clients == CL(self.schedule[j]))",
            ]
        )
    },
    returns="int",
    ensures=[
        # the matrix has one row per client of the widest schedule element (at least one)
        "result >= 1",
        "forall(lambda j: implies(0 <= j and j < len(self.schedule), CL(self.schedule[j]) <= result))",
        "result == 1 or exists(lambda j: 0 <= j and j < len(self.schedule) and result == CL(self.schedule[j]))",
    ],
    cover=["return"],
)

ALLOC_CONTRACTS = [CLIENTS]
