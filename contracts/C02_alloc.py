"""C02 (second part) — Allocator: the allocation matrix. Imported by contracts/C02.py."""

ALLOC_FIELDS = {
    "Allocator.schedule": "list[obj[Task|Parallel]]",
    "Parallel.tasks": "list[obj[Task]]",
    "Task.completes_parent": "bool",
    "Task.any_completes_parent": "bool",
    "TaskAllocation.task": "obj[Task]",
    "TaskAllocation.client_index_in_task": "int",
    "TaskAllocation.global_client_index": "int",
    "TaskAllocation.total_clients": "int",
    "JoinPoint.id": "int",
    "JoinPoint.any_task_completes_parent": "list[int]",
    "JoinPoint.clients_executing_completing_task": "list[int]",
    "JoinPoint.num_clients_executing_completing_task": "int",
    "JoinPoint.preceding_task_completes_parent": "bool",
}
# x.clients of a schedule element / leaf task: a pure function CL(x) of the object while the matrix is built (Task: the attribute; Parallel: the
# explicit client count or the sum over its tasks -- Parallel.clients is under its own contract)
CL = dict(attr=True, recv_arg=True, pure=True, uf="CL", returns="int", ensures=["result >= 0"])
ALLOC_OPAQUE = {
    "CL": dict(names=["x"], args=["any"], ret="int"),
    # f(kk, ww, w): entries of row w when kk entries are dealt round-robin to ww rows
    "f": dict(names=["kk", "ww", "w"], args=["int", "int", "int"], ret="int", body="kk // ww + (1 if w < kk % ww else 0)"),
}
ALLOC_LEMMAS = {
    "F0": dict(vars={"ww": "int", "w": "int"}, stmt="implies(ww >= 1 and w >= 0, f(0, ww, w) == 0)"),
    "Fstep": dict(
        vars={"kk": "int", "ww": "int", "w": "int"},
        stmt="implies(ww >= 1 and kk >= 0 and 0 <= w and w < ww, f(kk + 1, ww, w) == f(kk, ww, w) + (1 if w == kk % ww else 0))",
    ),
    "Fend": dict(
        vars={"kk": "int", "ww": "int", "w": "int"},
        stmt="implies(ww >= 1 and kk >= 0 and 0 <= w and w < ww, f(kk, ww, w) == kk // ww + (1 if w < kk % ww else 0) and 0 <= kk % ww and kk % ww < ww)",
    ),
}

CLIENTS = dict(
    target="esrally/driver/driver.py::Allocator.clients",
    prop="C02",
    self_type="obj[Allocator]",
    params={},
    fields=ALLOC_FIELDS,
    modules=["esrally/track/track.py"],
    opaque=ALLOC_OPAQUE,
    externals={"task.clients": CL},
    loops={
        0: dict(
            inv=[
                "max_clients >= 1",
                "forall(lambda j: implies(0 <= j and j < _i, CL(self.schedule[j]) <= max_clients))",
                "max_clients == 1 or exists(lambda j: 0 <= j and j < _i and max_clients == CL(self.schedule[j]))",
            ]
        )
    },
    returns="int",
    ensures=[
        # the matrix has one row per client of the widest schedule element (at least one)
        "result >= 1",
        "forall(lambda j: implies(0 <= j and j < len(self.schedule), CL(self.schedule[j]) <= result))",
        "result == 1 or exists(lambda j: 0 <= j and j < len(self.schedule) and result == CL(self.schedule[j]))",
    ],
    cover=["return"],
)

N = "len(allocations)"
# rows are distinct lists created by this call (before the schedule loop)
ROWS_FRESH = (
    f"forall(lambda r: implies(0 <= r and r < {N}, ref(allocations[r]) >= NREF0() and ref(allocations[r]) < NREF())) and "
    f"forall(lambda r, q: implies(0 <= r and r < q and q < {N}, ref(allocations[r]) != ref(allocations[q])))"
)
BASE = [f"{N} == max_clients and max_clients >= 1", ROWS_FRESH]
IN_ELEMENT = BASE + [
    "forall(lambda r: implies(0 <= r and r < max_clients, ref(allocations[r]) < _nentry2))",
    "ref(clients_executing_completing_task) >= _nentry2 and ref(any_task_completes_parent) >= _nentry2 and ref(clients_executing_completing_task) != ref(any_task_completes_parent)",
    "join_point_id == _i2 + 1",
]
L0_ = "at('L3', len(allocations[0]))"  # row length when the schedule element starts


def rows_after(c):
    """row lengths after c entries of this element were dealt round-robin"""
    return f"forall(lambda r: implies(0 <= r and r < max_clients, len(allocations[r]) == {L0_} + ({c}) // max_clients + (1 if r < ({c}) % max_clients else 0)))"


ALLOCATIONS = dict(
    target="esrally/driver/driver.py::Allocator.allocations",
    prop="C02",
    self_type="obj[Allocator]",
    params={},
    fields=ALLOC_FIELDS,
    modules=["esrally/track/track.py"],
    opaque={"CL": ALLOC_OPAQUE["CL"]},
    lemmas={
        "DM": dict(
            vars={"c": "int", "m": "int"},
            stmt="implies(c >= 0 and m >= 1, 0 <= c % m and c % m < m and ((c + 1) % m == c % m + 1 and (c + 1) // m == c // m if c % m + 1 < m else (c + 1) % m == 0 and (c + 1) // m == c // m + 1))",
        ),
    },
    use=[("L4", "DM", {"c": "_i4", "m": "max_clients"})],
    externals={"task.clients": CL, "sub_task.clients": CL},
    locals={"allocations": "list[opt[list[any]]]", "clients_executing_completing_task": "list[int]", "any_task_completes_parent": "list[int]"},
    loops={
        0: dict(modifies_objs=["allocations"], inv=[f"{N} == max_clients", "forall(lambda r: implies(0 <= r and r < _i, ref(allocations[r]) >= NREF0() and ref(allocations[r]) < NREF() and len(allocations[r]) == 0))",
                                                    "forall(lambda r, q: implies(0 <= r and r < q and q < _i, ref(allocations[r]) != ref(allocations[q])))"]),
        1: dict(modifies_fresh=True, inv=BASE + [
            "forall(lambda r: implies(0 <= r and r < max_clients, len(allocations[r]) == (1 if r < _i else 0)))",
            "forall(lambda r: implies(0 <= r and r < _i, allocations[r][0] == next_join_point))",
            "ref(next_join_point) >= NREF0() and next_join_point.id == 0"]),
        2: dict(modifies_fresh=True, inv=BASE + [
            "forall(lambda r: implies(0 <= r and r < max_clients, len(allocations[r]) == len(allocations[0]))) and len(allocations[0]) >= 1",
            "forall(lambda r: implies(0 <= r and r < max_clients, allocations[r][len(allocations[0]) - 1] == next_join_point))",
            "join_point_id == _i + 1 and ref(next_join_point) >= NREF0() and next_join_point.id == _i"]),
        3: dict(modifies_fresh=True, inv=IN_ELEMENT + ["start_client_index >= 0", rows_after("start_client_index")]),
        4: dict(modifies_fresh=True, inv=IN_ELEMENT + ["_i >= 0", rows_after("_i")]),
        5: dict(modifies_fresh=True, inv=IN_ELEMENT + [
            "forall(lambda r: implies(0 <= r and r < max_clients, len(allocations[r]) == at('L5', len(allocations[0])) - (0 if r < _i else 1)))"]),
        6: dict(modifies_fresh=True, inv=BASE + [
            "forall(lambda r: implies(0 <= r and r < max_clients, len(allocations[r]) == at('L6', len(allocations[0])) + (1 if r < _i else 0)))",
            "forall(lambda r: implies(0 <= r and r < _i, allocations[r][at('L6', len(allocations[0]))] == next_join_point))",
            "join_point_id == _i2 + 1 and ref(next_join_point) >= NREF0() and next_join_point.id == join_point_id"]),
    },
    returns="list[list[any]]",
    ensures=[
        # one row per client; the matrix is rectangular; every row ends with the same final join point, whose id is the number of schedule elements
        "len(result) >= 1",
        "forall(lambda r: implies(0 <= r and r < len(result), len(result[r]) == len(result[0])))",
    ],
    cover=["return"],
)
import os  # noqa: E402

ALLOC_CONTRACTS = [CLIENTS] + ([ALLOCATIONS] if os.environ.get("VERIF_WIP") else [])  # allocations: work in progress, not claimed yet
