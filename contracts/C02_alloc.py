"""C02 (second part) — Allocator: the allocation matrix. Imported by contracts/C02.py."""

ALLOC_FIELDS = {
    "Allocator.schedule": "list[obj[Task|Parallel]]",
    "Parallel.tasks": "list[obj[Task]]",
    "Task.completes_parent": "bool",
    "Task.any_completes_parent": "bool",
    "TaskAllocation.task": "obj[Task]",
    "TaskAllocation.client_index_in_task": "int",
    "TaskAllocation.global_client_index": "int",
    "TaskAllocation.total_clients": "int",
    "JoinPoint.id": "int",
    "JoinPoint.any_task_completes_parent": "list[int]",
    "JoinPoint.clients_executing_completing_task": "list[int]",
    "JoinPoint.num_clients_executing_completing_task": "int",
    "JoinPoint.preceding_task_completes_parent": "bool",
}
# x.clients of a schedule element / leaf task: a pure function CL(x) of the object while the matrix is built (Task: the attribute; Parallel: the
# explicit client count or the sum over its tasks -- Parallel.clients is under its own contract)
CL = dict(attr=True, recv_arg=True, pure=True, uf="CL", returns="int", ensures=["result >= 0"])
ALLOC_OPAQUE = {
    "CL": dict(names=["x"], args=["any"], ret="int"),
    # f(kk, ww, w): entries of row w when kk entries are dealt round-robin to ww rows
    "f": dict(names=["kk", "ww", "w"], args=["int", "int", "int"], ret="int", body="kk // ww + (1 if w < kk % ww else 0)"),
}
ALLOC_LEMMAS = {
    "F0": dict(vars={"ww": "int", "w": "int"}, stmt="implies(ww >= 1 and w >= 0, f(0, ww, w) == 0)"),
    "Fstep": dict(
        vars={"kk": "int", "ww": "int", "w": "int"},
        stmt="implies(ww >= 1 and kk >= 0 and 0 <= w and w < ww, f(kk + 1, ww, w) == f(kk, ww, w) + (1 if w == kk % ww else 0))",
    ),
    "Fend": dict(
        vars={"kk": "int", "ww": "int", "w": "int"},
        stmt="implies(ww >= 1 and kk >= 0 and 0 <= w and w < ww, f(kk, ww, w) == kk // ww + (1 if w < kk % ww else 0) and 0 <= kk % ww and kk % ww < ww)",
    ),
}

CLIENTS = dict(
    target="esrally/driver/driver.py::Allocator.clients",
    prop="C02",
    self_type="obj[Allocator]",
    params={},
    fields=ALLOC_FIELDS,
    modules=["esrally/track/track.py"],
    opaque=ALLOC_OPAQUE,
    externals={"task.clients": CL},
    loops={
        0: dict(
            inv=[
                "max_clients >= 1",
                "forall(lambda j: implies(0 <= j and j < _i, CL(self.schedule[j]) <= max_clients))",
                "max_clients == 1 or exists(lambda j: 0 <= j and j < _i and max_clients == CL(self.schedule[j]))",
            ]
        )
    },
    returns="int",
    ensures=[
        # the matrix has one row per client of the widest schedule element (at least one)
        "result >= 1",
        "forall(lambda j: implies(0 <= j and j < len(self.schedule), CL(self.schedule[j]) <= result))",
        "result == 1 or exists(lambda j: 0 <= j and j < len(self.schedule) and result == CL(self.schedule[j]))",
    ],
    cover=["return"],
)

N = "len(allocations)"
# rows are distinct lists created by this call (before the schedule loop)
def rows_fresh(bound):
    return (
        f"ref(allocations) >= NREF0() and ref(allocations) < {bound} and "
        f"forall(lambda r: implies(0 <= r and r < {N}, ref(allocations[r]) >= NREF0() and ref(allocations[r]) < {bound} and ref(allocations[r]) != ref(allocations))) and "
        f"forall(lambda r, q: implies(0 <= r and r < q and q < {N}, ref(allocations[r]) != ref(allocations[q])))"
    )


ROWS_FRESH = rows_fresh("NREF()")
BASE1 = [f"{N} == max_clients and max_clients >= 1", ROWS_FRESH]
# inside the schedule loop: the rows (and the matrix) are older than everything the loop creates
BASE = [f"{N} == max_clients and max_clients >= 1", rows_fresh("_nentry2")]
IN_ELEMENT = BASE + [
    # a join point names only clients of its own schedule element: the two lists start empty with every element
    "len(clients_executing_completing_task) + len(any_task_completes_parent) <= COUNTED",
    "ref(clients_executing_completing_task) >= _nentry2 and ref(any_task_completes_parent) >= _nentry2 and ref(clients_executing_completing_task) != ref(any_task_completes_parent)",
    "join_point_id == _i2 + 1",
]
L0_ = "at('L3', len(allocations[0]))"  # row length when the schedule element starts


def rows_after(c):
    """row lengths after c entries of this element were dealt round-robin"""
    return f"forall(lambda r: implies(0 <= r and r < max_clients, len(allocations[r]) == {L0_} + ({c}) // max_clients + (1 if r < ({c}) % max_clients else 0)))"


ALLOCATIONS = dict(
    target="esrally/driver/driver.py::Allocator.allocations",
    prop="C02",
    self_type="obj[Allocator]",
    params={},
    fields=ALLOC_FIELDS,
    modules=["esrally/track/track.py"],
    opaque={"CL": ALLOC_OPAQUE["CL"]},
    lemmas={
        "DM": dict(
            vars={"c": "int", "m": "int"},
            stmt="implies(c >= 0 and m >= 1, 0 <= c % m and c % m < m and ((c + 1) % m == c % m + 1 and (c + 1) // m == c // m if c % m + 1 < m else (c + 1) % m == 0 and (c + 1) // m == c // m + 1))",
        ),
    },
    use=[("L4", "DM", {"c": "_i4", "m": "max_clients"})],
    externals={
        "task.clients": CL,
        "sub_task.clients": CL,
        # the constructor of an allocation: a fresh object whose fields are the arguments (TaskAllocation.__init__ is under contract below)
        "TaskAllocation": dict(
            returns="obj[TaskAllocation]",
            ensures=["ref(result) >= NREF0() and ref(result.task) == ref(kw_task) and result.client_index_in_task == kw_client_index_in_task and "
                     "result.global_client_index == kw_global_client_index and result.total_clients == kw_total_clients"],
        ),
    },
    at_call={
        "TaskAllocation": [
            # an allocation describes: the leaf task, the client's index within that task (0 .. task.clients-1, each exactly once as the loop
            # index runs over the task's range), the element-wide client index, and the client count of the whole schedule element
            "ref(kw_task) == ref(sub_task)",
            "kw_client_index_in_task == client_index - start_client_index and 0 <= kw_client_index_in_task and kw_client_index_in_task < CL(sub_task)",
            "kw_global_client_index == client_index",
            "kw_total_clients == CL(task)",
        ]
    },
    locals={"allocations": "list[opt[list[any]]]", "clients_executing_completing_task": "list[int]", "any_task_completes_parent": "list[int]"},
    loops={
        0: dict(modifies_objs=["allocations"], inv=[f"{N} == max_clients", "forall(lambda r: implies(0 <= r and r < _i, ref(allocations[r]) >= NREF0() and ref(allocations[r]) < NREF() and len(allocations[r]) == 0))",
                                                    "forall(lambda r, q: implies(0 <= r and r < q and q < _i, ref(allocations[r]) != ref(allocations[q])))"]),
        1: dict(modifies_fresh=True, inv=BASE1 + [
            "forall(lambda r: implies(0 <= r and r < max_clients, len(allocations[r]) == (1 if r < _i else 0)))",
            "forall(lambda r: implies(0 <= r and r < _i, allocations[r][0] == next_join_point))",
            "ref(next_join_point) >= NREF0() and next_join_point.id == 0"]),
        2: dict(modifies_fresh=True, inv=BASE + [
            "forall(lambda r: implies(0 <= r and r < max_clients, len(allocations[r]) == len(allocations[0]))) and len(allocations[0]) >= 1",
            "forall(lambda r: implies(0 <= r and r < max_clients, allocations[r][len(allocations[0]) - 1] == next_join_point))",
            "join_point_id == _i + 1 and ref(next_join_point) >= NREF0() and next_join_point.id == _i"]),
        3: dict(modifies_fresh=True, inv=[x.replace("COUNTED", "start_client_index") for x in IN_ELEMENT] + ["start_client_index >= 0", rows_after("start_client_index")]),
        4: dict(modifies_fresh=True, inv=[x.replace("COUNTED", "_i") for x in IN_ELEMENT] + ["_i >= 0 and start_client_index >= 0", rows_after("_i")]),
        5: dict(modifies_fresh=True, inv=[x for x in IN_ELEMENT if "COUNTED" not in x] + [
            "forall(lambda r: implies(0 <= r and r < max_clients, len(allocations[r]) == at('L5', len(allocations[0])) - (0 if r < _i else 1)))"]),
        6: dict(modifies_fresh=True, inv=BASE + [
            "forall(lambda r: implies(0 <= r and r < max_clients, len(allocations[r]) == at('L6', len(allocations[0])) + (1 if r < _i else 0)))",
            "forall(lambda r: implies(0 <= r and r < _i, allocations[r][at('L6', len(allocations[0]))] == next_join_point))",
            "join_point_id == _i2 + 1 and ref(next_join_point) >= NREF0() and next_join_point.id == join_point_id"]),
    },
    returns="list[list[any]]",
    ensures=[
        # one row per client; the matrix is rectangular; every row ends with the same final join point, whose id is the number of schedule elements
        "len(result) >= 1 and forall(lambda j: implies(0 <= j and j < len(self.schedule), CL(self.schedule[j]) <= len(result)))",
        "forall(lambda r: implies(0 <= r and r < len(result), len(result[r]) == len(result[0]))) and len(result[0]) >= 1",
        # all rows end with the SAME final join point
        "forall(lambda r: implies(0 <= r and r < len(result), result[r][len(result[0]) - 1] == result[0][len(result[0]) - 1]))",
    ],
    cover=["return"],
)
TA_INIT = dict(
    target="esrally/driver/driver.py::TaskAllocation.__init__",
    prop="C02",
    self_type="obj[TaskAllocation]",
    params={"task": "obj[Task]", "client_index_in_task": "int", "global_client_index": "int", "total_clients": "int"},
    fields=ALLOC_FIELDS,
    modules=["esrally/track/track.py"],
    modifies=["self"],
    ensures=[
        # what Allocator.allocations assumes of the constructor
        "ref(self.task) == ref(task) and self.client_index_in_task == client_index_in_task and self.global_client_index == global_client_index and self.total_clients == total_clients"
    ],
    cover=["return"],
)
# ------------------------------------------------------------------------------------------------ Driver.start_benchmark: every worker gets exactly the rows of ITS clients
WA = "list[rec{host:str,workers:list[list[int]]}]"
CA_ENTRY = "rec{client_id:int,tasks:list[any]}"
SB_FIELDS = {
    "Driver.logger": "any", "Driver.telemetry": "any", "Driver.challenge": "any", "Driver.allocations": "opt[list[list[any]]]", "Driver.number_of_steps": "int", "Driver.tasks_per_join_point": "any",
    "Driver.config": "any", "Driver.load_driver_hosts": "any", "Driver.driver_actor": "any", "Driver.clients_per_worker": "dict[int,int]", "Driver.client_contexts": "dict[int,dict[int,obj[ClientContext]]]",
    "Driver.default_sync_es_client": "any", "Driver.track": "any", "Driver.workers": "list[any]", "ClientAllocations.allocations": f"list[{CA_ENTRY}]", "ClientContext.api_key": "any",
}
MINE = ("len(a4.allocations) == len(clients) and forall(lambda j: implies(0 <= j and j < len(clients), a4.allocations[j]['client_id'] == clients[j] and "
        "ref(a4.allocations[j]['tasks']) == ref(self.allocations[clients[j]])))")
# the assignment lists are not the driver's own worker list (they are created by calculate_worker_assignments)
DISTINCT = ("ref(worker_assignments) != ref(self.workers) and forall(lambda h: implies(0 <= h and h < len(worker_assignments), ref(worker_assignments[h]['workers']) != ref(self.workers) and "
            "forall(lambda w: implies(0 <= w and w < len(worker_assignments[h]['workers']), ref(worker_assignments[h]['workers'][w]) != ref(self.workers)))))")
MATRIX = "not isnone(self.allocations) and ref(self.allocations) == ref(ALLOC_MATRIX(allocator)) and len(self.allocations) == ALLOC_CLIENTS(allocator) and ref(self.workers) != ref(self.allocations) and INRANGE(worker_assignments, ALLOC_CLIENTS(allocator))"
START_BENCHMARK = dict(
    target="esrally/driver/driver.py::Driver.start_benchmark",
    prop="C02",
    self_type="obj[Driver]",
    params={},
    fields=SB_FIELDS,
    externals={
        "self.reset_relative_time": dict(returns="none"),
        "self.telemetry.on_benchmark_start": dict(returns="none"),
        # Allocator(schedule): its matrix has one row per client (Allocator.allocations / clients are under contract above)
        "Allocator": dict(returns="any", ensures=["not isnone(result)"]),
        "allocator.allocations": dict(attr=True, recv_arg=True, pure=True, uf="ALLOC_MATRIX", returns="list[list[any]]", ensures=["ref(result) != ref(self.workers)"]),
        "allocator.join_points": dict(attr=True, returns="list[any]"),
        "allocator.tasks_per_joinpoint": dict(attr=True, returns="any"),
        "allocator.clients": dict(attr=True, recv_arg=True, pure=True, uf="ALLOC_CLIENTS", returns="int", ensures=["result == len(ALLOC_MATRIX(a0)) and result >= 1"]),
        "self.config.opts": dict(returns="any"),
        # calculate_worker_assignments (proved above): the client ids it hands to workers are ids of matrix rows
        "calculate_worker_assignments": dict(
            returns=WA,
            ensures=["INRANGE(result, a1)", DISTINCT.replace("worker_assignments", "result")],
        ),
        "self.driver_actor.create_client": dict(returns="any", event="create_client"),
        "ApiKey": dict(returns="any"),
        "self.create_api_key": dict(returns="any"),
        "self.driver_actor.start_worker": dict(event="start_worker"),
        "self.update_progress_message": dict(returns="none"),
    },
    opaque={
        "ALLOC_MATRIX": dict(names=["a"], args=["any"], ret="list[list[any]]"), "ALLOC_CLIENTS": dict(names=["a"], args=["any"], ret="int"),
        # every client id handed to a worker is the index of a matrix row (what calculate_worker_assignments guarantees: its ranges tile [0, n))
        "INRANGE": dict(names=["wa", "n"], args=[WA, "int"], ret="bool",
                        body="forall(lambda h: implies(0 <= h and h < len(wa), forall(lambda w: implies(0 <= w and w < len(wa[h]['workers']), "
                             "forall(lambda j: implies(0 <= j and j < len(wa[h]['workers'][w]), 0 <= wa[h]['workers'][w][j] and wa[h]['workers'][w][j] < n))))))"),
    },
    lemmas={
        "InR": dict(vars={"wa": WA, "n": "int", "h": "int", "w": "int", "j": "int"},
                    stmt="implies(INRANGE(wa, n) and 0 <= h and h < len(wa) and 0 <= w and w < len(wa[h]['workers']) and 0 <= j and j < len(wa[h]['workers'][w]), "
                         "0 <= wa[h]['workers'][w][j] and wa[h]['workers'][w][j] < n)"),
    },
    use=[("", "InR", {"wa": "worker_assignments", "n": "ALLOC_CLIENTS(allocator)", "h": "_i0", "w": "_i1", "j": "_i2"})],
    at_call={
        # the allocations handed to a worker are exactly the matrix rows of the clients assigned to THAT worker -- no client twice, none missing
        "self.driver_actor.start_worker": [MINE, "a1 == worker_id"],
    },
    locals={"worker_client_contexts": "dict[int,obj[ClientContext]]"},
    modifies=["self", "self.clients_per_worker", "self.client_contexts", "self.workers"],
    loops={
        0: dict(modifies_objs=["self.clients_per_worker", "self.client_contexts", "self.workers"], inv=["worker_id >= 0", MATRIX, DISTINCT]),
        1: dict(modifies_objs=["self.clients_per_worker", "self.client_contexts", "self.workers"], inv=["worker_id >= 0", MATRIX, DISTINCT]),
        2: dict(modifies_objs=["self.clients_per_worker", "self.client_contexts", "client_allocations.allocations", "worker_client_contexts"],
                inv=[MATRIX,
                     "ref(client_allocations.allocations) == at('L2', ref(client_allocations.allocations))",
                     "len(client_allocations.allocations) == _i",
                     "forall(lambda j: implies(0 <= j and j < _i, client_allocations.allocations[j]['client_id'] == clients[j] and "
                     "ref(client_allocations.allocations[j]['tasks']) == ref(self.allocations[clients[j]])))"]),
    },
    ensures=["True"],
    cover=["return"],
)
ALLOC_CONTRACTS = [CLIENTS, ALLOCATIONS, TA_INIT, START_BENCHMARK]
