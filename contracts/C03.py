"""C03 — bulk indexing ingests every corpus document exactly once across clients (slice arithmetic and its consequences)."""

RNG = "0 <= t and t <= 10**12 and 1 <= n and n <= 2**20"
R_MACRO = {"R": dict(names=["t", "n", "i"], body="rnd(fl(fl(real(t) / real(n)) * real(i)))")}

BOUNDS = dict(
    target="esrally/track/params.py::bounds",
    prop="C03",
    params={
        "total_docs": "int",
        "start_client_index": "int",
        "end_client_index": "int",
        "num_clients": "int",
        "includes_action_and_meta_data": "bool",
    },
    float="round",
    requires=[
        "0 <= total_docs and total_docs <= 10**12",
        "1 <= num_clients and num_clients <= 2**20",
        "0 <= start_client_index and start_client_index <= end_client_index and end_client_index < num_clients",
    ],
    macros=R_MACRO,
    ensures=[
        # the slice of clients [start, end] is [R(start), R(end+1)) in documents, R(i) = round(fl(fl(total/num) * i))
        "result[0] == (2 if includes_action_and_meta_data else 1) * R(total_docs, num_clients, start_client_index)",
        "result[1] == R(total_docs, num_clients, end_client_index + 1) - R(total_docs, num_clients, start_client_index)",
        "result[2] == (2 if includes_action_and_meta_data else 1) * result[1]",
    ],
    lemmas={
        # L-cover: the slice boundaries R(0..n) start at 0, end at total and never decrease; hence for ANY split of the clients
        # 0..n-1 into consecutive ranges the slices are pairwise disjoint, contiguous in file order and cover [0,total).
        "R_zero": dict(vars={"t": "int", "n": "int"}, stmt=f"implies({RNG}, R(t, n, 0) == 0)"),
        "R_total": dict(vars={"t": "int", "n": "int"}, stmt=f"implies({RNG}, R(t, n, n) == t)"),
        "R_mono": dict(vars={"t": "int", "n": "int", "i": "int", "j": "int"}, stmt=f"implies({RNG} and 0 <= i and i <= j, R(t, n, i) <= R(t, n, j))"),
        "R_range": dict(
            vars={"t": "int", "n": "int", "i": "int"},
            stmt=f"implies({RNG} and 0 <= i and i <= n, 0 <= R(t, n, i) and R(t, n, i) <= t)",
            using=["R_zero", "R_total", "R_mono"],
        ),
        # adjacent ranges [s,e] and [e+1,e2]: the second starts exactly where the first ends (no gap, no overlap)
        "adjacent": dict(
            vars={"t": "int", "n": "int", "s": "int", "e": "int", "e2": "int"},
            stmt=f"implies({RNG} and 0 <= s and s <= e and e < e2 and e2 < n, "
            "R(t, n, s) + (R(t, n, e + 1) - R(t, n, s)) == R(t, n, e + 1) and (R(t, n, e + 1) - R(t, n, s)) + (R(t, n, e2 + 1) - R(t, n, e + 1)) == R(t, n, e2 + 1) - R(t, n, s)"
            " and R(t, n, e + 1) - R(t, n, s) >= 0)",
        ),
    },
    cover=["return"],
)

CONTRACTS = [BOUNDS]
ASSUMPTIONS = [
    "float rounding model for bounds(): fl(x)=x(1+d), |d|<=2^-53, monotone, exact on integers up to 2^53; round() = round-half-even; total_docs <= 10^12, clients <= 2^20",
]
NOT_DECIDED = [
    "readers, offset tables, bulk/batch cutting, conflicting ids (functions not yet under contract in this revision)",
    "order in which co-located clients call params()",
]
TRUSTED = []
