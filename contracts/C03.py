"""C03 — bulk indexing ingests every corpus document exactly once across clients (slice arithmetic and its consequences)."""

RNG = "0 <= t and t <= 10**12 and 1 <= n and n <= 2**20"
R_MACRO = {"R": dict(names=["t", "n", "i"], body="rnd(fl(fl(real(t) / real(n)) * real(i)))")}

BOUNDS = dict(
    target="esrally/track/params.py::bounds",
    prop="C03",
    params={
        "total_docs": "int",
        "start_client_index": "int",
        "end_client_index": "int",
        "num_clients": "int",
        "includes_action_and_meta_data": "bool",
    },
    float="round",
    requires=[
        "0 <= total_docs and total_docs <= 10**12",
        "1 <= num_clients and num_clients <= 2**20",
        "0 <= start_client_index and start_client_index <= end_client_index and end_client_index < num_clients",
    ],
    macros=R_MACRO,
    ensures=[
        # the slice of clients [start, end] is [R(start), R(end+1)) in documents, R(i) = round(fl(fl(total/num) * i))
        "result[0] == (2 if includes_action_and_meta_data else 1) * R(total_docs, num_clients, start_client_index)",
        "result[1] == R(total_docs, num_clients, end_client_index + 1) - R(total_docs, num_clients, start_client_index)",
        "result[2] == (2 if includes_action_and_meta_data else 1) * result[1]",
    ],
    lemmas={
        # L-cover: the slice boundaries R(0..n) start at 0, end at total and never decrease; hence for ANY split of the clients
        # 0..n-1 into consecutive ranges the slices are pairwise disjoint, contiguous in file order and cover [0,total).
        "R_zero": dict(vars={"t": "int", "n": "int"}, stmt=f"implies({RNG}, R(t, n, 0) == 0)"),
        "R_total": dict(vars={"t": "int", "n": "int"}, stmt=f"implies({RNG}, R(t, n, n) == t)"),
        "R_mono": dict(vars={"t": "int", "n": "int", "i": "int", "j": "int"}, stmt=f"implies({RNG} and 0 <= i and i <= j, R(t, n, i) <= R(t, n, j))"),
        "R_range": dict(
            vars={"t": "int", "n": "int", "i": "int"},
            stmt=f"implies({RNG} and 0 <= i and i <= n, 0 <= R(t, n, i) and R(t, n, i) <= t)",
            using=["R_zero", "R_total", "R_mono"],
        ),
        # adjacent ranges [s,e] and [e+1,e2]: the second starts exactly where the first ends (no gap, no overlap)
        "adjacent": dict(
            vars={"t": "int", "n": "int", "s": "int", "e": "int", "e2": "int"},
            stmt=f"implies({RNG} and 0 <= s and s <= e and e < e2 and e2 < n, "
            "R(t, n, s) + (R(t, n, e + 1) - R(t, n, s)) == R(t, n, e + 1) and (R(t, n, e + 1) - R(t, n, s)) + (R(t, n, e2 + 1) - R(t, n, e + 1)) == R(t, n, e2 + 1) - R(t, n, s)"
            " and R(t, n, e + 1) - R(t, n, s) >= 0)",
        ),
    },
    cover=["return"],
)

# ------------------------------------------------------------------------------------------------ GenerateActionMetaData.__next__: ids of generated bulk actions
GAM = "GenerateActionMetaData."
USED = "exists(lambda j: 0 <= j and j < old(self.id_up_to) and result[1] == {tpl} % self.conflicting_ids[j])"
NEXT_META = dict(
    target="esrally/track/params.py::GenerateActionMetaData.__next__",
    prop="C03",
    self_type="obj[GenerateActionMetaData]",
    fields={GAM + "conflicting_ids": "opt[list[str]]", GAM + "conflict_probability": "real", GAM + "id_up_to": "int", GAM + "recency": "real", GAM + "on_conflict": "str",
            GAM + "use_create": "bool", GAM + "meta_data_index_with_id": "str", GAM + "meta_data_update_with_id": "str", GAM + "meta_data_index_no_id": "str",
            GAM + "meta_data_create_no_id": "str", GAM + "rand": "any", GAM + "randint": "any", GAM + "randexp": "any"},
    consts={"GenerateActionMetaData.RECENCY_SLOPE": 30},
    externals={
        "self.rand": dict(returns="real", ensures=["0 <= result and result < 1"]),
        "self.randint": dict(returns="int", ensures=["a0 <= result and result <= a1"]),
        "self.randexp": dict(returns="real", ensures=["result >= 0"]),
    },
    requires=[
        "implies(self.conflicting_ids is not None, 0 <= self.id_up_to and self.id_up_to <= len(self.conflicting_ids))",
        "self.recency >= 0 and self.conflict_probability >= 0",
        "implies(self.conflicting_ids is not None, len(self.conflicting_ids) <= 2**40)",  # float rounding model: ids far below 2^53
    ],
    modifies=["self"],
    only_fields={"self": ["id_up_to"]},
    returns="tuple[str,str]",
    ensures=[
        # without conflicting ids: a constant action without id
        "implies(self.conflicting_ids is None, self.id_up_to == old(self.id_up_to) and result[0] == ('create' if self.use_create else 'index'))",
        # with ids: EITHER the next unused id is consumed (each id is handed out exactly once, in order) ...
        "implies(self.conflicting_ids is not None and self.id_up_to == old(self.id_up_to) + 1, result[0] == 'index' and result[1] == self.meta_data_index_with_id % self.conflicting_ids[old(self.id_up_to)])",
        # ... OR a conflict is simulated: the action targets an id that HAS ALREADY BEEN USED (index below id_up_to), never a fresh or unused one
        "implies(self.conflicting_ids is not None and self.id_up_to == old(self.id_up_to), old(self.id_up_to) > 0 and result[0] == self.on_conflict and "
        f"(({USED.format(tpl='self.meta_data_index_with_id')}) or ({USED.format(tpl='self.meta_data_update_with_id')})))",
        "self.id_up_to == old(self.id_up_to) or self.id_up_to == old(self.id_up_to) + 1",
    ],
    raises={
        "StopIteration": dict(ensures=["self.conflicting_ids is not None and old(self.id_up_to) >= len(self.conflicting_ids) and self.id_up_to == old(self.id_up_to)"]),
        "RallyAssertionError": dict(ensures=["self.on_conflict != 'index' and self.on_conflict != 'update'"]),
    },
    float="round",
    cover=["return", "raise:StopIteration"],
)

# readers are positioned through the line-offset table: the table build / lookup / skip contracts of C14, claimed here too
from contracts.C14 import BUILD_TABLE, FIND_CLOSEST, SKIP_LINES  # noqa: E402

# ------------------------------------------------------------------------------------------------ PartitionBulkIndexParamSource._init_internal_params
PB = "PartitionBulkIndexParamSource."
INIT_PARAMS = dict(
    target="esrally/track/params.py::PartitionBulkIndexParamSource._init_internal_params",
    prop="C03",
    self_type="obj[PartitionBulkIndexParamSource]",
    fields={PB + "partitions": "list[int]", PB + "total_partitions": "int", PB + "corpora": "any", PB + "batch_size": "int", PB + "bulk_size": "int", PB + "id_conflicts": "any",
            PB + "conflict_probability": "any", PB + "on_conflict": "any", PB + "recency": "any", PB + "pipeline": "any", PB + "original_params": "any", PB + "create_reader": "any",
            PB + "internal_params": "any", PB + "total_bulks": "int", PB + "ingest_percentage": "real"},
    requires=["len(self.partitions) >= 1", "self.ingest_percentage >= 0 and self.ingest_percentage <= 100"],
    externals={
        # sorted(xs): assumed consequences of sorting a list of ints -- same length, first is the minimum and last the maximum of both lists
        "sorted": dict(returns="list[int]", ensures=["len(result) == len(a0)", "forall(lambda j: implies(0 <= j and j < len(a0), result[0] <= a0[j] and a0[j] <= result[len(a0) - 1] and "
                                                     "result[0] <= result[j] and result[j] <= result[len(a0) - 1]))"]),
        "bulk_data_based": dict(event="reader", returns="any"),
        "number_of_bulks": dict(event="count", returns="int", ensures=["result >= 0"]),
    },
    modifies=["self"],
    ensures=[
        # the bulks this worker will send are COUNTED with the same corpora, the same partition range and the same BULK size the reader chain is built with
        # (batch size only says how many bulks are read ahead) -- otherwise the source stops before (or after) the reader is exhausted
        "nev() == 2 and evk(0) == 'reader' and evk(1) == 'count'",
        "eva(0, 1, 'int') == self.total_partitions and eva(0, 5, 'int') == self.batch_size and eva(0, 6, 'int') == self.bulk_size",
        "eva(1, 1, 'any') == eva(0, 4, 'any') and eva(1, 2, 'int') == eva(0, 2, 'int') and eva(1, 3, 'int') == eva(0, 3, 'int') and eva(1, 4, 'int') == self.total_partitions and eva(1, 5, 'int') == self.bulk_size",
        # partition range = [smallest, largest] client index of this worker
        "forall(lambda j: implies(0 <= j and j < len(self.partitions), eva(0, 2, 'int') <= self.partitions[j] and self.partitions[j] <= eva(0, 3, 'int')))",
        # ingest-percentage: the ceiling of that share of the bulks
        "self.total_bulks >= 0 and real(self.total_bulks) >= eva(1, 0, 'int') * self.ingest_percentage / 100 and real(self.total_bulks) < eva(1, 0, 'int') * self.ingest_percentage / 100 + 1",
    ],
    cover=["return"],
)

CONTRACTS = [BOUNDS, NEXT_META, INIT_PARAMS] + [dict(c, prop="C03") for c in (BUILD_TABLE, FIND_CLOSEST, SKIP_LINES)]
ASSUMPTIONS = [
    "float rounding model for bounds(): fl(x)=x(1+d), |d|<=2^-53, monotone, exact on integers up to 2^53; round() = round-half-even; total_docs <= 10^12, clients <= 2^20",
]
NOT_DECIDED = [
    "Slice / IndexDataReader bulk and batch cutting, PartitionBulkIndexParamSource corpus partition (not under contract)", "text-mode tell() == byte offset (bounded only)",
    "order in which co-located clients call params()",
]
TRUSTED = []


def extra_checks(runner, ev):
    """BOUNDED stand-in (never counted as proved): offset table == line-by-line skipping on real files incl. multi-byte content."""
    from pyvc.run import bounded_check

    return bounded_check(ev, "C03", "C03_offsets.py", "io.prepare_file_offset_table + io.skip_lines vs skipping lines one by one (real files)", "esrally/utils/io.py::prepare_file_offset_table")

