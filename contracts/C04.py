"""C04 — latency, service time and processing time mean what the docs say (AsyncExecutor.__call__ loop body, clock as monotone ghost)."""

Y = "tuple[real,obj[SampleType],opt[real],any,any]"
FIELDS = {
    "AsyncExecutor.client_id": "any", "AsyncExecutor.task": "obj[Task]", "AsyncExecutor.op": "any", "AsyncExecutor.schedule_handle": "any", "AsyncExecutor.es": "any",
    "AsyncExecutor.sampler": "any", "AsyncExecutor.cancel": "any", "AsyncExecutor.complete": "any", "AsyncExecutor.on_error": "any", "AsyncExecutor.logger": "any",
    "Task.any_completes_parent": "bool", "Task.completes_parent": "bool",
    "ReqCtx.request_start": "real", "ReqCtx.request_end": "real",
}
CLOCK = dict(returns="real", ensures=["result >= $clock"], ghost_update=("$clock", "result"))
EXT = {
    "time.perf_counter": CLOCK,
    "time.time": dict(returns="real"),
    # A-SLEEP: asyncio.sleep(d) returns no earlier than d seconds later on the perf_counter clock (its hidden result is the clock afterwards)
    "asyncio.sleep": dict(returns="real", ensures=["result >= $clock + a0"], ghost_update=("$clock", "result")),
    "self.schedule_handle": dict(returns=f"list[{Y}]"),
    "self.schedule_handle.start": dict(ghost_set=("$started", "True")),  # starts the warm-up / time-period clock of the task
    "self.schedule_handle.ramp_up_wait_time": dict(attr=True, returns="real", ensures=["result >= 0"]),
    "self.schedule_handle.before_request": dict(returns="none"),
    "self.schedule_handle.after_request": dict(returns="none"),
    "self.cancel.is_set": dict(returns="bool"),
    "self.complete.is_set": dict(returns="bool"),
    "self.complete.set": dict(event="complete.set"),
    "*.new_request_context": dict(**{"with": "transparent"}, returns="obj[ReqCtx]"),
    # A-REQ: the runner issues >= 1 wire request inside the context; request start/end are clock readings taken during the call
    "execute_single": dict(returns="tuple[any,any,any]", ensures=["request_context.request_start >= $clock and request_context.request_end >= request_context.request_start"],
                           ghost_update=("$clock", "request_context.request_end")),
    "self.sampler.add": dict(event="add"),
}
SCHED = "schedule[_i0][0]"  # the scheduled time YIELDED by the schedule for this request
THROTTLED = f"({SCHED} > 0)"
AT_ADD = [
    # a1 task, a2 client, a3 sample type, a5 issue time (wall clock), a6 request start, a7 latency, a8 service time, a9 processing time
    "ref(a0) == ref(self.task) and a1 == self.client_id and ref(a2) == ref(schedule[_i0][1]) and a4 == absolute_processing_start",
    "a7 == request_end - request_start and a7 >= 0",
    "a8 == processing_end - processing_start and a8 >= a7",
    f"implies({THROTTLED}, a6 == request_end - (total_start + {SCHED}) and a6 >= a7)",
    f"implies(not {THROTTLED}, a6 == a7)",
]
CALL = dict(
    target="esrally/driver/driver.py::AsyncExecutor.__call__",
    prop="C04",
    self_type="obj[AsyncExecutor]",
    params={"args": "any", "kwargs": "any"},
    fields=FIELDS,
    ghost_state={"$clock": "real", "$started": "bool"},
    requires=["not $started"],
    externals=EXT,
    at_call={
        # the task's clock is started BEFORE the client waits for its ramp-up slot: warm-up and time period are measured from the start of the
        # task, not from the (later) moment this client joins in
        "asyncio.sleep@0": ["$started"],
        "self.schedule_handle": ["not $started"],
        # no request of a throttled task is issued before its scheduled time
        "self.schedule_handle.before_request": [f"implies({THROTTLED}, a0 >= total_start + {SCHED})"],
        "self.sampler.add": AT_ADD,
        # completed-by: a client of the task that completes its parent runs until its OWN runner is done -- it never consults the shared
        # completion flag (which a faster client of the same task on this worker may already have set)
        "self.complete.is_set": ["not self.task.completes_parent"],
    },
    loops={
        0: dict(inv=["nev() == _i", "total_start <= $clock", "forall(lambda q: implies(0 <= q and q < nev(), evk(q) == 'add'))"]),
    },
    ensures=[
        # exactly one sample per executed request: the number of samples equals the number of schedule entries consumed before the loop ended
        "forall(lambda q: implies(0 <= q and q < nev(), evk(q) == 'add' or (q == nev() - 1 and evk(q) == 'complete.set')))",
        # task-local completion flag: set at the end iff this task completes its parent (named or 'any')
        "implies(self.task.completes_parent or self.task.any_completes_parent, nev() >= 1 and evk(nev() - 1) == 'complete.set')",
        "implies(not (self.task.completes_parent or self.task.any_completes_parent), forall(lambda q: implies(0 <= q and q < nev(), evk(q) == 'add')))",
    ],
    raises={"RallyError": dict(ensures=["True"])},
    cover=["return"],
)

# ------------------------------------------------------------------------------------------------ Sampler.add -> Sample: each timing lands in its own field
SAMPLE_FIELDS = {
    "Sampler.start_timestamp": "real", "Sampler.q": "any", "Sampler.logger": "any",
    "Sample.client_id": "any", "Sample.absolute_time": "real", "Sample.request_start": "real", "Sample.task_start": "real", "Sample.task": "obj[Task]", "Sample.sample_type": "any",
    "Sample.request_meta_data": "any", "Sample.latency": "real", "Sample.service_time": "real", "Sample.processing_time": "real", "Sample.throughput": "any", "Sample.total_ops": "any",
    "Sample.total_ops_unit": "any", "Sample.time_period": "any", "Sample._dependent_timing": "any", "Sample._operation_name": "any", "Sample._operation_type": "any",
    "Sample.percent_completed": "any", "Task.operation": "any",
}
S = "eva(0, 1, 'obj[Sample]')"
SAMPLER_ADD = dict(
    target="esrally/driver/driver.py::Sampler.add",
    prop="C04",
    self_type="obj[Sampler]",
    params={"task": "obj[Task]", "client_id": "any", "sample_type": "any", "meta_data": "any", "absolute_time": "real", "request_start": "real", "latency": "real", "service_time": "real",
            "processing_time": "real", "throughput": "any", "ops": "any", "ops_unit": "any", "time_period": "any", "percent_completed": "any", "dependent_timing": "any"},
    fields=SAMPLE_FIELDS,
    externals={"self.q.put_nowait": dict(event="put", outcomes=[dict(returns="none"), dict(raises="queue.Full")])},
    ensures=[
        # exactly one sample is queued (or dropped with a warning when the queue is full), and every measurement sits in the field of its own name
        "nev() == 1 and (evk(0) == 'put' or evk(0) == 'put!')",
        f"implies(evk(0) == 'put', {S}.latency == latency and {S}.service_time == service_time and {S}.processing_time == processing_time)",
        f"implies(evk(0) == 'put', {S}.client_id == client_id and ref({S}.task) == ref(task) and {S}.sample_type == sample_type and {S}.request_meta_data == meta_data)",
        f"implies(evk(0) == 'put', {S}.absolute_time == absolute_time and {S}.request_start == request_start and {S}.task_start == self.start_timestamp)",
        f"implies(evk(0) == 'put', {S}.throughput == throughput and {S}.total_ops == ops and {S}.total_ops_unit == ops_unit and {S}.time_period == time_period and {S}.percent_completed == percent_completed)",
    ],
    cover=["return"],
)

# service time = span from the FIRST wire request of the logical request to the last response: the request-context hooks of C18, claimed here too
from contracts.C18 import ON_END, ON_START, UPD_END, UPD_START  # noqa: E402

CTX_HOOKS = [dict(c, prop="C04") for c in (UPD_START, UPD_END, ON_START, ON_END)]

CONTRACTS = [CALL, SAMPLER_ADD] + CTX_HOOKS
ASSUMPTIONS = ["A-CLOCK: time.perf_counter is monotone (ghost clock); A-SLEEP: asyncio.sleep(d) returns no earlier than d later; A-REQ: the runner issues at least one wire request inside the request context and its start/end are clock readings taken during execute_single",
               "exact-real arithmetic"]
NOT_DECIDED = ["the first request of a throttled task has scheduled time 0 and is measured as unthrottled (documented behaviour, encoded as such)", "execute_single's result/error mapping: under contract in C09"]
TRUSTED = []
