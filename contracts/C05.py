"""C05 — iterations, time periods, warm-up, progress and pacing follow the task spec."""

IB = {
    "IterationBased._warmup_iterations": "int",
    "IterationBased._iterations": "opt[int]",
    "IterationBased._total_iterations": "opt[int]",
    "IterationBased._it": "opt[int]",
}
TB = {
    "TimePeriodBased._warmup_time_period": "real",
    "TimePeriodBased._time_period": "opt[real]",
    "TimePeriodBased._duration": "opt[real]",
    "TimePeriodBased._start": "opt[real]",
    "TimePeriodBased._now": "opt[real]",
}
WARM, NORM = "metrics.SampleType.Warmup", "metrics.SampleType.Normal"
IB_INV = "self._warmup_iterations >= 0 and not isnone(self._iterations) and self._iterations >= 0 and not isnone(self._total_iterations) and self._total_iterations == self._warmup_iterations + self._iterations and self._total_iterations >= 1"


def ib(method, ensures=(), requires=(), **kw):
    return dict(target=f"esrally/driver/driver.py::IterationBased.{method}", prop="C05", self_type="obj[IterationBased]", fields=IB, requires=list(requires), ensures=list(ensures), cover=["return"], **kw)


IB_INIT = dict(
    target="esrally/driver/driver.py::IterationBased.__init__",
    prop="C05",
    self_type="obj[IterationBased]",
    params={"warmup_iterations": "int", "iterations": "opt[int]"},
    fields=IB,
    requires=["warmup_iterations >= 0 and (isnone(iterations) or iterations >= 0)"],
    ensures=[
        "self._warmup_iterations == warmup_iterations and isnone(self._iterations) == isnone(iterations) and implies(not isnone(iterations), self._iterations == iterations)",
        "implies(not isnone(iterations), self._total_iterations == warmup_iterations + iterations and self._total_iterations >= 1)",
        "implies(isnone(iterations), isnone(self._total_iterations))",
        "isnone(self._it)",
    ],
    raises={"RallyAssertionError": dict(ensures=["not isnone(iterations) and warmup_iterations + iterations == 0"])},
    cover=["return", "raise:RallyAssertionError"],
)
IB_START = ib("start", ["self._it == 0"])
IB_NEXT = ib("next", ["self._it == old(self._it) + 1", "self._warmup_iterations == old(self._warmup_iterations) and self._total_iterations == old(self._total_iterations) and self._iterations == old(self._iterations) "
                      "and isnone(self._iterations) == old(isnone(self._iterations)) and isnone(self._total_iterations) == old(isnone(self._total_iterations))"], ["not isnone(self._it)"], modifies=["self"])
IB_STYPE = ib("sample_type", returns="obj[SampleType]", pure=True, ensures=[f"result == ({WARM} if self._it < self._warmup_iterations else {NORM})"], requires=["not isnone(self._it)"])
IB_INF = ib("infinite", ["result == isnone(self._iterations)"], returns="bool", pure=True)
IB_PCT = ib("percent_completed", ["result == (self._it + 1) / self._total_iterations", "implies(0 <= self._it and self._it < self._total_iterations, 0 < result and result <= 1)",
                                  "implies(self._it == self._total_iterations - 1, result == 1)"], [IB_INV, "not isnone(self._it)"], returns="real", pure=True)
IB_DONE = ib("completed", ["result == (self._it >= self._total_iterations)"], [IB_INV, "not isnone(self._it)"], returns="bool", pure=True)

CLOCK = {"time.perf_counter": dict(returns="real", event="clock", ensures=["implies(nev() >= 1, True)"])}
TB_REQ = "not isnone(self._start) and not isnone(self._now) and self._now >= self._start and self._warmup_time_period >= 0"


def tb(method, ensures=(), requires=(), **kw):
    return dict(target=f"esrally/driver/driver.py::TimePeriodBased.{method}", prop="C05", self_type="obj[TimePeriodBased]", fields=TB, requires=list(requires), ensures=list(ensures), cover=["return"], **kw)


TB_INIT = dict(
    target="esrally/driver/driver.py::TimePeriodBased.__init__",
    prop="C05",
    self_type="obj[TimePeriodBased]",
    params={"warmup_time_period": "real", "time_period": "opt[real]"},
    fields=TB,
    ensures=["self._warmup_time_period == warmup_time_period", "implies(not isnone(time_period), self._duration == warmup_time_period + time_period and self._time_period == time_period)",
             "implies(isnone(time_period), isnone(self._duration) and isnone(self._time_period))", "isnone(self._start) and isnone(self._now)"],
    cover=["return"],
)
TB_START = tb("start", ["self._now == eva(0, 0, 'real') and self._start == self._now and nev() == 1"], externals=CLOCK)
TB_NEXT = tb("next", ["self._now == eva(0, 0, 'real') and nev() == 1 and self._start == old(self._start)"], externals=CLOCK)
# the statement allows one request to straddle a boundary: exact equality is left unconstrained
TB_STYPE = tb("sample_type", returns="obj[SampleType]", pure=True, ensures=[f"implies(self._now - self._start < self._warmup_time_period, result == {WARM})", f"implies(self._now - self._start > self._warmup_time_period, result == {NORM})"], requires=[TB_REQ])
TB_DONE = tb("completed", ["implies(self._now > self._start + self._duration, result)", "implies(self._now < self._start + self._duration, not result)"], [TB_REQ, "not isnone(self._duration)"], returns="bool", pure=True)
TB_PCT = tb("percent_completed", ["result == (self._now - self._start) / self._duration", "result >= 0"], [TB_REQ, "not isnone(self._duration) and self._duration > 0"], returns="real", pure=True)
TB_INF = tb("infinite", ["result == isnone(self._time_period)"], returns="bool", pure=True)

# ---- the schedule generator (finite, iteration-based control)
SH_FIELDS = dict(
    IB,
    **{
        "ScheduleHandle.task_progress_control": "obj[IterationBased]",
        "ScheduleHandle.sched": "any",
        "ScheduleHandle.runner": "any",
        "ScheduleHandle.params": "any",
        "ScheduleHandle.operation_type": "str",
    },
)
CTL = "self.task_progress_control"
Y = "tuple[real,obj[SampleType],real,any,any]"
SH_CALL_ITER = dict(
    target="esrally/driver/driver.py::ScheduleHandle.__call__",
    prop="C05",
    self_type="obj[ScheduleHandle]",
    fields=SH_FIELDS,
    yields=Y,
    externals={
        # every scheduler's next(current) is >= current (proved for the deterministic/unthrottled ones below; Poisson: expovariate >= 0)
        "self.sched.next": dict(returns="real", ensures=["result >= a0"], pure=False),
        "self.params_with_operation_type": dict(outcomes=[dict(returns="any"), dict(raises="StopIteration")]),
    },
    requires=[IB_INV.replace("self.", CTL + "."), f"{CTL}._it == 0"],
    loops={
        1: dict(  # `while not completed` (loop 0 is the infinite branch, unreachable under the precondition)
            modifies_objs=[CTL],
            inv=[
                IB_INV.replace("self.", CTL + ".") + f" and ref({CTL}) == ref(at('L1', {CTL}))",
                f"not isnone({CTL}._it) and 0 <= {CTL}._it and {CTL}._it <= {CTL}._total_iterations",
                f"len($yields) == {CTL}._it",
                "next_scheduled >= 0",
                f"forall(lambda k: implies(0 <= k and k < len($yields), $yields[k][0] <= next_scheduled and $yields[k][1] == ({WARM} if k < {CTL}._warmup_iterations else {NORM}) "
                f"and $yields[k][2] == (k + 1) / {CTL}._total_iterations))",
                "forall(lambda k, q: implies(0 <= k and k <= q and q < len($yields), $yields[k][0] <= $yields[q][0]))",
            ],
        )
    },
    ensures=[
        # each client issues at most warmup+iterations requests, and exactly that many unless the parameter source is exhausted first
        f"len($yields) <= {CTL}._total_iterations",
        f"implies(not tag('exhausted'), len($yields) == {CTL}._total_iterations)",
        # the first warmup-iterations are flagged warm-up, all later ones normal (never back to warm-up)
        f"forall(lambda k: implies(0 <= k and k < len($yields), $yields[k][1] == ({WARM} if k < {CTL}._warmup_iterations else {NORM})))",
        # progress strictly increases in (0,1] and ends at exactly 1; scheduled times never decrease
        f"forall(lambda k: implies(0 <= k and k < len($yields), $yields[k][2] == (k + 1) / {CTL}._total_iterations))",
        "forall(lambda k, q: implies(0 <= k and k <= q and q < len($yields), $yields[k][0] <= $yields[q][0]))",
    ],
    cover=["return"],
)
SH_CALL_ITER["externals"]["self.params_with_operation_type"]["outcomes"][1]["tag"] = "exhausted"

# ---- pacing
DET_INIT = dict(
    target="esrally/driver/scheduler.py::DeterministicScheduler.__init__",
    prop="C05",
    self_type="obj[DeterministicScheduler]",
    params={"task": "any", "target_throughput": "real"},
    fields={"DeterministicScheduler.wait_time": "real"},
    requires=["target_throughput > 0"],
    ensures=["self.wait_time == 1 / target_throughput and self.wait_time > 0"],
    cover=["return"],
)
DET_NEXT = dict(
    target="esrally/driver/scheduler.py::DeterministicScheduler.next",
    prop="C05",
    self_type="obj[DeterministicScheduler]",
    params={"current": "real"},
    fields={"DeterministicScheduler.wait_time": "real"},
    ensures=["result == current + self.wait_time"],
    cover=["return"],
)
UA_FIELDS = {
    "UnitAwareScheduler.task": "obj[Task]",
    "UnitAwareScheduler.first_request": "bool",
    "UnitAwareScheduler.current_weight": "opt[real]",
    "UnitAwareScheduler.scheduler": "any",
    "Task.clients": "int",
    "Throughput.value": "real",
    "Throughput.unit": "str",
}
UA_AFTER = dict(
    target="esrally/driver/scheduler.py::UnitAwareScheduler.after_request",
    prop="C05",
    self_type="obj[UnitAwareScheduler]",
    params={"now": "real", "weight": "real", "unit": "str", "request_meta_data": "any"},
    fields=UA_FIELDS,
    ghost={"TT": "obj[Throughput]"},
    externals={
        "self.task.target_throughput": dict(ghost_value="TT"),
        "self.scheduler_class": dict(returns="any", event="new-scheduler"),
    },
    requires=["TT.value > 0 and self.task.clients >= 1"],
    ensures=[
        # when the weight changes (or on the first request) the delegate is re-created for value / clients / weight requests per second per client:
        # with the deterministic schedule consecutive requests of each client are weight * clients / value seconds apart
        "implies(weight > 0 and (old(self.first_request) or old(self.current_weight) != weight) and f'{unit}/s' == TT.unit, nev() == 1 and eva(0, 2, 'real') == TT.value / self.task.clients / weight "
        "and self.current_weight == weight and not self.first_request)",
        # unit mismatch against ops/s: throttle per request (weight 1)
        "implies(weight > 0 and (old(self.first_request) or old(self.current_weight) != weight) and f'{unit}/s' != TT.unit and TT.unit == 'ops/s', nev() == 1 and eva(0, 2, 'real') == TT.value / self.task.clients / 1)",
        "implies(not (weight > 0 and (old(self.first_request) or old(self.current_weight) != weight)), nev() == 0 and self.current_weight == old(self.current_weight))",
    ],
    raises={"RallyAssertionError": dict(ensures=["weight > 0 and f'{unit}/s' != TT.unit and TT.unit != 'ops/s'"])},
    cover=["return", "raise:RallyAssertionError"],
)
RAMP = dict(
    target="esrally/driver/driver.py::ScheduleHandle.ramp_up_wait_time",
    prop="C05",
    self_type="obj[ScheduleHandle]",
    fields={"ScheduleHandle.task_allocation": "obj[TaskAllocation]", "TaskAllocation.task": "obj[Task]", "TaskAllocation.global_client_index": "int", "TaskAllocation.total_clients": "int",
            "Task.ramp_up_time_period": "opt[real]"},
    requires=["self.task_allocation.total_clients >= 1 and self.task_allocation.global_client_index >= 0"],
    ensures=[
        "implies(not isnone(self.task_allocation.task.ramp_up_time_period) and self.task_allocation.task.ramp_up_time_period != 0, "
        "result == self.task_allocation.task.ramp_up_time_period * self.task_allocation.global_client_index / self.task_allocation.total_clients)",
        "implies(isnone(self.task_allocation.task.ramp_up_time_period) or self.task_allocation.task.ramp_up_time_period == 0, result == 0)",
    ],
    cover=["return"],
)
# ---- choice of loop control
TASK_SCHED_FIELDS = {"Task.warmup_time_period": "opt[real]", "Task.time_period": "opt[real]", "Task.warmup_iterations": "opt[int]", "Task.iterations": "opt[int]"}
RTPS = dict(
    target="esrally/driver/driver.py::requires_time_period_schedule",
    prop="C05",
    params={"task": "obj[Task]", "task_runner": "obj[Runner]", "params": "obj[ParamSource]"},
    fields=dict(TASK_SCHED_FIELDS, **{"Runner.completed": "any", "ParamSource.infinite": "bool"}),
    ensures=[
        # time-period control iff a (warm-up) time period is given, or no iterations are given and (the runner reports completion or the parameter source is finite)
        "result == (not isnone(task.warmup_time_period) or not isnone(task.time_period) or "
        "(isnone(task.warmup_iterations) and isnone(task.iterations) and (not isnone(task_runner.completed) or not params.infinite)))",
    ],
    returns="bool",
    pure=True,
    cover=["return"],
)

TASKF = dict(TASK_SCHED_FIELDS, **{"Task.operation": "obj[Operation]", "Operation.type": "str", "Task.clients": "int", "Task.name": "str", "Task.schedule": "any"})
SF_FIELDS = dict(
    IB, **TB, **TASKF,
    **{
        "TaskAllocation.task": "obj[Task]", "TaskAllocation.client_index_in_task": "int", "TaskAllocation.global_client_index": "int", "TaskAllocation.total_clients": "int",
        "Runner.completed": "any", "ParamSource.infinite": "bool", "Scheduler.parameter_source": "any",
        "ScheduleHandle.task_allocation": "obj[TaskAllocation]", "ScheduleHandle.operation_type": "str", "ScheduleHandle.sched": "obj[Scheduler]",
        "ScheduleHandle.task_progress_control": "obj[IterationBased|TimePeriodBased]", "ScheduleHandle.runner": "obj[Runner]", "ScheduleHandle.params": "obj[ParamSource]",
    },
)
T_ = "task_allocation.task"
PSRC = "result.params"
TIMEB = (f"(not isnone({T_}.warmup_time_period) or not isnone({T_}.time_period) or (isnone({T_}.warmup_iterations) and isnone({T_}.iterations) "
         f"and (not isnone(result.runner.completed) or not {PSRC}.infinite)))")
SCHED_FOR = dict(
    target="esrally/driver/driver.py::schedule_for",
    prop="C05",
    params={"task_allocation": "obj[TaskAllocation]", "parameter_source": "any"},
    fields=SF_FIELDS,
    externals={
        "scheduler.scheduler_for": dict(returns="obj[Scheduler]"),
        "runner.runner_for": dict(returns="obj[Runner]"),
        "parameter_source.partition": dict(returns="obj[ParamSource]"),
        "hasattr": dict(uf="HASATTR", returns="bool", pure=True),
    },
    requires=[
        f"implies(not isnone({T_}.warmup_iterations), {T_}.warmup_iterations >= 0) and implies(not isnone({T_}.iterations), {T_}.iterations >= 0)",
        f"implies(not isnone({T_}.warmup_iterations) and not isnone({T_}.iterations), {T_}.warmup_iterations + {T_}.iterations >= 1)",
        f"implies(not isnone({T_}.warmup_time_period), {T_}.warmup_time_period >= 0)",
    ],
    ensures=[
        # choice of loop control
        f"{TIMEB} == (clsof(result.task_progress_control) == 'cls:TimePeriodBased')",
        f"(not {TIMEB}) == (clsof(result.task_progress_control) == 'cls:IterationBased')",
        # iteration-based: warm-up iterations as given (default 0); iterations as given, else 1 for an infinite parameter source, else until the source is exhausted
        f"implies(not {TIMEB}, result.task_progress_control._warmup_iterations == ({T_}.warmup_iterations if not isnone({T_}.warmup_iterations) else 0))",
        f"implies(not {TIMEB} and not isnone({T_}.iterations) and {T_}.iterations != 0, result.task_progress_control._iterations == {T_}.iterations)",
        f"implies(not {TIMEB} and (isnone({T_}.iterations) or {T_}.iterations == 0) and {PSRC}.infinite, result.task_progress_control._iterations == 1)",
        f"implies(not {TIMEB} and (isnone({T_}.iterations) or {T_}.iterations == 0) and not {PSRC}.infinite, isnone(result.task_progress_control._iterations))",
        # time-based: warm-up period as given (default 0) and the task's time period
        f"implies({TIMEB}, cast(result.task_progress_control, 'TimePeriodBased')._warmup_time_period == ({T_}.warmup_time_period if not isnone({T_}.warmup_time_period) and {T_}.warmup_time_period != 0 else 0))",
        f"implies({TIMEB}, isnone(cast(result.task_progress_control, 'TimePeriodBased')._time_period) == isnone({T_}.time_period) and implies(not isnone({T_}.time_period), cast(result.task_progress_control, 'TimePeriodBased')._time_period == {T_}.time_period))",
        "ref(result.task_allocation) == ref(task_allocation)",
    ],
    raises={"RallyAssertionError": dict(ensures=[f"(isnone({T_}.warmup_iterations) or {T_}.warmup_iterations == 0) and not isnone({T_}.iterations) and {T_}.iterations == 0 and False"])},
    cover=["return"],
)

CONTRACTS = [SCHED_FOR, IB_INIT, IB_START, IB_NEXT, IB_STYPE, IB_INF, IB_PCT, IB_DONE, TB_INIT, TB_START, TB_NEXT, TB_STYPE, TB_DONE, TB_PCT, TB_INF, SH_CALL_ITER, DET_INIT, DET_NEXT, UA_AFTER, RAMP, RTPS]
ASSUMPTIONS = ["exact-real arithmetic; every scheduler's next(current) >= current (assumed in the generator; proved for the deterministic scheduler)", "time.perf_counter values are reals recorded as ghost events"]
NOT_DECIDED = ["Poisson distribution shape", "target-throughput string parsing (regex)", "time-period branch of the generator and schedule_for construction (not yet under contract in this revision)"]
TRUSTED = []

# warm-up and time period are measured from the task's start, not from the end of a client's ramp-up wait: the executor contract of C04, claimed here too
from contracts.C04 import CALL as _EXEC_CALL  # noqa: E402

CONTRACTS += [dict(_EXEC_CALL, prop="C05")]

