"""C06 — throughput counts every operation exactly once, however samples are batched (ThroughputCalculator)."""

FIELDS = {
    "Sample.absolute_time": "real",
    "Sample.relative_time": "real",
    "Sample.time_period": "real",
    "Sample.sample_type": "int",  # SampleType is an IntEnum: Warmup = 0, Normal = 1
    "Sample.total_ops": "real",
    "Sample.total_ops_unit": "str",
    "Sample.throughput": "opt[real]",
    "Sample.task": "any",
    "TaskStats.unprocessed": "list[obj[Sample]]",
    "TaskStats.total_count": "real",
    "TaskStats.interval": "real",
    "TaskStats.bucket_interval": "real",
    "TaskStats.bucket": "real",
    "TaskStats.sample_type": "int",
    "TaskStats.has_samples_in_sample_type": "bool",
    "TaskStats.start_time": "real",
    "ThroughputCalculator.task_stats": "dict[any,obj[TaskStats]]",
}
S = "current_samples"
CUR = "self.task_stats[task]"
N = f"len({S})"
# ghost prefix sums of the operations of the batch: PS[0] = 0, PS[k+1] = PS[k] + total_ops of sample k
PS_DEF = f"len(PS) == {N} + 1 and PS[0] == 0 and forall(lambda k: implies(0 <= k and k < {N}, PS[k + 1] == PS[k] + {S}[k].total_ops and PS[k + 1] >= 0))"
SAMPLES_OK = (
    f"forall(lambda k: implies(0 <= k and k < {N}, {S}[k].total_ops >= 0 and ({S}[k].sample_type == 0 or {S}[k].sample_type == 1)))"
)
# the driver hands in the new samples together with ALL carried-over ones: every not-yet-bucketed sample of the task is in the batch
MACROS = {
    # value reported by emitted tuple t
    "TPUT": dict(names=["r", "t"], body="r[t][3]"),
    "TYPE": dict(names=["r", "t"], body="r[t][2]"),
}
OLD_TOTAL = f"(old({CUR}.total_count) if old(has(self.task_stats, task)) else 0)"

CTT = dict(
    target="esrally/driver/driver.py::ThroughputCalculator.calculate_task_throughput",
    prop="C06",
    self_type="obj[ThroughputCalculator]",
    params={"task": "any", "current_samples": "list[obj[Sample]]", "bucket_interval_secs": "real"},
    ghost={"PS": "list[real]"},
    macros=MACROS,
    fields=FIELDS,
    locals={"task_throughput": "list[tuple[real,real,int,real,str]]", "last_sample": "opt[obj[Sample]]"},
    requires=[
        f"{N} >= 1",
        "bucket_interval_secs > 0",
        PS_DEF,
        SAMPLES_OK,
        "distinct(ref(PS), ref(current_samples))",
        # object invariant of a known task between calls
        f"implies(has(self.task_stats, task), {CUR}.total_count >= 0 and {CUR}.interval >= 0 and {CUR}.bucket_interval > 0 "
        f"and ({CUR}.sample_type == 0 or {CUR}.sample_type == 1) and ref({CUR}.unprocessed) != ref(current_samples) and ref({CUR}.unprocessed) != ref(PS))",
    ],
    loops={
        0: dict(
            modifies_objs=[CUR, f"{CUR}.unprocessed", "task_throughput"],
            locals={"last_sample": "opt[obj[Sample]]"},
            inv=[
                f"ref(current) == ref({CUR}) and has(self.task_stats, task) and ref(task_throughput) >= NREF0() and ref(current.unprocessed) != ref(task_throughput)",
                f"ref(current.unprocessed) != ref({S}) and ref(current.unprocessed) != ref(PS) and ref(current) != ref({S}) and ref(current) != ref(PS)",
                "current.bucket_interval > 0 and current.interval >= 0 and (current.sample_type == 0 or current.sample_type == 1)",
                # conservation: everything up to sample _i is either counted or waiting in `unprocessed` exactly once, in order
                f"count == {OLD_TOTAL} + PS[_i] and count >= 0 and {OLD_TOTAL} >= 0",
                "ref(current.unprocessed) == ref(at('L0', self.task_stats[task].unprocessed)) or ref(current.unprocessed) >= _nentry0",
                "0 <= len(current.unprocessed) and len(current.unprocessed) <= _i",
                f"forall(lambda k: implies(0 <= k and k < len(current.unprocessed), ref(current.unprocessed[k]) == ref({S}[_i - len(current.unprocessed) + k])))",
                f"current.total_count == {OLD_TOTAL} + PS[_i - len(current.unprocessed)]",
                "implies(_i > 0, not isnone(last_sample) and ref(last_sample) == ref(current_samples[_i - 1]))",
                "implies(_i == 0, isnone(last_sample))",
                # emitted values: non-negative, typed by the (never decreasing) current sample type, unit = '<ops unit>/s'
                "forall(lambda t: implies(0 <= t and t < len(task_throughput), ref(task_throughput[t]) >= NREF0() and TPUT(task_throughput, t) >= 0 and TYPE(task_throughput, t) <= current.sample_type "
                "and (TYPE(task_throughput, t) == 0 or TYPE(task_throughput, t) == 1)))",
                "forall(lambda t, u: implies(0 <= t and t <= u and u < len(task_throughput), TYPE(task_throughput, t) <= TYPE(task_throughput, u)))",
            ],
        )
    },
    ensures=[
        # exactly-once accounting at the end of the batch: total_count + ops(unprocessed) == ops of everything seen so far
        f"0 <= len({CUR}.unprocessed) and len({CUR}.unprocessed) <= {N}",
        f"forall(lambda k: implies(0 <= k and k < len({CUR}.unprocessed), ref({CUR}.unprocessed[k]) == ref({S}[{N} - len({CUR}.unprocessed) + k])))",
        f"{CUR}.total_count == {OLD_TOTAL} + PS[{N} - len({CUR}.unprocessed)]",
        # values non-negative, sample types of successive values never go back to warm-up
        "forall(lambda t: implies(0 <= t and t < len(result), TPUT(result, t) >= 0))",
        "forall(lambda t, u: implies(0 <= t and t <= u and u < len(result), TYPE(result, t) <= TYPE(result, u)))",
        # final-sample rule: with positive elapsed time the task has a value for its current sample type after the call
        f"implies({CUR}.interval > 0, {CUR}.has_samples_in_sample_type)",
    ],
    cover=["return"],
)

# ------------------------------------------------------------------------------------------------ a throughput supplied by the runner is passed through unchanged
MTT = dict(
    target="esrally/driver/driver.py::ThroughputCalculator.map_task_throughput",
    prop="C06",
    self_type="obj[ThroughputCalculator]",
    params={"current_samples": "list[obj[Sample]]"},
    fields=FIELDS,
    locals={"throughput": "list[tuple[real,real,int,opt[real],str]]"},
    loops={0: dict(modifies_objs=["throughput"], inv=[
        "len(throughput) == _i and ref(throughput) >= NREF0() and ref(throughput) != ref(current_samples)",
        "forall(lambda k: implies(0 <= k and k < _i, ref(throughput[k]) >= NREF0() and throughput[k][0] == current_samples[k].absolute_time and throughput[k][1] == current_samples[k].relative_time "
        "and throughput[k][2] == current_samples[k].sample_type))",
        "forall(lambda k: implies(0 <= k and k < _i, isnone(throughput[k][3]) == isnone(current_samples[k].throughput) and "
        "implies(not isnone(current_samples[k].throughput), throughput[k][3] == current_samples[k].throughput) and throughput[k][4] == f'{current_samples[k].total_ops_unit}/s'))",
    ])},
    returns="list[tuple[real,real,int,opt[real],str]]",
    ensures=[
        # one value per sample, in order, with the sample's own times and type, the runner's throughput VERBATIM and the unit '<ops unit>/s'
        "len(result) == len(current_samples)",
        "forall(lambda k: implies(0 <= k and k < len(current_samples), result[k][0] == current_samples[k].absolute_time and result[k][1] == current_samples[k].relative_time "
        "and result[k][2] == current_samples[k].sample_type))",
        "forall(lambda k: implies(0 <= k and k < len(current_samples), isnone(result[k][3]) == isnone(current_samples[k].throughput) and "
        "implies(not isnone(current_samples[k].throughput), result[k][3] == current_samples[k].throughput) and result[k][4] == f'{current_samples[k].total_ops_unit}/s'))",
    ],
    cover=["return"],
)

CONTRACTS = [CTT, MTT]
ASSUMPTIONS = [
    "exact-real arithmetic; SampleType modelled as the ints 0 (Warmup) and 1 (Normal) (it is an IntEnum)",
    "the ghost prefix-sum list PS is defined by PS[k+1] = PS[k] + total_ops(sample k): conservation is stated as total_count == old_total + PS[first index still unprocessed]",
    "calculate() hands in the new samples chained with all carried-over ones, sorted by time (that call site is not yet under contract)",
]
NOT_DECIDED = ["equality of the emitted sequences between different batch cuts (bucket boundaries legitimately differ)", "calculate() grouping/sorting (bounded stand-in only)"]
TRUSTED = []


def extra_checks(runner, ev):
    """BOUNDED stand-in (never counted as proved): grouping by task in ThroughputCalculator.calculate (real code, interleaved tasks and batches)."""
    from pyvc.run import bounded_check

    return bounded_check(ev, "C06", "C06_calculate.py", "ThroughputCalculator.calculate: a task's throughput does not depend on other tasks' samples in the same batches (real code)",
                         "esrally/driver/driver.py::ThroughputCalculator.calculate")

