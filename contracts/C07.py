"""C07 — every request sample reaches the metrics store exactly once (function-level exactly-once links of the chain)."""
import copy

from contracts import C01 as _c01


def _as_c07(d):
    d = copy.deepcopy(d)
    d["prop"] = "C07"
    return d


# worker side: the queue is drained and shipped in one message; the sampler is only replaced / dropped after it was drained
SEND_SAMPLES = _as_c07(_c01.SEND_SAMPLES)
W_DRIVE = _as_c07(_c01.W_DRIVE)
# driver side hand-over with clear=True once per step (to race control): proved as part of these two
MOVE_NEXT = _as_c07(_c01.MOVE_NEXT)

DRIVER = dict(_c01.DRIVER, **{"Sample.client_id": "any"})
UPDATE = dict(
    target="esrally/driver/driver.py::Driver.update_samples",
    prop="C07",
    self_type="obj[Driver]",
    params={"samples": "list[obj[Sample]]"},
    fields=dict(DRIVER, **{"Driver.raw_samples": "list[obj[Sample]]", "Driver.most_recent_sample_per_client": "dict[any,obj[Sample]]"}),
    requires=["ref(samples) != ref(self.raw_samples)"],
    loops={0: dict(modifies_objs=["self.most_recent_sample_per_client"], inv=["ref(self.raw_samples) == ref(at('L0', self.raw_samples)) and len(self.raw_samples) == at('L0', len(self.raw_samples))",
                                                                               "ref(self.most_recent_sample_per_client) == ref(at('L0', self.most_recent_sample_per_client))"])},
    ensures=[
        # the shipment is appended as a whole: nothing lost, nothing duplicated, order kept
        "len(self.raw_samples) == old(len(self.raw_samples)) + len(samples)",
        "forall(lambda k: implies(0 <= k and k < old(len(self.raw_samples)), ref(self.raw_samples[k]) == ref(old(self.raw_samples)[k])))",
        "forall(lambda k: implies(0 <= k and k < len(samples), ref(self.raw_samples[old(len(self.raw_samples)) + k]) == ref(samples[k])))",
    ],
    cover=["return"],
)
POST_PROCESS = dict(
    target="esrally/driver/driver.py::Driver.post_process_samples",
    prop="C07",
    self_type="obj[Driver]",
    fields=dict(DRIVER, **{"Driver.raw_samples": "list[obj[Sample]]"}),
    externals={"self.sample_post_processor": dict(event="post_process")},
    ensures=[
        # the post-processor receives exactly the samples gathered so far (the same list), and new samples go to a NEW, empty list
        "nev() == 1 and evk(0) == 'post_process' and ref(eva(0, 1, 'list[obj[Sample]]')) == ref(old(self.raw_samples))",
        "len(self.raw_samples) == 0 and ref(self.raw_samples) != ref(old(self.raw_samples))",
        "len(old(self.raw_samples)) == old(len(self.raw_samples))",
    ],
    cover=["return"],
)

CONTRACTS = [SEND_SAMPLES, W_DRIVE, MOVE_NEXT, UPDATE, POST_PROCESS]
ASSUMPTIONS = ["FIFO delivery (UpdateSamples before JoinPointReached of the same worker); pickle/zlib round trip of externalised metrics is the identity", "Sampler.samples drains the whole queue (queue.Queue semantics)",
               "the executor thread only touches sampler, complete, cancel"]
NOT_DECIDED = ["interleaving of periodic ticks, shipments and hand-overs (outside this family)", "SamplePostprocessor.__call__ record counts, MetricsStore._put_metric / to_externalizable / bulk_add (not yet under contract in this revision)"]
TRUSTED = []
