"""C07 — every request sample reaches the metrics store exactly once (function-level exactly-once links of the chain)."""
import copy

from contracts import C01 as _c01


def _as_c07(d):
    d = copy.deepcopy(d)
    d["prop"] = "C07"
    return d


# worker side: the queue is drained and shipped in one message; the sampler is only replaced / dropped after it was drained
SEND_SAMPLES = _as_c07(_c01.SEND_SAMPLES)
W_DRIVE = _as_c07(_c01.W_DRIVE)
# driver side hand-over with clear=True once per step (to race control): proved as part of these two
MOVE_NEXT = _as_c07(_c01.MOVE_NEXT)
# the samples of a finished step are post-processed before the step's metrics are handed over / the store is closed (also at the LAST join point)
JOINPOINT = _as_c07(_c01.JOINPOINT)
MAY_COMPLETE = _as_c07(_c01.MAY_COMPLETE)

DRIVER = dict(_c01.DRIVER, **{"Sample.client_id": "any"})
UPDATE = dict(
    target="esrally/driver/driver.py::Driver.update_samples",
    prop="C07",
    self_type="obj[Driver]",
    params={"samples": "list[obj[Sample]]"},
    fields=dict(DRIVER, **{"Driver.raw_samples": "list[obj[Sample]]", "Driver.most_recent_sample_per_client": "dict[any,obj[Sample]]"}),
    requires=["ref(samples) != ref(self.raw_samples)"],
    loops={0: dict(modifies_objs=["self.most_recent_sample_per_client"], inv=["ref(self.raw_samples) == ref(at('L0', self.raw_samples)) and len(self.raw_samples) == at('L0', len(self.raw_samples))",
                                                                               "ref(self.most_recent_sample_per_client) == ref(at('L0', self.most_recent_sample_per_client))"])},
    ensures=[
        # the shipment is appended as a whole: nothing lost, nothing duplicated, order kept
        "len(self.raw_samples) == old(len(self.raw_samples)) + len(samples)",
        "forall(lambda k: implies(0 <= k and k < old(len(self.raw_samples)), ref(self.raw_samples[k]) == ref(old(self.raw_samples)[k])))",
        "forall(lambda k: implies(0 <= k and k < len(samples), ref(self.raw_samples[old(len(self.raw_samples)) + k]) == ref(samples[k])))",
    ],
    cover=["return"],
)
POST_PROCESS = dict(
    target="esrally/driver/driver.py::Driver.post_process_samples",
    prop="C07",
    self_type="obj[Driver]",
    fields=dict(DRIVER, **{"Driver.raw_samples": "list[obj[Sample]]"}),
    externals={"self.sample_post_processor": dict(event="post_process")},
    ensures=[
        # the post-processor receives exactly the samples gathered so far (the same list), and new samples go to a NEW, empty list
        "nev() == 1 and evk(0) == 'post_process' and ref(eva(0, 1, 'list[obj[Sample]]')) == ref(old(self.raw_samples))",
        "len(self.raw_samples) == 0 and ref(self.raw_samples) != ref(old(self.raw_samples))",
        "len(old(self.raw_samples)) == old(len(self.raw_samples))",
    ],
    cover=["return"],
)

# ------------------------------------------------------------------------------------------------ SamplePostprocessor.__call__: one set of records per (down-sampled) sample, each with ITS OWN meta-data
from contracts.C04 import SAMPLE_FIELDS  # noqa: E402

PP_FIELDS = dict(SAMPLE_FIELDS, **{
    "SamplePostprocessor.metrics_store": "any", "SamplePostprocessor.track_meta_data": "any", "SamplePostprocessor.challenge_meta_data": "any", "SamplePostprocessor.throughput_calculator": "any",
    "SamplePostprocessor.downsample_factor": "int", "SamplePostprocessor.logger": "any", "Task.name": "str", "Task.meta_data": "any",
})
F_ = "self.downsample_factor"
CNT = lambda i: f"(({i}) + {F_} - 1) // {F_}"  # noqa: E731  number of indices below i that are multiples of the down-sampling factor
PUT = "self.metrics_store.put_value_cluster_level"
MAIN_PUT = lambda name, field: [  # noqa: E731
    f"kw_name == '{name}' and kw_value == sample.{field} * 1000 and kw_unit == 'ms'",
    "kw_task == sample.task.name and kw_sample_type == sample.sample_type and kw_absolute_time == sample.absolute_time and kw_relative_time == sample.request_start - sample.task_start",
    # the record carries the meta-data merged FOR THIS SAMPLE (its own request meta-data and client id), not somebody else's
    "kw_meta_data == $merged and $msample == ref(sample)",
]
POSTPROC = dict(
    target="esrally/driver/driver.py::SamplePostprocessor.__call__",
    prop="C07",
    self_type="obj[SamplePostprocessor]",
    params={"raw_samples": "list[obj[Sample]]"},
    fields=PP_FIELDS,
    ghost_state={"$merged": "any", "$msample": "int", "$n_lat": "int", "$n_proc": "int"},
    locals={"sample": "obj[Sample]"},  # the loop variable of the first loop stays bound afterwards (Python semantics); the meta-data ghost of self.merge names it
    requires=[f"{F_} >= 1", "$n_lat == 0 and $n_proc == 0"],
    lemmas={
        "CNTstep": dict(vars={"i": "int", "f": "int"}, stmt="implies(i >= 0 and f >= 1, (i + 1 + f - 1) // f == (i + f - 1) // f + (1 if i % f == 0 else 0) and (0 + f - 1) // f == 0)"),
    },
    use=[("L0", "CNTstep", {"i": "_i0", "f": F_}), ("", "CNTstep", {"i": "0", "f": F_})],
    externals={
        "time.perf_counter": dict(returns="real"),
        "self.merge": dict(returns="any", ghost_update=[("$merged", "result"), ("$msample", "ref(sample)")]),
        PUT: dict(event="put", event_kwargs=["name", "value", "meta_data"],
                  ghost_update=[("$n_lat", "$n_lat + (1 if kw_name == 'latency' else 0)"), ("$n_proc", "$n_proc + (1 if kw_name == 'processing_time' else 0)")]),
        "sample.dependent_timings": dict(attr=True, returns="list[obj[Sample]]"),
        "self.throughput_calculator.calculate": dict(returns="dict[obj[Task],list[tuple[real,real,any,real,any]]]", ensures=["not has(result, None)"]),  # keyed by the samples' tasks
        "self.metrics_store.flush": dict(event="flush", event_kwargs=["refresh"]),
    },
    at_call={
        "self.merge@0": [
            "a0 == self.track_meta_data and a1 == self.challenge_meta_data and a2 == sample.task.operation.meta_data and a3 == sample.task.meta_data",
            "a4 == sample.request_meta_data and a5['client_id'] == sample.client_id",
        ],
        "self.merge@1": ["a0 == timing.request_meta_data and a1['client_id'] == sample.client_id"],
        PUT + "@0": MAIN_PUT("latency", "latency"),
        PUT + "@1": MAIN_PUT("service_time", "service_time"),
        PUT + "@2": MAIN_PUT("processing_time", "processing_time"),
        PUT + "@3": ["kw_name == 'service_time' and kw_value == timing.service_time * 1000 and kw_meta_data == $merged"],
        PUT + "@4": ["kw_name == 'throughput'"],
    },
    loops={
        0: dict(inv=[f"$n_lat == {CNT('_i')} and $n_proc == {CNT('_i')}", "final_sample_count == $n_lat"]),
        1: dict(inv=["$n_lat == at('L1', $n_lat) and $n_proc == at('L1', $n_proc)"]),
        2: dict(inv=[f"$n_lat == {CNT('len(raw_samples)')} and $n_proc == {CNT('len(raw_samples)')}"]),
        3: dict(inv=[f"$n_lat == {CNT('len(raw_samples)')} and $n_proc == {CNT('len(raw_samples)')}"]),
    },
    ensures=[
        # exactly one latency and one processing-time record per down-sampled request sample (the service-time record sits between them, checked at its call site)
        f"$n_lat == {CNT('len(raw_samples)')} and $n_proc == {CNT('len(raw_samples)')}",
        # and the batch is flushed to the store without forcing a refresh
        "implies(len(raw_samples) > 0, evk(nev() - 1) == 'flush' and not eva(nev() - 1, 1, 'bool'))",
        "implies(len(raw_samples) == 0, nev() == 0)",
    ],
    cover=["return"],
)

# ------------------------------------------------------------------------------------------------ Sampler.samples: the drain hands over the WHOLE queue, in order
# queue.Queue (assumed): get_nowait returns the oldest queued item, or raises queue.Empty exactly when nothing is queued. Ghost: $Q = queue content at entry, $taken = items taken so far.
SAMPLER_SAMPLES = dict(
    target="esrally/driver/driver.py::Sampler.samples",
    prop="C07",
    self_type="obj[Sampler]",
    fields={"Sampler.q": "any", "Sampler.start_timestamp": "real", "Sampler.logger": "any"},
    ghost={"Q": "list[any]"},
    ghost_state={"$taken": "int"},
    requires=["$taken == 0"],
    locals={"samples": "list[any]"},
    externals={
        "self.q.get_nowait": dict(outcomes=[
            dict(returns="any", ensures=["$taken < len(Q) and result == Q[$taken]"], ghost_update=("$taken", "$taken + 1")),
            dict(raises="queue.Empty", ensures=["$taken == len(Q)"]),
        ]),
    },
    loops={0: dict(modifies_objs=["samples"], inv=["0 <= $taken and $taken <= len(Q) and len(samples) == $taken and ref(samples) != ref(Q)",
                                                 "forall(lambda k: implies(0 <= k and k < $taken, samples[k] == Q[k]))"])},
    returns="list[any]",
    ensures=[
        # nothing stays behind (a drain that stops early loses the rest when the worker drops or replaces the sampler), nothing is duplicated or reordered
        "$taken == len(Q)",
        "len(result) == len(Q) and forall(lambda k: implies(0 <= k and k < len(Q), result[k] == Q[k]))",
    ],
    cover=["return"],
)

# ------------------------------------------------------------------------------------------------ hand-over of metric records: externalise (with clear) on the driver side, bulk_add on the race-control side
STORE_FIELDS = {"InMemoryMetricsStore.docs": "list[any]", "InMemoryMetricsStore.logger": "any", "MetricsStore.logger": "any"}
TO_EXT = dict(
    target="esrally/metrics.py::InMemoryMetricsStore.to_externalizable",
    prop="C07",
    self_type="obj[InMemoryMetricsStore]",
    params={"clear": "bool"},
    fields=STORE_FIELDS,
    ghost_state={"$dumped": "int"},
    externals={
        "pickle.dumps": dict(returns="any", ghost_update=("$dumped", "ref(a0)"), ensures=["not isnone(result)"]),
        "zlib.compress": dict(returns="any", pure=True, uf="ZCOMPRESS"),
    },
    returns="any",
    ensures=[
        # what is serialised is the list of ALL records gathered so far, and that list itself is left as it was (nothing dropped while serialising)
        "$dumped == ref(old(self.docs)) and len(old(self.docs)) == old(len(self.docs))",
        # with clear the store starts over with an EMPTY list of its own -- the records just handed out are never handed out again
        "implies(clear, len(self.docs) == 0 and ref(self.docs) != ref(old(self.docs)))",
        "implies(not clear, ref(self.docs) == ref(old(self.docs)))",
    ],
    cover=["return"],
)
BULK_ADD = dict(
    target="esrally/metrics.py::MetricsStore.bulk_add",
    prop="C07",
    self_type="obj[MetricsStore]",
    params={"memento": "any"},
    fields=STORE_FIELDS,
    ghost_state={"$loaded": "list[any]"},
    externals={
        "zlib.decompress": dict(returns="any", pure=True, uf="ZDECOMPRESS"),
        "pickle.loads": dict(returns="list[any]", ghost_update=("$loaded", "result")),
        "self._add": dict(event="add"),
    },
    loops={0: dict(inv=["nev() == _i", "forall(lambda q: implies(0 <= q and q < _i, evk(q) == 'add' and eva(q, 1, 'any') == $loaded[q]))"])},
    ensures=[
        # every record of the hand-over is added exactly once, in order; an empty hand-over (None / b'') adds nothing
        "implies(memento, nev() == len($loaded) and forall(lambda q: implies(0 <= q and q < len($loaded), evk(q) == 'add' and eva(q, 1, 'any') == $loaded[q])))",
        "implies(not memento, nev() == 0)",
    ],
    cover=["return"],
)

CONTRACTS = [SAMPLER_SAMPLES, TO_EXT, BULK_ADD, POSTPROC, SEND_SAMPLES, W_DRIVE, MOVE_NEXT, MAY_COMPLETE, JOINPOINT, UPDATE, POST_PROCESS]
ASSUMPTIONS = ["FIFO delivery (UpdateSamples before JoinPointReached of the same worker); pickle/zlib round trip of externalised metrics is the identity", "queue.Queue.get_nowait returns the oldest item or raises queue.Empty exactly when the queue is empty (Sampler.samples itself is under contract)",
               "the executor thread only touches sampler, complete, cancel"]
NOT_DECIDED = ["interleaving of periodic ticks, shipments and hand-overs (outside this family)", "the service_time record count of SamplePostprocessor (checked at its call site only), throughput records, MetricsStore._put_metric (not under contract); pickle / zlib round trip (assumed identity)"]
TRUSTED = []
