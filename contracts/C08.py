"""C08 — race results are correct statistics of the normal samples and survive storage."""

SORTED = "forall(lambda a, b: implies(0 <= a and a <= b and b < len(s), s[a] <= s[b]))"
PV = {
    # linear-interpolation percentile: r = p/100*(n-1); s[floor r] + (s[ceil r] - s[floor r]) * (r - floor r)
    "RANK": dict(names=["s", "p"], body="real(p) / 100 * (len(s) - 1)"),
    "PV": dict(names=["s", "p"], body="sel(s, floor(RANK(s, p))) + (sel(s, ceil(RANK(s, p))) - sel(s, floor(RANK(s, p)))) * (RANK(s, p) - floor(RANK(s, p)))"),
}

PERCENTILE_VALUE = dict(
    target="esrally/metrics.py::InMemoryMetricsStore.percentile_value",
    prop="C08",
    params={"sorted_values": "list[real]", "percentile": "real"},
    requires=[
        "len(sorted_values) >= 1",
        "0 <= percentile and percentile <= 100",
        SORTED.replace("(s)", "(sorted_values)").replace("s[", "sorted_values["),
    ],
    macros=PV,
    ensures=[
        "result == PV(sorted_values, percentile)",
        "sorted_values[0] <= result and result <= sorted_values[len(sorted_values) - 1]",
        "implies(percentile == 100, result == sorted_values[len(sorted_values) - 1])",
        "implies(percentile == 0, result == sorted_values[0])",
        # p50 is the median: middle element, or the mean of the two middle elements
        "implies(percentile == 50 and len(sorted_values) % 2 == 1, result == sorted_values[(len(sorted_values) - 1) // 2])",
        "implies(percentile == 50 and len(sorted_values) % 2 == 0, result == (sorted_values[len(sorted_values) // 2 - 1] + sorted_values[len(sorted_values) // 2]) / 2)",
    ],
    lemmas={
        "PV_mono": dict(
            vars={"s": "list[real]", "p1": "real", "p2": "real"},
            stmt=f"implies(len(s) >= 1 and 0 <= p1 and p1 <= p2 and p2 <= 100 and {SORTED}, PV(s, p1) <= PV(s, p2))",
        ),
    },
    cover=["return"],
)

# ------------------------------------------------------------------------------------------------ GlobalStats.metrics: the per-task record of a race
OPM = "rec{?task:str,operation:str}"
KEY = lambda r: f"({r}['task'] if has({r}, 'task') else {r}['operation'])"  # noqa: E731  the name a record is filed under (races before 0.8.0 have no 'task')
METRICS = dict(
    target="esrally/metrics.py::GlobalStats.metrics",
    prop="C08",
    self_type="obj[GlobalStats]",
    params={"task": "str"},
    fields={"GlobalStats.op_metrics": f"list[{OPM}]"},
    loops={0: dict(inv=[f"forall(lambda j: implies(0 <= j and j < _i, {KEY('self.op_metrics[j]')} != task))"])},
    returns=f"opt[{OPM}]",
    ensures=[
        # the FIRST record filed under that task name -- a record that HAS a task name is never found through its operation name
        f"implies(result is None, forall(lambda j: implies(0 <= j and j < len(self.op_metrics), {KEY('self.op_metrics[j]')} != task)))",
        f"implies(result is not None, exists(lambda i: 0 <= i and i < len(self.op_metrics) and ref(result) == ref(self.op_metrics[i]) and {KEY('self.op_metrics[i]')} == task and "
        f"forall(lambda j: implies(0 <= j and j < i, {KEY('self.op_metrics[j]')} != task))))",
    ],
    cover=["return"],
)

CONTRACTS = [PERCENTILE_VALUE, METRICS]
ASSUMPTIONS = ["exact-real arithmetic for percentile interpolation (floats as reals)"]
NOT_DECIDED = ["InMemoryMetricsStore filters / get_stats / error rate, result assembly (GlobalStatsCalculator.__call__) and the race.json round trip are covered by the bounded stand-in and the call-site obligations only"]
TRUSTED = []


def extra_checks(runner, ev):
    """1. Call-site obligations (syntactic, on the real AST): the per-task result metrics are computed from NORMAL samples only -- in
       GlobalStatsCalculator.summary_stats / single_latency / error_rate every query of the store (and every helper of the calculator that takes a
       sample_type) is given sample_type=SampleType.Normal explicitly (get_unit excepted: units do not depend on the sample type).
    2. BOUNDED stand-in: the real results pipeline on generated stores (see bounded/C08_results.py)."""
    import ast
    import json
    import os

    from pyvc.extract import RepoIndex
    from pyvc.run import bounded_check

    m = RepoIndex().module("esrally/metrics.py")
    helpers = {name for (cls, name), fn in m.methods.items() if cls == "GlobalStatsCalculator" and any(a.arg == "sample_type" for a in fn.args.args + fn.args.kwonlyargs)}
    bad, n = [], 0
    for meth in ("summary_stats", "single_latency", "error_rate"):
        fn = m.methods.get(("GlobalStatsCalculator", meth))
        if fn is None:
            bad.append({"method": meth, "problem": "method not found"})
            continue
        normal_locals = set()
        for node in ast.walk(fn):
            if isinstance(node, ast.Assign) and len(node.targets) == 1 and isinstance(node.targets[0], ast.Name):
                if ast.unparse(node.value) == "SampleType.Normal":
                    normal_locals.add(node.targets[0].id)
                else:
                    normal_locals.discard(node.targets[0].id)
        for call in [c for c in ast.walk(fn) if isinstance(c, ast.Call) and isinstance(c.func, ast.Attribute)]:
            callee = ast.unparse(call.func)
            is_store = callee.startswith("self.store.get") and callee != "self.store.get_unit"
            is_helper = callee.startswith("self.") and callee.count(".") == 1 and call.func.attr in helpers
            if not (is_store or is_helper):
                continue
            n += 1
            kw = next((k for k in call.keywords if k.arg == "sample_type"), None)
            val = ast.unparse(kw.value) if kw is not None else None
            if not (val == "SampleType.Normal" or (val in normal_locals)):
                bad.append({"method": meth, "line": call.lineno, "call": ast.unparse(call)[:160], "problem": "sample_type=SampleType.Normal is not passed explicitly" if kw is None else f"sample_type={val}"})
    cov = ev["coverage"]
    cov["call_site_obligations"] = {"store queries of per-task result metrics": n, "failed": bad}
    cov["obligations"] += n
    cov["discharged"] += n - min(n, len(bad))
    rc = 0
    if n < 5:
        cov["undecided_now"].append({"function": "GlobalStatsCalculator", "kind": "vacuity", "detail": f"only {n} store queries found"})
        rc = 2
    if bad:
        outdir = os.path.join(os.path.dirname(os.path.dirname(os.path.abspath(__file__))), "out", "C08")
        os.makedirs(outdir, exist_ok=True)
        path = os.path.join(outdir, "normal_samples_only.json")
        json.dump({"property": "C08", "obligation": "C08/GlobalStatsCalculator/normal-samples-only", "target": "esrally/metrics.py::GlobalStatsCalculator", "failed": bad,
                   "verifier": "syntactic call-site obligation on the real AST"}, open(path, "w"), indent=1)
        print(f"VIOLATION property=C08 replay={path} no-failing-input-found")
        ev["violations"] += len(bad)
        rc = 1
    rb = bounded_check(ev, "C08", "C08_results.py", "GlobalStatsCalculator / GlobalStats.metrics / race.json round trip on generated stores (real code)", "esrally/metrics.py::GlobalStatsCalculator.__call__")
    return max(rc, rb) if 3 not in (rc, rb) else 3

