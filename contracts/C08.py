"""C08 — race results are correct statistics of the normal samples and survive storage."""

SORTED = "forall(lambda a, b: implies(0 <= a and a <= b and b < len(s), s[a] <= s[b]))"
PV = {
    # linear-interpolation percentile: r = p/100*(n-1); s[floor r] + (s[ceil r] - s[floor r]) * (r - floor r)
    "RANK": dict(names=["s", "p"], body="real(p) / 100 * (len(s) - 1)"),
    "PV": dict(names=["s", "p"], body="sel(s, floor(RANK(s, p))) + (sel(s, ceil(RANK(s, p))) - sel(s, floor(RANK(s, p)))) * (RANK(s, p) - floor(RANK(s, p)))"),
}

PERCENTILE_VALUE = dict(
    target="esrally/metrics.py::InMemoryMetricsStore.percentile_value",
    prop="C08",
    params={"sorted_values": "list[real]", "percentile": "real"},
    requires=[
        "len(sorted_values) >= 1",
        "0 <= percentile and percentile <= 100",
        SORTED.replace("(s)", "(sorted_values)").replace("s[", "sorted_values["),
    ],
    macros=PV,
    ensures=[
        "result == PV(sorted_values, percentile)",
        "sorted_values[0] <= result and result <= sorted_values[len(sorted_values) - 1]",
        "implies(percentile == 100, result == sorted_values[len(sorted_values) - 1])",
        "implies(percentile == 0, result == sorted_values[0])",
        # p50 is the median: middle element, or the mean of the two middle elements
        "implies(percentile == 50 and len(sorted_values) % 2 == 1, result == sorted_values[(len(sorted_values) - 1) // 2])",
        "implies(percentile == 50 and len(sorted_values) % 2 == 0, result == (sorted_values[len(sorted_values) // 2 - 1] + sorted_values[len(sorted_values) // 2]) / 2)",
    ],
    lemmas={
        "PV_mono": dict(
            vars={"s": "list[real]", "p1": "real", "p2": "real"},
            stmt=f"implies(len(s) >= 1 and 0 <= p1 and p1 <= p2 and p2 <= 100 and {SORTED}, PV(s, p1) <= PV(s, p2))",
        ),
    },
    cover=["return"],
)

CONTRACTS = [PERCENTILE_VALUE]
ASSUMPTIONS = ["exact-real arithmetic for percentile interpolation (floats as reals)"]
NOT_DECIDED = ["store filters, stats, error rate, result assembly, persistence round trip (not yet under contract in this revision)"]
TRUSTED = []
