"""C08 — race results are correct statistics of the normal samples and survive storage."""

SORTED = "forall(lambda a, b: implies(0 <= a and a <= b and b < len(s), s[a] <= s[b]))"
PV = {
    # linear-interpolation percentile: r = p/100*(n-1); s[floor r] + (s[ceil r] - s[floor r]) * (r - floor r)
    "RANK": dict(names=["s", "p"], body="real(p) / 100 * (len(s) - 1)"),
    "PV": dict(names=["s", "p"], body="sel(s, floor(RANK(s, p))) + (sel(s, ceil(RANK(s, p))) - sel(s, floor(RANK(s, p)))) * (RANK(s, p) - floor(RANK(s, p)))"),
}

PERCENTILE_VALUE = dict(
    target="esrally/metrics.py::InMemoryMetricsStore.percentile_value",
    prop="C08",
    params={"sorted_values": "list[real]", "percentile": "real"},
    returns="real",
    requires=[
        "len(sorted_values) >= 1",
        "0 <= percentile and percentile <= 100",
        SORTED.replace("(s)", "(sorted_values)").replace("s[", "sorted_values["),
    ],
    macros=PV,
    ensures=[
        "result == PV(sorted_values, percentile)",
        "sorted_values[0] <= result and result <= sorted_values[len(sorted_values) - 1]",
        "implies(percentile == 100, result == sorted_values[len(sorted_values) - 1])",
        "implies(percentile == 0, result == sorted_values[0])",
        # p50 is the median: middle element, or the mean of the two middle elements
        "implies(percentile == 50 and len(sorted_values) % 2 == 1, result == sorted_values[(len(sorted_values) - 1) // 2])",
        "implies(percentile == 50 and len(sorted_values) % 2 == 0, result == (sorted_values[len(sorted_values) // 2 - 1] + sorted_values[len(sorted_values) // 2]) / 2)",
    ],
    lemmas={
        "PV_mono": dict(
            vars={"s": "list[real]", "p1": "real", "p2": "real"},
            stmt=f"implies(len(s) >= 1 and 0 <= p1 and p1 <= p2 and p2 <= 100 and {SORTED}, PV(s, p1) <= PV(s, p2))",
        ),
    },
    cover=["return"],
)

# ------------------------------------------------------------------------------------------------ GlobalStats.metrics: the per-task record of a race
OPM = "rec{?task:str,operation:str}"
KEY = lambda r: f"({r}['task'] if has({r}, 'task') else {r}['operation'])"  # noqa: E731  the name a record is filed under (races before 0.8.0 have no 'task')
METRICS = dict(
    target="esrally/metrics.py::GlobalStats.metrics",
    prop="C08",
    self_type="obj[GlobalStats]",
    params={"task": "str"},
    fields={"GlobalStats.op_metrics": f"list[{OPM}]"},
    loops={0: dict(inv=[f"forall(lambda j: implies(0 <= j and j < _i, {KEY('self.op_metrics[j]')} != task))"])},
    returns=f"opt[{OPM}]",
    ensures=[
        # the FIRST record filed under that task name -- a record that HAS a task name is never found through its operation name
        f"implies(result is None, forall(lambda j: implies(0 <= j and j < len(self.op_metrics), {KEY('self.op_metrics[j]')} != task)))",
        f"implies(result is not None, exists(lambda i: 0 <= i and i < len(self.op_metrics) and ref(result) == ref(self.op_metrics[i]) and {KEY('self.op_metrics[i]')} == task and "
        f"forall(lambda j: implies(0 <= j and j < i, {KEY('self.op_metrics[j]')} != task))))",
    ],
    cover=["return"],
)

# ------------------------------------------------------------------------------------------------ which percentiles are reported: a function of the sample count only
ASC = "forall(lambda a, b: implies(0 <= a and a < b and b < len(result), result[a] < result[b]))"
PFSS = dict(
    target="esrally/metrics.py::percentiles_for_sample_size",
    prop="C08",
    params={"sample_size": "int"},
    returns="list[real]",
    pure=True,
    ensures=[
        "sample_size >= 1",
        # strictly ascending, within (0, 100], always ends with the maximum (p100); the median (p50) is reported as soon as there are two samples
        "len(result) >= 1 and result[len(result) - 1] == 100",
        ASC,
        "forall(lambda a: implies(0 <= a and a < len(result), 0 < result[a] and result[a] <= 100))",
        "implies(sample_size >= 2, result[0] == 50)",
        # the documented ladder: one more '9' per decade of samples (a percentile is only reported when at least one sample lies beyond it)
        "len(result) == (1 if sample_size == 1 else 2 if sample_size < 10 else 3 if sample_size < 100 else 4 if sample_size < 1000 else 5 if sample_size < 10000 else 6)",
        "implies(len(result) >= 3, result[1] == 90)",
        "implies(len(result) >= 4, result[2] == 99)",
        "implies(len(result) >= 5, result[3] == 99.9)",
        "implies(len(result) >= 6, result[4] == 99.99)",
    ],
    raises={"AssertionError": dict(ensures=["sample_size < 1"])},
    cover=["return", "raise:AssertionError"],
)

# ------------------------------------------------------------------------------------------------ percentiles / stats of a metric: computed from the SORTED values of exactly the queried records
def sorted_fact(x):
    return SORTED.replace("(s)", f"({x})").replace("s[", f"{x}[")


# CPython's sorted() on numbers (assumed): same length, ascending, a rearrangement (every element of one occurs in the other)
SORTED_EXT = dict(returns="list[real]", ghost_update=("$sv", "result"),
                  ensures=["len(result) == len(a0)", sorted_fact("result"),
                           "forall(lambda a: implies(0 <= a and a < len(result), exists(lambda b: 0 <= b and b < len(a0) and result[a] == a0[b])))",
                           "forall(lambda b: implies(0 <= b and b < len(a0), exists(lambda a: 0 <= a and a < len(result) and result[a] == a0[b])))"])
STORE_FIELDS = {"InMemoryMetricsStore.docs": "list[any]"}
QUERY = {"name": "str", "task": "any", "operation_type": "any", "sample_type": "any"}
GET_EXT = dict(params=[("name", None), ("task", None), ("operation_type", None), ("sample_type", None), ("node_name", None)], returns="list[real]", ghost_update=("$vals", "result"))
# the store is queried with exactly the caller's filters (name, task, operation type, SAMPLE TYPE): what is computed is computed from those records only
GET_ARGS = ["a0 == name and a1 == task and a2 == operation_type and a3 == sample_type"]
GET_PERCENTILES = dict(
    target="esrally/metrics.py::InMemoryMetricsStore.get_percentiles",
    prop="C08",
    self_type="obj[InMemoryMetricsStore]",
    params=dict(QUERY, percentiles="opt[list[real]]"),
    fields=STORE_FIELDS,
    macros=PV,
    ghost_state={"$vals": "list[real]", "$sv": "list[real]"},
    externals={"self.get": GET_EXT, "sorted": SORTED_EXT, "collections.OrderedDict": dict(new_dict=("real", "real"))},
    at_call={"self.get": GET_ARGS, "sorted": ["ref(a0) == ref($vals)"]},
    # the results pipeline always names the percentiles it wants (percentiles_for_sample_size); the default list [99, 99.9, 100] is outside the property
    requires=["not isnone(percentiles)", "forall(lambda a: implies(0 <= a and a + 1 < len(percentiles), percentiles[a] < percentiles[a + 1]))",  # ascending, as percentiles_for_sample_size guarantees (proved there)
              "implies(not isnone(percentiles), forall(lambda j: implies(0 <= j and j < len(percentiles), 0 <= percentiles[j] and percentiles[j] <= 100)))"],
    returns="dict[real,real]",
    loops={0: dict(modifies_objs=["result"], inv=["len($vals) > 0 and len($sv) == len($vals) and " + sorted_fact("$sv"), "ref(result) != ref($sv) and ref(result) != ref(percentiles)",
                                                 "forall(lambda a: implies(0 <= a and a + 1 < len(percentiles), percentiles[a] < percentiles[a + 1]))",
                        "implies(_i < len(percentiles), forall(lambda j: implies(0 <= j and j < _i, percentiles[j] < percentiles[_i])))",
                        "forall(lambda j: implies(0 <= j and j < _i, has(result, percentiles[j])))",
                        "forall(lambda j: implies(0 <= j and j < _i, result[percentiles[j]] == PV($sv, percentiles[j])))",
                        ])},
    ensures=[
        # no values -> nothing reported
        "implies(len($vals) == 0 and not isnone(old(percentiles)), forall(lambda j: implies(0 <= j and j < len(old(percentiles)), not has(result, old(percentiles)[j]))))",
        # every requested percentile is reported, with the linear-interpolation value over the sorted values of the query
        "implies(len($vals) > 0 and not isnone(old(percentiles)), forall(lambda j: implies(0 <= j and j < len(old(percentiles)), "
        "has(result, old(percentiles)[j]) and result[old(percentiles)[j]] == PV($sv, old(percentiles)[j]))))",
    ],
    cover=["return"],
)
GET_STATS = dict(
    target="esrally/metrics.py::InMemoryMetricsStore.get_stats",
    prop="C08",
    self_type="obj[InMemoryMetricsStore]",
    params=dict(QUERY),
    fields=STORE_FIELDS,
    ghost_state={"$vals": "list[real]", "$sv": "list[real]"},
    externals={"self.get": GET_EXT, "sorted": SORTED_EXT, "statistics.mean": dict(returns="real", pure=True, uf="MEAN"), "sum": dict(returns="real", pure=True, uf="SUM")},
    at_call={"self.get": GET_ARGS, "sorted": ["ref(a0) == ref($vals)"]},
    returns="opt[rec{count:int,min:real,max:real,avg:real,sum:real}]",
    ensures=[
        "(result is None) == (len($vals) == 0)",
        # count / min / max agree with the raw values of the query: min and max are attained and bound every value
        "implies(result is not None, result['count'] == len($vals))",
        "implies(result is not None, forall(lambda b: implies(0 <= b and b < len($vals), result['min'] <= $vals[b] and $vals[b] <= result['max'])))",
        "implies(result is not None, exists(lambda b: 0 <= b and b < len($vals) and $vals[b] == result['min']) and exists(lambda b: 0 <= b and b < len($vals) and $vals[b] == result['max']))",
    ],
    cover=["return"],
)

CONTRACTS = [PERCENTILE_VALUE, METRICS, PFSS, GET_PERCENTILES, GET_STATS]
ASSUMPTIONS = ["exact-real arithmetic for percentile interpolation (floats as reals)", "sorted() on numbers: same length, ascending, a rearrangement of its argument (assumed external)", "statistics.mean and sum are uninterpreted", "get_percentiles is called with an explicit ascending percentile list (as percentiles_for_sample_size, proved, provides)"]
NOT_DECIDED = ["InMemoryMetricsStore._get filters, get_error_rate, mean/sum values of get_stats, result assembly (GlobalStatsCalculator.__call__, summary_stats, single_latency) and the race.json round trip are covered by the bounded stand-in and the call-site obligations only"]
TRUSTED = []


def extra_checks(runner, ev):
    """1. Call-site obligations (syntactic, on the real AST): the per-task result metrics are computed from NORMAL samples only -- in
       GlobalStatsCalculator.summary_stats / single_latency / error_rate every query of the store (and every helper of the calculator that takes a
       sample_type) is given sample_type=SampleType.Normal explicitly (get_unit excepted: units do not depend on the sample type).
    2. BOUNDED stand-in: the real results pipeline on generated stores (see bounded/C08_results.py)."""
    import ast
    import json
    import os

    from pyvc.extract import RepoIndex
    from pyvc.run import bounded_check

    m = RepoIndex().module("esrally/metrics.py")
    helpers = {name for (cls, name), fn in m.methods.items() if cls == "GlobalStatsCalculator" and any(a.arg == "sample_type" for a in fn.args.args + fn.args.kwonlyargs)}
    bad, n = [], 0
    for meth in ("summary_stats", "single_latency", "error_rate"):
        fn = m.methods.get(("GlobalStatsCalculator", meth))
        if fn is None:
            bad.append({"method": meth, "problem": "method not found"})
            continue
        normal_locals = set()
        for node in ast.walk(fn):
            if isinstance(node, ast.Assign) and len(node.targets) == 1 and isinstance(node.targets[0], ast.Name):
                if ast.unparse(node.value) == "SampleType.Normal":
                    normal_locals.add(node.targets[0].id)
                else:
                    normal_locals.discard(node.targets[0].id)
        for call in [c for c in ast.walk(fn) if isinstance(c, ast.Call) and isinstance(c.func, ast.Attribute)]:
            callee = ast.unparse(call.func)
            is_store = callee.startswith("self.store.get") and callee != "self.store.get_unit"
            is_helper = callee.startswith("self.") and callee.count(".") == 1 and call.func.attr in helpers
            if not (is_store or is_helper):
                continue
            n += 1
            kw = next((k for k in call.keywords if k.arg == "sample_type"), None)
            val = ast.unparse(kw.value) if kw is not None else None
            if not (val == "SampleType.Normal" or (val in normal_locals)):
                bad.append({"method": meth, "line": call.lineno, "call": ast.unparse(call)[:160], "problem": "sample_type=SampleType.Normal is not passed explicitly" if kw is None else f"sample_type={val}"})
    cov = ev["coverage"]
    cov["call_site_obligations"] = {"store queries of per-task result metrics": n, "failed": bad}
    cov["obligations"] += n
    cov["discharged"] += n - min(n, len(bad))
    rc = 0
    if n < 5:
        cov["undecided_now"].append({"function": "GlobalStatsCalculator", "kind": "vacuity", "detail": f"only {n} store queries found"})
        rc = 2
    if bad:
        outdir = os.path.join(os.path.dirname(os.path.dirname(os.path.abspath(__file__))), "out", "C08")
        os.makedirs(outdir, exist_ok=True)
        path = os.path.join(outdir, "normal_samples_only.json")
        json.dump({"property": "C08", "obligation": "C08/GlobalStatsCalculator/normal-samples-only", "target": "esrally/metrics.py::GlobalStatsCalculator", "failed": bad,
                   "verifier": "syntactic call-site obligation on the real AST"}, open(path, "w"), indent=1)
        print(f"VIOLATION property=C08 replay={path} no-failing-input-found")
        ev["violations"] += len(bad)
        rc = 1
    rb = bounded_check(ev, "C08", "C08_results.py", "GlobalStatsCalculator / GlobalStats.metrics / race.json round trip on generated stores (real code)", "esrally/metrics.py::GlobalStatsCalculator.__call__")
    return max(rc, rb) if 3 not in (rc, rb) else 3

