"""C09 — any failure or cancellation ends the race as failed, never as success (per-handler forwarding contracts)."""

ACTOR_EXT = {
    "self.send": dict(event="send"),
    "self.createActor": dict(event="createActor", returns="any", ensures=["not isnone(result)"]),
    "self.wakeupAfter": dict(event="wakeupAfter"),
    "thespian.actors.ActorExitRequest": dict(returns="any", ensures=["not isnone(result)"]),
    "traceback.format_exc": dict(returns="any"),
}
BF = {"BenchmarkFailure.message": "any", "BenchmarkFailure.cause": "any"}
IS_FAIL = "clsof(eva({q}, 2, 'obj[BenchmarkFailure]')) == 'cls:BenchmarkFailure'"

# ---- a handler never loses an exception
GUARD = dict(
    target="esrally/actor.py::no_retry.guard",
    prop="C09",
    params={"self": "obj[RallyActor]", "msg": "any", "sender": "any"},
    fields=BF,
    externals=dict(ACTOR_EXT, **{"f": dict(event="handler", outcomes=[dict(returns="any"), dict(raises="Exception"), dict(raises="KeyboardInterrupt")])}),
    closure={"f": "any", "actor_name": "str"},
    ensures=[
        # the handler's exception -- of ANY class -- becomes exactly one BenchmarkFailure to the original sender; otherwise nothing is sent and the result is passed through
        "evk(0) == 'handler' or evk(0) == 'handler!'",
        "implies(evk(0) == 'handler', nev() == 1 and result == eva(0, 0, 'any'))",
        f"implies(evk(0) == 'handler!', nev() == 2 and evk(1) == 'send' and eva(1, 1, 'any') == sender and {IS_FAIL.format(q=1)})",
    ],
    cover=["return"],
)

DA = dict(BF, **{"DriverActor.benchmark_actor": "any", "DriverActor.driver": "obj[Driver]", "DriverActor.status": "opt[str]", "DriverActor.logger": "any", "Driver.workers": "list[any]",
                 "ChildActorExited.childAddress": "any", "PoisonMessage.details": "any"})
DA_EXT = dict(ACTOR_EXT, **{"self.driver.close": dict(event="close")})


def forward(cls, method, fields, target_field, ext, extra_events=0, pre=()):
    """receiveMsg_X(self, msg, sender): the SAME message object is forwarded exactly once to the parent"""
    q = extra_events
    return dict(
        target=f"{cls[0]}::{cls[1]}.{method}",
        prop="C09",
        self_type=f"obj[{cls[1]}]",
        params={"msg": "any", "sender": "any"},
        fields=fields,
        externals=ext,
        requires=list(pre),
        ensures=[f"nev() == {q + 1} and evk({q}) == 'send' and eva({q}, 1, 'any') == self.{target_field} and eva({q}, 2, 'any') == msg"],
        cover=["return"],
    )


DRV = ("esrally/driver/driver.py", "DriverActor")
DA_FAIL = forward(DRV, "receiveMsg_BenchmarkFailure", DA, "benchmark_actor", DA_EXT, 1)
DA_CANCEL = forward(DRV, "receiveMsg_BenchmarkCancelled", DA, "benchmark_actor", DA_EXT, 1)
DA_POISON = dict(
    target="esrally/driver/driver.py::DriverActor.receiveMsg_PoisonMessage",
    prop="C09",
    self_type="obj[DriverActor]",
    params={"poisonmsg": "obj[PoisonMessage]", "sender": "any"},
    fields=DA,
    externals=DA_EXT,
    ensures=[f"nev() == 2 and evk(1) == 'send' and eva(1, 1, 'any') == self.benchmark_actor and {IS_FAIL.format(q=1)}"],
    cover=["return"],
)
DA_CHILD = dict(
    target="esrally/driver/driver.py::DriverActor.receiveMsg_ChildActorExited",
    prop="C09",
    self_type="obj[DriverActor]",
    params={"msg": "obj[ChildActorExited]", "sender": "any"},
    fields=DA,
    externals=dict(DA_EXT, **{"self.driver.workers.index": dict(returns="int", ensures=["0 <= result and result < len(a0) and a0[result] == a1"], recv_arg=True, pure=True)}),
    ensures=[
        # a worker (ANY worker, index 0 included) that dies while the race is not being shut down is reported as exactly one benchmark failure
        f"implies(exists(lambda j: 0 <= j and j < len(self.driver.workers) and self.driver.workers[j] == msg.childAddress) and (isnone(self.status) or self.status != 'exiting'), "
        f"nev() == 1 and evk(0) == 'send' and eva(0, 1, 'any') == self.benchmark_actor and {IS_FAIL.format(q=0)})",
        "implies(not exists(lambda j: 0 <= j and j < len(self.driver.workers) and self.driver.workers[j] == msg.childAddress) or self.status == 'exiting', nev() == 0)",
    ],
    cover=["return"],
)

RC = "esrally/racecontrol.py"
BA = dict(BF, **{"BenchmarkActor.start_sender": "any", "BenchmarkActor.coordinator": "opt[obj[BenchmarkCoordinator]]", "BenchmarkActor.mechanic": "any", "BenchmarkActor.main_driver": "any", "BenchmarkActor.logger": "any",
                 "BenchmarkCoordinator.cancelled": "bool", "BenchmarkCoordinator.error": "bool", "BenchmarkCoordinator.metrics_store": "any", "BenchmarkCoordinator.race": "any",
                 "BenchmarkCoordinator.race_store": "any", "BenchmarkCoordinator.cfg": "any", "BenchmarkCoordinator.logger": "any"})
BA_FAIL = dict(
    target=f"{RC}::BenchmarkActor.receiveMsg_BenchmarkFailure",
    prop="C09",
    self_type="obj[BenchmarkActor]",
    params={"msg": "any", "sender": "any"},
    fields=BA,
    externals=ACTOR_EXT,
    requires=["not isnone(self.coordinator)"],
    # the coordinator is told (so that no results are stored) and race control gets the same message
    ensures=["self.coordinator.error and self.coordinator.cancelled == old(self.coordinator.cancelled)", "nev() == 1 and evk(0) == 'send' and eva(0, 1, 'any') == self.start_sender and eva(0, 2, 'any') == msg"],
    cover=["return"],
)
BA_CANCEL = dict(
    target=f"{RC}::BenchmarkActor.receiveMsg_BenchmarkCancelled",
    prop="C09",
    self_type="obj[BenchmarkActor]",
    params={"msg": "any", "sender": "any"},
    fields=BA,
    externals=ACTOR_EXT,
    requires=["not isnone(self.coordinator)"],
    ensures=["self.coordinator.cancelled and self.coordinator.error == old(self.coordinator.error)", "nev() == 1 and evk(0) == 'send' and eva(0, 1, 'any') == self.start_sender and eva(0, 2, 'any') == msg"],
    cover=["return"],
)
BA_POISON = dict(
    target=f"{RC}::BenchmarkActor.receiveMsg_PoisonMessage",
    prop="C09",
    self_type="obj[BenchmarkActor]",
    params={"msg": "any", "sender": "any"},
    fields=BA,
    externals=ACTOR_EXT,
    ensures=["implies(not isnone(self.coordinator), self.coordinator.error)", "nev() == 1 and evk(0) == 'send' and eva(0, 1, 'any') == self.start_sender and eva(0, 2, 'any') == msg"],
    cover=["return"],
)
ON_COMPLETE = dict(
    target=f"{RC}::BenchmarkCoordinator.on_benchmark_complete",
    prop="C09",
    self_type="obj[BenchmarkCoordinator]",
    params={"new_metrics": "any"},
    fields=BA,
    externals={
        "self.metrics_store.bulk_add": dict(event="bulk_add"),
        "self.metrics_store.flush": dict(event="flush"),
        "metrics.calculate_results": dict(event="calculate_results", returns="any"),
        "self.race.add_results": dict(event="add_results"),
        "self.race_store.store_race": dict(event="store_race"),
        "metrics.results_store": dict(returns="any"),
        "*.store_results": dict(event="store_results"),
        "reporter.summarize": dict(event="summarize"),
        "self.metrics_store.close": dict(event="close"),
    },
    ensures=[
        # final results are computed, stored and printed iff the race was neither cancelled nor failed
        "implies(self.cancelled or self.error, nev() == 3 and evk(0) == 'bulk_add' and evk(1) == 'flush' and evk(2) == 'close')",
        "implies(not self.cancelled and not self.error, nev() == 8 and evk(2) == 'calculate_results' and evk(3) == 'add_results' and evk(4) == 'store_race' and evk(5) == 'store_results' and evk(6) == 'summarize' and evk(7) == 'close')",
        "forall(lambda q: implies(0 <= q and q < nev() and (self.cancelled or self.error), evk(q) != 'store_race' and evk(q) != 'store_results' and evk(q) != 'summarize' and evk(q) != 'calculate_results'))",
    ],
    cover=["return"],
)

CONTRACTS = [GUARD, DA_FAIL, DA_CANCEL, DA_POISON, DA_CHILD, BA_FAIL, BA_CANCEL, BA_POISON, ON_COMPLETE]
ASSUMPTIONS = ["thespian delivers each message once and runs handlers atomically; send only appends a ghost event", "the wrapped handler f of no_retry.guard has the outcomes: returns a value, raises an Exception, raises a non-Exception BaseException (KeyboardInterrupt as representative)"]
NOT_DECIDED = ["'in bounded time' / hang freedom and the interleaving quantifier (outside this family)", "Worker / TaskExecutionActor / TrackPreparationActor forwarding and racecontrol.race() (not yet under contract in this revision)"]
TRUSTED = []
