"""C09 — any failure or cancellation ends the race as failed, never as success (per-handler forwarding contracts)."""

ACTOR_EXT = {
    "self.send": dict(event="send"),
    "self.createActor": dict(event="createActor", returns="any", ensures=["not isnone(result)"]),
    "self.wakeupAfter": dict(event="wakeupAfter"),
    "thespian.actors.ActorExitRequest": dict(returns="any", ensures=["not isnone(result)"]),
    "traceback.format_exc": dict(returns="any"),
}
BF = {"BenchmarkFailure.message": "any", "BenchmarkFailure.cause": "any"}
IS_FAIL = "clsof(eva({q}, 2, 'obj[BenchmarkFailure]')) == 'cls:BenchmarkFailure'"

# ---- a handler never loses an exception
GUARD = dict(
    target="esrally/actor.py::no_retry.guard",
    prop="C09",
    params={"self": "obj[RallyActor]", "msg": "any", "sender": "any"},
    fields=BF,
    externals=dict(ACTOR_EXT, **{"f": dict(event="handler", outcomes=[dict(returns="any"), dict(raises="Exception"), dict(raises="KeyboardInterrupt")])}),
    closure={"f": "any", "actor_name": "str"},
    ensures=[
        # the handler's exception -- of ANY class -- becomes exactly one BenchmarkFailure to the original sender; otherwise nothing is sent and the result is passed through
        "evk(0) == 'handler' or evk(0) == 'handler!'",
        "implies(evk(0) == 'handler', nev() == 1 and result == eva(0, 0, 'any'))",
        f"implies(evk(0) == 'handler!', nev() == 2 and evk(1) == 'send' and eva(1, 1, 'any') == sender and {IS_FAIL.format(q=1)})",
    ],
    cover=["return"],
)

DA = dict(BF, **{"DriverActor.benchmark_actor": "any", "DriverActor.driver": "obj[Driver]", "DriverActor.status": "opt[str]", "DriverActor.logger": "any", "Driver.workers": "list[any]",
                 "ChildActorExited.childAddress": "any", "PoisonMessage.details": "any"})
DA_EXT = dict(ACTOR_EXT, **{"self.driver.close": dict(event="close")})


def forward(cls, method, fields, target_field, ext, extra_events=0, pre=()):
    """receiveMsg_X(self, msg, sender): the SAME message object is forwarded exactly once to the parent"""
    q = extra_events
    return dict(
        target=f"{cls[0]}::{cls[1]}.{method}",
        prop="C09",
        self_type=f"obj[{cls[1]}]",
        params={"msg": "any", "sender": "any"},
        fields=fields,
        externals=ext,
        requires=list(pre),
        ensures=[f"nev() == {q + 1} and evk({q}) == 'send' and eva({q}, 1, 'any') == self.{target_field} and eva({q}, 2, 'any') == msg"],
        cover=["return"],
    )


DRV = ("esrally/driver/driver.py", "DriverActor")
DA_FAIL = forward(DRV, "receiveMsg_BenchmarkFailure", DA, "benchmark_actor", DA_EXT, 1)
DA_CANCEL = forward(DRV, "receiveMsg_BenchmarkCancelled", DA, "benchmark_actor", DA_EXT, 1)
DA_POISON = dict(
    target="esrally/driver/driver.py::DriverActor.receiveMsg_PoisonMessage",
    prop="C09",
    self_type="obj[DriverActor]",
    params={"poisonmsg": "obj[PoisonMessage]", "sender": "any"},
    fields=DA,
    externals=DA_EXT,
    ensures=[f"nev() == 2 and evk(1) == 'send' and eva(1, 1, 'any') == self.benchmark_actor and {IS_FAIL.format(q=1)}"],
    cover=["return"],
)
DA_CHILD = dict(
    target="esrally/driver/driver.py::DriverActor.receiveMsg_ChildActorExited",
    prop="C09",
    self_type="obj[DriverActor]",
    params={"msg": "obj[ChildActorExited]", "sender": "any"},
    fields=DA,
    externals=dict(DA_EXT, **{"self.driver.workers.index": dict(returns="int", ensures=["0 <= result and result < len(a0) and a0[result] == a1"], recv_arg=True, pure=True)}),
    ensures=[
        # a worker (ANY worker, index 0 included) that dies while the race is not being shut down is reported as exactly one benchmark failure
        f"implies(exists(lambda j: 0 <= j and j < len(self.driver.workers) and self.driver.workers[j] == msg.childAddress) and (isnone(self.status) or self.status != 'exiting'), "
        f"nev() == 1 and evk(0) == 'send' and eva(0, 1, 'any') == self.benchmark_actor and {IS_FAIL.format(q=0)})",
        "implies(not exists(lambda j: 0 <= j and j < len(self.driver.workers) and self.driver.workers[j] == msg.childAddress) or self.status == 'exiting', nev() == 0)",
    ],
    cover=["return"],
)

RC = "esrally/racecontrol.py"
BA = dict(BF, **{"BenchmarkActor.start_sender": "any", "BenchmarkActor.coordinator": "opt[obj[BenchmarkCoordinator]]", "BenchmarkActor.mechanic": "any", "BenchmarkActor.main_driver": "any", "BenchmarkActor.logger": "any",
                 "BenchmarkCoordinator.cancelled": "bool", "BenchmarkCoordinator.error": "bool", "BenchmarkCoordinator.metrics_store": "any", "BenchmarkCoordinator.race": "any",
                 "BenchmarkCoordinator.race_store": "any", "BenchmarkCoordinator.cfg": "any", "BenchmarkCoordinator.logger": "any"})
BA_FAIL = dict(
    target=f"{RC}::BenchmarkActor.receiveMsg_BenchmarkFailure",
    prop="C09",
    self_type="obj[BenchmarkActor]",
    params={"msg": "any", "sender": "any"},
    fields=BA,
    externals=ACTOR_EXT,
    requires=["not isnone(self.coordinator)"],
    # the coordinator is told (so that no results are stored) and race control gets the same message
    ensures=["self.coordinator.error and self.coordinator.cancelled == old(self.coordinator.cancelled)", "nev() == 1 and evk(0) == 'send' and eva(0, 1, 'any') == self.start_sender and eva(0, 2, 'any') == msg"],
    cover=["return"],
)
BA_CANCEL = dict(
    target=f"{RC}::BenchmarkActor.receiveMsg_BenchmarkCancelled",
    prop="C09",
    self_type="obj[BenchmarkActor]",
    params={"msg": "any", "sender": "any"},
    fields=BA,
    externals=ACTOR_EXT,
    requires=["not isnone(self.coordinator)"],
    ensures=["self.coordinator.cancelled and self.coordinator.error == old(self.coordinator.error)", "nev() == 1 and evk(0) == 'send' and eva(0, 1, 'any') == self.start_sender and eva(0, 2, 'any') == msg"],
    cover=["return"],
)
BA_POISON = dict(
    target=f"{RC}::BenchmarkActor.receiveMsg_PoisonMessage",
    prop="C09",
    self_type="obj[BenchmarkActor]",
    params={"msg": "any", "sender": "any"},
    fields=BA,
    externals=ACTOR_EXT,
    ensures=["implies(not isnone(self.coordinator), self.coordinator.error)", "nev() == 1 and evk(0) == 'send' and eva(0, 1, 'any') == self.start_sender and eva(0, 2, 'any') == msg"],
    cover=["return"],
)
ON_COMPLETE = dict(
    target=f"{RC}::BenchmarkCoordinator.on_benchmark_complete",
    prop="C09",
    self_type="obj[BenchmarkCoordinator]",
    params={"new_metrics": "any"},
    fields=BA,
    externals={
        "self.metrics_store.bulk_add": dict(event="bulk_add"),
        "self.metrics_store.flush": dict(event="flush"),
        "metrics.calculate_results": dict(event="calculate_results", returns="any"),
        "self.race.add_results": dict(event="add_results"),
        "self.race_store.store_race": dict(event="store_race"),
        "metrics.results_store": dict(returns="any"),
        "*.store_results": dict(event="store_results"),
        "reporter.summarize": dict(event="summarize"),
        "self.metrics_store.close": dict(event="close"),
    },
    ensures=[
        # final results are computed, stored and printed iff the race was neither cancelled nor failed
        "implies(self.cancelled or self.error, nev() == 3 and evk(0) == 'bulk_add' and evk(1) == 'flush' and evk(2) == 'close')",
        "implies(not self.cancelled and not self.error, nev() == 8 and evk(2) == 'calculate_results' and evk(3) == 'add_results' and evk(4) == 'store_race' and evk(5) == 'store_results' and evk(6) == 'summarize' and evk(7) == 'close')",
        "forall(lambda q: implies(0 <= q and q < nev() and (self.cancelled or self.error), evk(q) != 'store_race' and evk(q) != 'store_results' and evk(q) != 'summarize' and evk(q) != 'calculate_results'))",
    ],
    cover=["return"],
)

# ------------------------------------------------------------------------------------------------ execute_single: a failed request is an error under on-error=abort
ES_ERR = {"elasticsearch.TransportError.errors": "any", "elasticsearch.TransportError.message": "any", "elasticsearch.ApiError.body": "any", "elasticsearch.ApiError.error": "any",
          "elasticsearch.ApiError.info": "any", "elasticsearch.ApiError.status_code": "any"}
RUNNER = {
    "with": "transparent", "with_plain": True, "event": "run",
    "outcomes": [
        # the usual case: a dict of request meta-data, with or without "success" (ghost: what the runner itself reported)
        dict(returns="dict[str,any]", tag="dict", ghost_update=[("$reported", "has(result, 'success')"), ("$succ", "result['success'] if has(result, 'success') else None")]),
        dict(returns="tuple[any,any]", tag="tuple"),           # (weight, unit)
        dict(returns="none", tag="other"),
        dict(raises="elasticsearch.ConnectionError", tag="conn"),
        dict(raises="elasticsearch.ConnectionTimeout", tag="timeout"),
        dict(raises="elasticsearch.TransportError", tag="transport"),
        dict(raises="elasticsearch.ApiError", tag="api"),
        dict(raises="KeyError", tag="keyerror"),
        dict(raises="ValueError", tag="valueerror"),
    ],
}
RET = "eva(0, 0, 'dict[str,any]')"
EXEC_SINGLE = dict(
    target="esrally/driver/driver.py::execute_single",
    prop="C09",
    params={"runner": "any", "es": "any", "params": "any", "on_error": "str"},
    fields=ES_ERR,
    externals={
        "runner": RUNNER,
        "hasattr": dict(returns="bool", pure=True, uf="hasattr_uf"),
        "*.decode": dict(returns="any"),
        "*.read": dict(returns="any"),
        "str": dict(returns="str", pure=True, uf="str_of_any"),
        "list": dict(returns="any"),
        "params.keys": dict(returns="any"),
    },
    locals={"error_message": "any", "request_meta_data": "dict[str,any]", "total_ops": "any", "total_ops_unit": "any"},
    returns="tuple[any,any,dict[str,any]]",
    ensures=[
        # a normal return under on-error=abort means the request SUCCEEDED: the runner returned, and if it reported a "success" flag that flag is true
        "nev() == 1",
        "implies(on_error == 'abort', evk(0) == 'run')",
        "implies(on_error == 'abort' and tag('dict') and $reported, bool($succ))",
        # the meta-data handed to the sampler carries the runner's own verdict (true only if the runner did not say otherwise)
        "has(result[2], 'success')",
        "implies(tag('dict') and $reported, bool(result[2]['success']) == bool($succ))",
        "implies(tag('dict') and not $reported, bool(result[2]['success']))",
        "implies(evk(0) == 'run!', not bool(result[2]['success']))",
        # a refused connection is fatal whatever on-error says
        "not tag('conn')",
    ],
    ghost_state={"$reported": "bool", "$succ": "any"},
    raises={
        "RallyAssertionError": dict(ensures=["tag('conn') or on_error == 'abort'", "implies(tag('dict'), $reported and not bool($succ))", "not tag('tuple') and not tag('other')"]),
        "SystemSetupError": dict(ensures=["tag('keyerror')"]),
        "ValueError": dict(ensures=["tag('valueerror')"]),
    },
    cover=["return", "raise:RallyAssertionError", "raise:SystemSetupError"],
)

CONTRACTS = [EXEC_SINGLE, GUARD, DA_FAIL, DA_CANCEL, DA_POISON, DA_CHILD, BA_FAIL, BA_CANCEL, BA_POISON, ON_COMPLETE]
ASSUMPTIONS = ["thespian delivers each message once and runs handlers atomically; send only appends a ghost event", "the wrapped handler f of no_retry.guard has the outcomes: returns a value, raises an Exception, raises a non-Exception BaseException (KeyboardInterrupt as representative)"]
NOT_DECIDED = ["'in bounded time' / hang freedom and the interleaving quantifier (outside this family)", "Worker / TaskExecutionActor / TrackPreparationActor forwarding and racecontrol.race() (not yet under contract in this revision)"]
TRUSTED = []


def extra_checks(runner, ev):
    """Call-site obligation (syntactic, on the real AST): in AsyncIoAdapter.run the clients' coroutines are awaited with asyncio.gather WITHOUT
    return_exceptions and the surrounding try statement has no except clause -- so an exception of any client (on-error=abort, fatal connection
    error, parameter source / runner raising) propagates out of run() into the worker's executor future."""
    import ast
    import json
    import os

    from pyvc.extract import RepoIndex

    m, fn = RepoIndex().locate("esrally/driver/driver.py::AsyncIoAdapter.run")
    bad, found = [], 0
    for node in ast.walk(fn):
        if isinstance(node, ast.Try):
            calls = [c for b in node.body for c in ast.walk(b) if isinstance(c, ast.Call) and ast.unparse(c.func) == "asyncio.gather"]
            for c in calls:
                found += 1
                for kw in c.keywords:
                    if kw.arg == "return_exceptions" and not (isinstance(kw.value, ast.Constant) and kw.value.value is False):
                        bad.append({"line": c.lineno, "problem": "asyncio.gather(.., return_exceptions=...) collects client exceptions instead of raising them", "call": ast.unparse(c)})
                if node.handlers:
                    bad.append({"line": node.lineno, "problem": "the try statement around asyncio.gather has except clauses: " + ", ".join(ast.unparse(h.type) if h.type else "bare" for h in node.handlers)})
    gathers = [c for c in ast.walk(fn) if isinstance(c, ast.Call) and ast.unparse(c.func) == "asyncio.gather"]
    for c in gathers:
        if not any(isinstance(p_, ast.Await) and p_.value is c for p_ in ast.walk(fn)):
            bad.append({"line": c.lineno, "problem": "asyncio.gather(..) is not awaited"})
    cov = ev["coverage"]
    cov["call_site_obligations"] = {"asyncio.gather in AsyncIoAdapter.run": found, "failed": bad}
    cov["obligations"] += 1
    cov["discharged"] += 0 if bad else 1
    if not gathers:
        cov["undecided_now"].append({"function": "AsyncIoAdapter.run", "kind": "vacuity", "detail": "no asyncio.gather call found"})
        return 2
    if bad:
        outdir = os.path.join(os.path.dirname(os.path.dirname(os.path.abspath(__file__))), "out", "C09")
        os.makedirs(outdir, exist_ok=True)
        path = os.path.join(outdir, "client_exceptions_propagate.json")
        json.dump({"property": "C09", "obligation": "C09/AsyncIoAdapter.run/client-exceptions-propagate", "target": "esrally/driver/driver.py::AsyncIoAdapter.run", "failed": bad,
                   "verifier": "syntactic call-site obligation on the real AST"}, open(path, "w"), indent=1)
        print(f"VIOLATION property=C09 replay={path} no-failing-input-found")
        ev["violations"] += len(bad)
        return 1
    return 0

