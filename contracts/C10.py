"""C10 — a loaded track is exactly what the file says; invalid tracks are rejected (semantic construction and rule checks)."""
import json
import os
import subprocess

SPEC = ("rec{?operation:any,?schedule:any,?name:str,?tags:any,?meta:any,?warmup-iterations:int,?iterations:int,?warmup-time-period:real,?time-period:real,"
        "?ramp-up-time-period:real,?clients:int}")
TASK = {
    "Task.name": "str", "Task.operation": "obj[Operation]", "Task.tags": "any", "Task.meta_data": "any", "Task.warmup_iterations": "opt[int]", "Task.iterations": "opt[int]",
    "Task.warmup_time_period": "opt[real]", "Task.time_period": "opt[real]", "Task.ramp_up_time_period": "opt[real]", "Task.clients": "int", "Task.completes_parent": "bool",
    "Task.any_completes_parent": "bool", "Task.schedule": "any", "Task.params": "any", "Operation.name": "str", "TrackSpecificationReader.name": "str",
}
R_EXT = dict(kind="rec_get", raises="TrackSyntaxError")
TASK_CTOR = dict(
    returns="obj[Task]",
    # track.Task(...) stores its keyword arguments (its tag normalisation is proved under C11)
    ensures=["result.name == kw_name and ref(result.operation) == ref(kw_operation)",
             "isnone(result.warmup_iterations) == isnone(kw_warmup_iterations) and implies(not isnone(kw_warmup_iterations), result.warmup_iterations == kw_warmup_iterations)",
             "isnone(result.iterations) == isnone(kw_iterations) and implies(not isnone(kw_iterations), result.iterations == kw_iterations)",
             "isnone(result.warmup_time_period) == isnone(kw_warmup_time_period) and implies(not isnone(kw_warmup_time_period), result.warmup_time_period == kw_warmup_time_period)",
             "isnone(result.time_period) == isnone(kw_time_period) and implies(not isnone(kw_time_period), result.time_period == kw_time_period)",
             "isnone(result.ramp_up_time_period) == isnone(kw_ramp_up_time_period) and implies(not isnone(kw_ramp_up_time_period), result.ramp_up_time_period == kw_ramp_up_time_period)",
             "result.clients == kw_clients and result.completes_parent == kw_completes_parent and result.any_completes_parent == kw_any_completes_parent"],
)


def eff(key, dflt):
    """effective value of a task property: the spec entry if present, else the enclosing parallel element's default"""
    return f"(task_spec['{key}'] if has(task_spec, '{key}') else {dflt})"


def eff_none(key, dflt):
    return f"(not has(task_spec, '{key}') and isnone({dflt}))"


WI, IT, WT, TP, RU = (eff("warmup-iterations", "default_warmup_iterations"), eff("iterations", "default_iterations"), eff("warmup-time-period", "default_warmup_time_period"),
                      eff("time-period", "default_time_period"), eff("ramp-up-time-period", "default_ramp_up_time_period"))
WI_N, IT_N, WT_N, TP_N, RU_N = (eff_none("warmup-iterations", "default_warmup_iterations"), eff_none("iterations", "default_iterations"),
                                eff_none("warmup-time-period", "default_warmup_time_period"), eff_none("time-period", "default_time_period"),
                                eff_none("ramp-up-time-period", "default_ramp_up_time_period"))
# the documented rules: no mixing of iterations with time periods, ramp-up needs a sufficient warm-up time period
RULES_VIOLATED = (f"(not has(task_spec, 'operation') or (not {WI_N} and not {TP_N}) or (not {WT_N} and not {IT_N}) or ((not {WI_N} or not {IT_N}) and not {RU_N}) "
                  f"or (not {RU_N} and ({WT_N} or {WT} < {RU})))")
PARSE_TASK = dict(
    target="esrally/track/loader.py::TrackSpecificationReader.parse_task",
    prop="C10",
    self_type="obj[TrackSpecificationReader]",
    params={"task_spec": SPEC, "ops": "dict[any,obj[Operation]]", "challenge_name": "str", "default_warmup_iterations": "opt[int]", "default_iterations": "opt[int]",
            "default_warmup_time_period": "opt[real]", "default_time_period": "opt[real]", "default_ramp_up_time_period": "opt[real]", "completed_by_name": "opt[str]"},
    fields=TASK,
    externals={
        "self._r": R_EXT,
        "self.parse_operation": dict(returns="obj[Operation]"),
        "isinstance": dict(uf="isinst", returns="bool", pure=True),
        "track.Task": TASK_CTOR,
    },
    returns="obj[Task]",
    ensures=[
        f"not {RULES_VIOLATED}",
        # every property is the spec entry if present, else the parallel element's default, else the documented default
        f"isnone(result.warmup_iterations) == {WI_N} and implies(not {WI_N}, result.warmup_iterations == {WI})",
        f"isnone(result.iterations) == {IT_N} and implies(not {IT_N}, result.iterations == {IT})",
        f"isnone(result.warmup_time_period) == {WT_N} and implies(not {WT_N}, result.warmup_time_period == {WT})",
        f"isnone(result.time_period) == {TP_N} and implies(not {TP_N}, result.time_period == {TP})",
        f"isnone(result.ramp_up_time_period) == {RU_N} and implies(not {RU_N}, result.ramp_up_time_period == {RU})",
        "result.clients == (task_spec['clients'] if has(task_spec, 'clients') else 1)",
        "result.name == (task_spec['name'] if has(task_spec, 'name') else result.operation.name)",
        # completed-by flags
        "result.completes_parent == (not isnone(completed_by_name) and result.name == completed_by_name) and result.any_completes_parent == (not isnone(completed_by_name) and completed_by_name == 'any')",
    ],
    raises={"TrackSyntaxError": dict(ensures=[RULES_VIOLATED])},
    cover=["return", "raise:TrackSyntaxError"],
)

CONTRACTS = [PARSE_TASK]
ASSUMPTIONS = ["jsonschema.validate, Jinja rendering and json.loads are third-party engines (assumed); task specs are records with the documented optional keys", "`_r(root, key, ..)` on a record is the record lookup with default / TrackSyntaxError when mandatory"]
NOT_DECIDED = ["template parameter substitution and include expansion (Jinja): covered only by the bounded stand-in", "schema validation"]
BOUNDED = []
TRUSTED = []


def extra_checks(runner, ev):
    """BOUNDED stand-in (never counted as proved): small track specifications and template trees through the REAL loader:
    fidelity of the loaded model and rejection of every single-rule violation."""
    from pyvc.extract import repo_root
    from pyvc.run import VERIF

    outdir = os.path.join(VERIF, "out", "C10")
    os.makedirs(outdir, exist_ok=True)
    res_path = os.path.join(outdir, "bounded_loader.json")
    env = dict(os.environ, PYTHONPATH=repo_root() + os.pathsep + VERIF)
    p = subprocess.run(["/venv/bin/python", os.path.join(VERIF, "bounded", "C10_loader.py"), res_path], capture_output=True, text=True, env=env, timeout=1200)
    cov = ev["coverage"]
    if p.returncode not in (0, 1) or not os.path.exists(res_path):
        cov["undecided_now"].append({"function": "track loader (bounded)", "kind": "checker-error", "detail": (p.stdout + p.stderr)[-400:]})
        return 3
    r = json.load(open(res_path))
    cov["bounded"] = [{"name": "TrackSpecificationReader / TrackFileReader / TemplateSource on generated tracks", "bound": r["bound"], "cases": r["cases"], "distinct_nontrivial": r["nontrivial"],
                       "violations": len(r["violations"]), "label": "bounded, not proved"}]
    if r["violations"]:
        path = os.path.join(outdir, "bounded_violation.json")
        json.dump({"property": "C10", "obligation": "C10/loader/bounded", "target": "esrally/track/loader.py", "case": r["violations"][0], "verifier": "bounded enumeration on the real code (stand-in, not a proof)"},
                  open(path, "w"), indent=1)
        print(f"VIOLATION property=C10 replay={path}")
        ev["violations"] += 1
        return 1
    return 0
