"""C11 — task filters keep exactly the selected tasks and leave a runnable track."""
import json
import os
import subprocess

TASK_FIELDS = {"Task.name": "str", "Task.tags": "list[str]", "Task.operation": "obj[Operation]", "Operation.type": "str", "Operation.name": "str", "Task.nested": "bool", "Task.meta_data": "any", "Task.params": "any",
               "Task.warmup_iterations": "any", "Task.iterations": "any", "Task.warmup_time_period": "any", "Task.time_period": "any", "Task.ramp_up_time_period": "any",
               "Task.clients": "any", "Task.completes_parent": "any", "Task.any_completes_parent": "any", "Task.schedule": "any"}

NAME_F = dict(
    target="esrally/track/track.py::TaskNameFilter.matches",
    prop="C11",
    self_type="obj[TaskNameFilter]",
    params={"task": "obj[Task]"},
    fields=dict(TASK_FIELDS, **{"TaskNameFilter.name": "str"}),
    ensures=["result == (self.name == task.name)"],
    cover=["return"],
)
TYPE_F = dict(
    target="esrally/track/track.py::TaskOpTypeFilter.matches",
    prop="C11",
    self_type="obj[TaskOpTypeFilter]",
    params={"task": "obj[Task]"},
    fields=dict(TASK_FIELDS, **{"TaskOpTypeFilter.op_type": "str"}),
    ensures=["result == (self.op_type == task.operation.type)"],
    cover=["return"],
)
TAG_F = dict(
    target="esrally/track/track.py::TaskTagFilter.matches",
    prop="C11",
    self_type="obj[TaskTagFilter]",
    params={"task": "obj[Task]"},
    fields=dict(TASK_FIELDS, **{"TaskTagFilter.tag_name": "str"}),
    # a tag filter matches iff the tag is ONE OF the task's tags (list membership, not substring)
    ensures=["result == exists(lambda k: 0 <= k and k < len(task.tags) and task.tags[k] == self.tag_name)"],
    cover=["return"],
)


def task_init(tags_type, ensures):
    return dict(
        target="esrally/track/track.py::Task.__init__",
        prop="C11",
        self_type="obj[Task]",
        params=dict(name="str", operation="obj[Operation]", tags=tags_type, meta_data="any", warmup_iterations="any", iterations="any", warmup_time_period="any",
                    time_period="any", ramp_up_time_period="any", clients="any", completes_parent="any", any_completes_parent="any", schedule="any", params="any"),
        fields=TASK_FIELDS,
        ensures=ensures + ["self.name == name and ref(self.operation) == ref(operation)"],
        cover=["return"],
        variant=tags_type,
    )


# the tags of a task are always a LIST of tag names, whatever form the track file used
INIT_STR = task_init("str", ["len(self.tags) == 1 and self.tags[0] == tags"])
INIT_LIST = task_init("list[str]", ["implies(len(tags) > 0, ref(self.tags) == ref(tags))", "implies(len(tags) == 0, len(self.tags) == 0)"])
INIT_NONE = task_init("none", ["len(self.tags) == 0"])

PAR_MATCHES = dict(
    target="esrally/track/track.py::Parallel.matches",
    prop="C11",
    self_type="obj[Parallel]",
    params={"task_filter": "any"},
    fields={"Parallel.tasks": "list[obj[Task]]"},
    externals={"task.matches": dict(uf="MATCH", returns="bool", pure=True, event_recv=True, recv_arg=True)},
    loops={0: dict(inv=["forall(lambda k: implies(0 <= k and k < _i, not MATCH(self.tasks[k], task_filter)))"])},
    opaque={"MATCH": dict(names=["t", "f"], args=["obj[Task]", "any"], ret="bool")},
    # a parallel element matches iff any of its sub-tasks matches
    ensures=["result == exists(lambda k: 0 <= k and k < len(self.tasks) and MATCH(self.tasks[k], task_filter))"],
    cover=["return"],
)

FOM = dict(
    target="esrally/track/loader.py::TaskFilterTrackProcessor._filter_out_match",
    prop="C11",
    self_type="obj[TaskFilterTrackProcessor]",
    params={"task": "any"},
    fields={"TaskFilterTrackProcessor.filters": "list[any]", "TaskFilterTrackProcessor.exclude": "bool"},
    externals={
        "task.matches": dict(uf="MATCHA", returns="bool", pure=True, recv_arg=True),
        "hasattr": dict(uf="HASATTR", returns="bool", pure=True),
    },
    opaque={"MATCHA": dict(names=["t", "f"], args=["any", "any"], ret="bool"), "HASATTR": dict(names=["t", "a"], args=["any", "str"], ret="bool")},
    macros={"SEL": dict(names=["self", "task"], body="exists(lambda k: 0 <= k and k < len(self.filters) and MATCHA(task, self.filters[k]))")},
    loops={0: dict(inv=["forall(lambda k: implies(0 <= k and k < _i, not MATCHA(task, self.filters[k])))"])},
    ensures=[
        # include mode: an element is filtered out iff no filter selects it
        "implies(not self.exclude, result == (not SEL(self, task)))",
        # exclude mode: a LEAF is filtered out iff some filter selects it; a parallel element is never dropped as a whole (its leaves are examined one by one)
        "implies(self.exclude and not HASATTR(task, 'tasks'), result == SEL(self, task))",
        "implies(self.exclude and HASATTR(task, 'tasks'), result == False)",
    ],
    cover=["return"],
)

CONTRACTS = [NAME_F, TYPE_F, TAG_F, INIT_STR, INIT_LIST, INIT_NONE, PAR_MATCHES, FOM]
ASSUMPTIONS = ["task.matches(filter) is an uninterpreted predicate in _filter_out_match / Parallel.matches (its three implementations are under contract separately)"]
NOT_DECIDED = ["the end-to-end race on the filtered track", "filter parsing (_filters_from_filtered_tasks: str.split semantics) is covered only by the bounded stand-in"]
BOUNDED = []
TRUSTED = []


def extra_checks(runner, ev):
    """BOUNDED stand-in (never counted as proved) for TaskFilterTrackProcessor.on_after_load_track + filter parsing: exhaustive enumeration of
    small schedules x filter lists on the REAL code under /venv against the property statement."""
    from pyvc.extract import repo_root
    from pyvc.run import VERIF, load_known_findings

    outdir = os.path.join(VERIF, "out", "C11")
    os.makedirs(outdir, exist_ok=True)
    res_path = os.path.join(outdir, "bounded_filters.json")
    env = dict(os.environ, PYTHONPATH=repo_root() + os.pathsep + VERIF)
    p = subprocess.run(["/venv/bin/python", os.path.join(VERIF, "bounded", "C11_filters.py"), res_path], capture_output=True, text=True, env=env, timeout=900)
    cov = ev["coverage"]
    if p.returncode not in (0, 1) or not os.path.exists(res_path):
        cov["undecided_now"].append({"function": "on_after_load_track (bounded)", "kind": "checker-error", "detail": (p.stdout + p.stderr)[-400:]})
        return 3
    r = json.load(open(res_path))
    cov["bounded"] = [{"name": "TaskFilterTrackProcessor.on_after_load_track + _filters_from_filtered_tasks", "bound": r["bound"], "cases": r["cases"], "distinct_nontrivial": r["nontrivial"], "violations": len(r["violations"]), "label": "bounded, not proved"}]
    if r["violations"]:
        v = r["violations"][0]
        path = os.path.join(outdir, "bounded_violation.json")
        json.dump({"property": "C11", "obligation": "C11/on_after_load_track/bounded", "target": "esrally/track/loader.py::TaskFilterTrackProcessor.on_after_load_track", "case": v,
                   "verifier": "bounded enumeration on the real code (stand-in, not a proof)"}, open(path, "w"), indent=1)
        print(f"VIOLATION property=C11 replay={path}")
        ev["violations"] += 1
        return 1
    return 0
