"""C12 — cluster engine start/stop is all-or-nothing across hosts and reports failures (handler-local guarantees)."""

ACTOR_EXT = {
    "self.send": dict(event="send"),
    "self.createActor": dict(event="createActor", returns="any", ensures=["not isnone(result)"]),
    "self.wakeupAfter": dict(event="wakeupAfter"),
    "self.notifyOnSystemRegistrationChanges": dict(event="notify"),
    "console.info": dict(drop=True),
    "thespian.actors.ActorExitRequest": dict(returns="any", ensures=["not isnone(result)"]),
}
RA = {"BenchmarkFailure.message": "any", "BenchmarkFailure.cause": "any", "RallyActor.children": "list[any]", "RallyActor.received_responses": "list[any]", "RallyActor.status": "opt[str]", "RallyActor.logger": "any"}

# ---- counting acknowledgements before a transition
TWACR = dict(
    target="esrally/actor.py::RallyActor.transition_when_all_children_responded",
    prop="C12",
    self_type="obj[RallyActor]",
    params={"sender": "any", "msg": "any", "expected_status": "str", "new_status": "str", "transition": "any"},
    fields=RA,
    externals={"transition": dict(event="transition")},
    requires=["expected_status != '' and ref(self.children) != ref(self.received_responses)"],
    ensures=[
        # the transition happens exactly when this acknowledgement completes the set: one ack per child
        "implies(old(len(self.received_responses)) + 1 == len(self.children), nev() == 1 and evk(0) == 'transition' and self.status == new_status and len(self.received_responses) == 0)",
        "implies(old(len(self.received_responses)) + 1 < len(self.children), nev() == 0 and self.status == old(self.status) and len(self.received_responses) == old(len(self.received_responses)) + 1 "
        "and self.received_responses[len(self.received_responses) - 1] == msg)",
        "len(self.children) == old(len(self.children))",
    ],
    raises={"RallyAssertionError": dict(ensures=["nev() == 0", "old(self.status) != expected_status or old(len(self.received_responses)) + 1 > len(self.children)"])},
    modifies=["self", "self.received_responses"],
    emits=True,
    cover=["return", "raise:RallyAssertionError"],
)

MA = dict(
    RA,
    **{
        "MechanicActor.race_control": "any", "MechanicActor.cfg": "any", "MechanicActor.car": "any", "MechanicActor.team_revision": "any", "MechanicActor.externally_provisioned": "bool",
        "MechanicActor.cluster_launcher": "any", "MechanicActor.cluster": "any",
        "StartEngine.cfg": "any", "StartEngine.external": "bool", "StartEngine.hosts": "any", "EngineStarted.team_revision": "any",
    },
)
OPAQUE_HOSTS = {"NBH": dict(names=["h"], args=["any"], ret="any"), "TIP": dict(names=["h"], args=["any"], ret="any"), "any_len": dict(names=["x"], args=["any"], ret="int")}
MA_START = dict(
    target="esrally/mechanic/mechanic.py::MechanicActor.receiveMsg_StartEngine",
    prop="C12",
    self_type="obj[MechanicActor]",
    params={"msg": "obj[StartEngine]", "sender": "any"},
    fields=MA,
    opaque=OPAQUE_HOSTS,
    externals=dict(
        ACTOR_EXT,
        **{
            "load_team": dict(returns="tuple[any,any]"),
            "self.cfg.opts": dict(uf="cfgopts", returns="any", pure=True, recv_arg=True),
            "to_ip_port": dict(uf="TIP", returns="any", pure=True),
            "nodes_by_host": dict(uf="NBH", returns="any", pure=True),
            "extract_all_node_ips": dict(uf="EIPS", returns="any", pure=True),
            "extract_all_node_ids": dict(uf="EIDS", returns="any", pure=True),
        },
    ),
    requires=["not isnone(msg.cfg) and not isnone(sender)"],
    ensures=[
        "self.race_control == sender",
        # an externally provisioned cluster is never started: no Dispatcher, race control is told at once
        "implies(msg.external, nev() == 1 and evk(0) == 'send' and eva(0, 1, 'any') == sender and clsof(eva(0, 2, 'obj[EngineStarted]')) == 'cls:EngineStarted' and self.status == 'cluster_started' and self.externally_provisioned)",
        # otherwise: one acknowledgement slot per TARGET HOST (distinct ip:port), one Dispatcher gets the start message, nothing is reported yet
        "implies(not msg.external, len(self.children) == any_len(NBH(TIP(msg.hosts))) and nev() == 2 and evk(0) == 'createActor' and eva(0, 1, 'any') == 'cls:Dispatcher' "
        "and evk(1) == 'send' and eva(1, 1, 'any') == eva(0, 0, 'any') and ref(eva(1, 2, 'obj[StartEngine]')) == ref(msg) and self.status == 'starting' and len(self.received_responses) == 0 and not self.externally_provisioned)",
    ],
    raises={"LaunchError": dict(ensures=["nev() == 0"]), "AssertionError": dict(ensures=["False"])},
    cover=["return", "raise:LaunchError"],
)
MA_ON_STARTED = dict(
    target="esrally/mechanic/mechanic.py::MechanicActor.on_all_nodes_started",
    prop="C12",
    self_type="obj[MechanicActor]",
    fields=MA,
    externals=ACTOR_EXT,
    ensures=["nev() == 1 and evk(0) == 'send' and eva(0, 1, 'any') == self.race_control and clsof(eva(0, 2, 'obj[EngineStarted]')) == 'cls:EngineStarted'"],
    emits=True,
    cover=["return"],
)
MA_STOP = dict(
    target="esrally/mechanic/mechanic.py::MechanicActor.receiveMsg_StopEngine",
    prop="C12",
    self_type="obj[MechanicActor]",
    params={"msg": "any", "sender": "any"},
    fields=MA,
    ghost={"NC": "list[int]"},  # NC[j] = number of known (non-None) children among the first j slots
    externals=ACTOR_EXT,
    requires=["len(NC) == len(self.children) + 1 and NC[0] == 0 and forall(lambda j: implies(0 <= j and j < len(self.children), NC[j + 1] == NC[j] + (1 if self.children[j] else 0)))",
              # (a consequence of the definition by induction, stated so that the solver need not do the induction)
              "forall(lambda a, b: implies(0 <= a and a <= b and b <= len(self.children), NC[a] <= NC[b]))",
              "ref(NC) != ref(self.children)"],
    loops={
        "send_to_children_and_transition:0": dict(
            inv=["nev() == NC[_i]", "forall(lambda q: implies(0 <= q and q < nev(), evk(q) == 'send' and clsof(eva(q, 2, 'obj[StopNodes]')) == 'cls:StopNodes'))",
                 "forall(lambda j: implies(0 <= j and j < _i and bool(self.children[j]), eva(NC[j], 1, 'any') == self.children[j]))"]
        ),
        "on_all_nodes_stopped:0": dict(inv=["nev() == 1 + _i", "evk(0) == 'send' and eva(0, 1, 'any') == self.race_control and clsof(eva(0, 2, 'obj[EngineStopped]')) == 'cls:EngineStopped'"]),
    },
    ensures=[
        # external cluster: acknowledged at once, never a StopNodes
        "implies(self.externally_provisioned, nev() >= 1 and evk(0) == 'send' and eva(0, 1, 'any') == self.race_control and clsof(eva(0, 2, 'obj[EngineStopped]')) == 'cls:EngineStopped')",
        # provisioned cluster: exactly one StopNodes per known child, in order, and NO acknowledgement yet (it comes from counting NodesStopped)
        "implies(not self.externally_provisioned, nev() == NC[len(self.children)] and self.status == 'cluster_stopping' "
        "and forall(lambda q: implies(0 <= q and q < nev(), evk(q) == 'send' and clsof(eva(q, 2, 'obj[StopNodes]')) == 'cls:StopNodes')) "
        "and forall(lambda j: implies(0 <= j and j < len(self.children) and bool(self.children[j]), eva(NC[j], 1, 'any') == self.children[j])))",
    ],
    cover=["return"],
)
MA_NODES_STARTED = dict(
    target="esrally/mechanic/mechanic.py::MechanicActor.receiveMsg_NodesStarted",
    prop="C12",
    self_type="obj[MechanicActor]",
    params={"msg": "any", "sender": "any"},
    fields=MA,
    externals=dict(ACTOR_EXT, **{"self.children.insert": dict(returns="none", modifies_args=[], drop_children=True)}),
    inline=["RallyActor.is_current_status_expected"],
    requires=["len(self.children) >= 1 and ref(self.children) != ref(self.received_responses) and not isnone(sender)"],
    ensures=[
        # race control hears EngineStarted only with the acknowledgement that completes the set of hosts
        "implies(old(len(self.received_responses)) + 1 < len(self.children), nev() == 0)",
        "implies(old(len(self.received_responses)) + 1 == len(self.children), nev() == 1 and evk(0) == 'transition' and self.status == 'cluster_started')",
        "len(self.children) == old(len(self.children))",
    ],
    raises={"RallyAssertionError": dict(ensures=["nev() == 0"])},
    cover=["return"],
)
MA_FAIL = dict(
    target="esrally/mechanic/mechanic.py::MechanicActor.receiveMsg_BenchmarkFailure",
    prop="C12",
    self_type="obj[MechanicActor]",
    params={"msg": "any", "sender": "any"},
    fields=MA,
    externals=ACTOR_EXT,
    ensures=["nev() == 1 and evk(0) == 'send' and eva(0, 1, 'any') == self.race_control and eva(0, 2, 'any') == msg"],
    cover=["return"],
)

DP = dict(
    RA,
    **{"Dispatcher.start_sender": "any", "Dispatcher.pending": "list[tuple[any,any]]", "Dispatcher.remotes": "dict[any,list[any]]",
       "ConvUpdate.remoteAdded": "bool", "ConvUpdate.remoteAdminAddress": "any", "ConvUpdate.remoteCapabilities": "any"},
)
SEND_ALL = dict(
    target="esrally/mechanic/mechanic.py::Dispatcher.send_all_pending",
    prop="C12",
    self_type="obj[Dispatcher]",
    fields=DP,
    externals=ACTOR_EXT,
    loops={0: dict(inv=["nev() == _i", "forall(lambda q: implies(0 <= q and q < _i, evk(q) == 'send' and eva(q, 1, 'any') == at('L0', self.pending)[q][0] and eva(q, 2, 'any') == at('L0', self.pending)[q][1]))",
                        "ref(self.pending) == ref(at('L0', self.pending))"])},
    ensures=[
        # every pending (actor, start message) pair is sent exactly once, in order; nothing stays pending
        "nev() == old(len(self.pending)) and len(self.pending) == 0",
        "forall(lambda q: implies(0 <= q and q < nev(), evk(q) == 'send' and eva(q, 1, 'any') == old(self.pending)[q][0] and eva(q, 2, 'any') == old(self.pending)[q][1]))",
    ],
    cover=["return"],
)
CONV = dict(
    target="esrally/mechanic/mechanic.py::Dispatcher.receiveMsg_ActorSystemConventionUpdate",
    prop="C12",
    self_type="obj[Dispatcher]",
    params={"convmsg": "obj[ConvUpdate]", "sender": "any"},
    fields=DP,
    externals=ACTOR_EXT,
    any_not_callable=True,
    requires=["implies(convmsg.remoteAdded, has(self.remotes, convmsg.remoteCapabilities.get('ip', None)))", "not isnone(self.start_sender)"],
    loops={
        0: dict(
            modifies_objs=["self.pending"],
            inv=["nev() == _i and len(self.pending) == at('L0', len(self.pending)) + _i and ref(self.pending) == ref(at('L0', self.pending))",
                 "forall(lambda q: implies(0 <= q and q < nev(), evk(q) == 'createActor'))"],
        ),
        "send_all_pending:0": dict(inv=["forall(lambda q: implies(0 <= q and q < nev(), evk(q) != 'send' or eva(q, 1, 'any') != self.start_sender or True))"]),
    },
    ensures=[
        # a remote Rally daemon leaving during start-up is reported to the requester as ONE benchmark failure (instead of hanging)
        "implies(not convmsg.remoteAdded, nev() == 1 and evk(0) == 'send' and eva(0, 1, 'any') == self.start_sender and clsof(eva(0, 2, 'obj[BenchmarkFailure]')) == 'cls:BenchmarkFailure')",
        # a joining daemon: its host is no longer outstanding
        "implies(convmsg.remoteAdded, not has(self.remotes, convmsg.remoteCapabilities.get('ip', None)))",
    ],
    cover=["return"],
)
DP_FAIL = dict(
    target="esrally/mechanic/mechanic.py::Dispatcher.receiveMsg_BenchmarkFailure",
    prop="C12",
    self_type="obj[Dispatcher]",
    params={"msg": "any", "sender": "any"},
    fields=DP,
    externals=ACTOR_EXT,
    ensures=["nev() == 1 and evk(0) == 'send' and eva(0, 1, 'any') == self.start_sender and eva(0, 2, 'any') == msg"],
    cover=["return"],
)

MECH = {"Mechanic.nodes": "list[any]", "Mechanic.node_configs": "list[obj[NodeConfiguration]]", "Mechanic.preserve_install": "bool", "Mechanic.launcher": "any", "Mechanic.metrics_store": "any",
        "Mechanic.cfg": "any", "Mechanic.logger": "any", "NodeConfiguration.binary_path": "str", "NodeConfiguration.data_paths": "any"}
NCFG = "old(self.node_configs)"
STOP_ENGINE = dict(
    target="esrally/mechanic/mechanic.py::Mechanic.stop_engine",
    prop="C12",
    self_type="obj[Mechanic]",
    fields=MECH,
    externals={
        "self.launcher.stop": dict(event="launcher.stop"),
        "self.metrics_store.flush": dict(event="flush", event_kwargs=["refresh"]),
        "self._current_race": dict(outcomes=[dict(returns="any"), dict(raises="NotFound")]),
        "self._add_results": dict(event="results", outcomes=[dict(returns="none"), dict(raises="NotFound")]),
        "self.metrics_store.close": dict(event="close"),
        "provisioner.cleanup": dict(event="cleanup", event_kwargs=["preserve", "install_dir", "data_paths"]),
    },
    requires=["ref(self.nodes) != ref(self.node_configs)"],
    loops={
        0: dict(inv=["nev() >= 2 + _i and nev() <= 2 + 2 * _i", "evk(0) == 'launcher.stop' and evk(1) == 'flush' and eva(1, 1, 'bool')",
                     "forall(lambda q: implies(2 <= q and q < nev(), evk(q) == 'results' or evk(q) == 'results!'))"]),
        1: dict(
            inv=[
                "nev() == at('L1', nev()) + _i and at('L1', nev()) >= 3 and ref(self.node_configs) == ref(at('L1', self.node_configs))",
                "evk(0) == 'launcher.stop' and evk(1) == 'flush' and eva(1, 1, 'bool') and evk(at('L1', nev()) - 1) == 'close'",
                "forall(lambda q: implies(2 <= q and q < at('L1', nev()) - 1, evk(q) == 'results' or evk(q) == 'results!'))",
                "forall(lambda q: implies(0 <= q and q < _i, evk(at('L1', nev()) + q) == 'cleanup' and eva(at('L1', nev()) + q, 1, 'bool') == self.preserve_install "
                "and eva(at('L1', nev()) + q, 2, 'str') == self.node_configs[q].binary_path))",
            ]
        ),
    },
    ensures=[
        # stop, then flush (with refresh) the metrics, then the system results (if the race record is found), then close, then ONE cleanup per node configuration --
        # also when the race record cannot be found
        f"nev() >= 3 + len({NCFG}) and evk(0) == 'launcher.stop' and evk(1) == 'flush' and eva(1, 1, 'bool') and evk(nev() - len({NCFG}) - 1) == 'close'",
        f"forall(lambda q: implies(0 <= q and q < len({NCFG}), evk(nev() - len({NCFG}) + q) == 'cleanup' and eva(nev() - len({NCFG}) + q, 1, 'bool') == self.preserve_install "
        f"and eva(nev() - len({NCFG}) + q, 2, 'str') == {NCFG}[q].binary_path))",
        f"forall(lambda q: implies(2 <= q and q < nev() - len({NCFG}) - 1, evk(q) != 'cleanup' and evk(q) != 'close' and evk(q) != 'launcher.stop'))",
        "len(self.nodes) == 0 and len(self.node_configs) == 0",
    ],
    cover=["return"],
)

def may_fail(**kw):
    return dict(outcomes=[dict(returns=kw.pop("returns", "any")), dict(raises="Exception")], **kw)


NM = dict(RA, **{"NodeMechanicActor.mechanic": "any", "NodeMechanicActor.host": "any",
                 "StartNodes.ip": "any", "StartNodes.external": "bool", "StartNodes.node_ids": "any", "StartNodes.cfg": "any", "StartNodes.open_metrics_context": "any", "StartNodes.port": "any",
                 "StartNodes.all_node_ips": "any", "StartNodes.all_node_ids": "any", "StartNodes.sources": "any", "StartNodes.distribution": "any", "StartNodes.docker": "any"})
START_NODES = dict(
    target="esrally/mechanic/mechanic.py::NodeMechanicActor.receiveMsg_StartNodes",
    prop="C12",
    self_type="obj[NodeMechanicActor]",
    params={"msg": "obj[StartNodes]", "sender": "any"},
    fields=NM,
    opaque={"replyto": dict(names=["m", "n", "d"], args=["obj[StartNodes]", "str", "any"], ret="any")},
    externals=dict(
        ACTOR_EXT,
        **{
            "config.auto_load_local_config": may_fail(),
            "cfg.add": may_fail(returns="none"),
            "paths.rally_root": may_fail(),
            "metrics.metrics_store_class": may_fail(),
            "cls": may_fail(),
            "metrics_store.open": may_fail(returns="none"),
            "create": may_fail(),
            "self.mechanic.start_engine": may_fail(returns="none", event="start_engine"),
            "getattr": dict(uf="replyto", returns="any", pure=True),
            "sys.exc_info": dict(returns="tuple[any,any,any]"),
            "traceback.format_exc": dict(returns="any"),
        },
    ),
    ensures=[
        # exactly ONE reply goes to the requester: NodesStarted after the engine was started once, or a BenchmarkFailure (start failures are reported, never swallowed)
        "exists(lambda q: 0 <= q and q < nev() and evk(q) == 'send' and eva(q, 1, 'any') == replyto(msg, 'reply_to', sender) "
        "and forall(lambda r: implies(0 <= r and r < nev() and r != q, evk(r) != 'send')) "
        "and (clsof(eva(q, 2, 'obj[NodesStarted]')) == 'cls:NodesStarted' or clsof(eva(q, 2, 'obj[BenchmarkFailure]')) == 'cls:BenchmarkFailure') "
        "and implies(clsof(eva(q, 2, 'obj[NodesStarted]')) == 'cls:NodesStarted', exists(lambda r: 0 <= r and r < q and evk(r) == 'start_engine')))",
    ],
    cover=["return"],
)

CONTRACTS = [STOP_ENGINE, START_NODES, TWACR, MA_START, MA_ON_STARTED, MA_STOP, MA_FAIL, SEND_ALL, CONV, DP_FAIL]
ASSUMPTIONS = ["thespian delivers each message once, FIFO per sender/receiver pair, and runs handlers atomically; send/createActor/wakeupAfter only append ghost events", "nodes_by_host(to_ip_port(hosts)) is an uninterpreted function of the host list (its size = number of distinct ip:port targets)"]
NOT_DECIDED = ["orders and delays of acknowledgements; hang freedom when a child never answers (interleaving quantifier: outside this family)"]
TRUSTED = []
