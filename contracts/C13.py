"""C13 — cars compose in order with documented precedence; provisioning mirrors templates."""

VARS = "dict[str,any]"
CAR_FIELDS = {"Car.variables": VARS, "Car.config_paths": "list[str]"}
RALLY_KEYS = ["cluster_name", "node_name", "data_paths", "log_path", "heap_dump_path", "node_ip", "network_host", "http_port", "transport_port", "all_node_ips",
              "all_node_names", "minimum_master_nodes", "install_root_path"]
IS_RALLY = " or ".join(f"k == '{x}'" for x in RALLY_KEYS)

ES_VARS = dict(
    target="esrally/mechanic/provisioner.py::ElasticsearchInstaller.variables",
    prop="C13",
    self_type="obj[ElasticsearchInstaller]",
    fields=dict(
        CAR_FIELDS,
        **{
            "ElasticsearchInstaller.car": "obj[Car]", "ElasticsearchInstaller.node_ip": "str", "ElasticsearchInstaller.cluster_name": "str", "ElasticsearchInstaller.node_name": "str",
            "ElasticsearchInstaller.data_paths": "list[str]", "ElasticsearchInstaller.node_log_dir": "str", "ElasticsearchInstaller.heap_dump_dir": "str",
            "ElasticsearchInstaller.http_port": "int", "ElasticsearchInstaller.all_node_ips": "list[str]", "ElasticsearchInstaller.all_node_names": "list[str]",
            "ElasticsearchInstaller.es_home_path": "str",
        },
    ),
    externals={"'\",\"'.join": dict(uf="strjoin", returns="str", pure=True)},
    locals={"variables": VARS},
    returns=VARS,
    fresh_result=True,
    allocates=True,
    ensures=[
        "ref(result) >= NREF0()",  # a new map on every call (what callers rely on when they update it)
        # Rally's own node variables win over whatever the composed car defines ...
        "has(result, 'cluster_name') and result['cluster_name'] == self.cluster_name and has(result, 'node_name') and result['node_name'] == self.node_name",
        "has(result, 'node_ip') and result['node_ip'] == self.node_ip and has(result, 'network_host') and result['network_host'] == self.node_ip",
        "has(result, 'log_path') and result['log_path'] == self.node_log_dir and has(result, 'heap_dump_path') and result['heap_dump_path'] == self.heap_dump_dir",
        "has(result, 'install_root_path') and result['install_root_path'] == self.es_home_path and has(result, 'data_paths') and ref(result['data_paths']) == ref(self.data_paths)",
        "has(result, 'http_port') and result['http_port'] == str(self.http_port) and has(result, 'transport_port') and result['transport_port'] == str(self.http_port + 100)",
        "has(result, 'all_node_ips') and has(result, 'all_node_names') and has(result, 'minimum_master_nodes')",
        # ... and every other variable is exactly the car's
        f"forall_str(lambda k: implies(not ({IS_RALLY}), has(result, k) == has(self.car.variables, k) and implies(has(result, k), result[k] == self.car.variables[k])))",
        # the car's own variable map is not modified
        "forall_str(lambda k: has(self.car.variables, k) == old(has(self.car.variables, k)))",
    ],
    cover=["return"],
)

DOCKER_KEYS = ["cluster_name", "node_name", "install_root_path", "data_paths", "log_path", "heap_dump_path", "network_host", "discovery_type", "http_port", "transport_port", "cluster_settings"]
IS_DOCKER = " or ".join(f"k == '{x}'" for x in DOCKER_KEYS)
DOCKER_INIT = dict(
    target="esrally/mechanic/provisioner.py::DockerProvisioner.__init__",
    prop="C13",
    self_type="obj[DockerProvisioner]",
    params={"car": "obj[Car]", "node_name": "str", "cluster_name": "str", "ip": "str", "http_port": "int", "node_root_dir": "str", "distribution_version": "any", "rally_root": "any"},
    fields=dict(
        CAR_FIELDS,
        **{
            "DockerProvisioner.car": "obj[Car]", "DockerProvisioner.node_name": "str", "DockerProvisioner.cluster_name": "str", "DockerProvisioner.node_ip": "str", "DockerProvisioner.http_port": "int",
            "DockerProvisioner.node_root_dir": "str", "DockerProvisioner.node_log_dir": "str", "DockerProvisioner.heap_dump_dir": "str", "DockerProvisioner.distribution_version": "any",
            "DockerProvisioner.rally_root": "any", "DockerProvisioner.binary_path": "str", "DockerProvisioner.data_paths": "list[str]", "DockerProvisioner.logger": "any",
            "DockerProvisioner.config_vars": VARS,
        },
    ),
    externals={"os.path.join": dict(uf="pathjoin", returns="str", pure=True, varargs=True), "uuid.uuid4": dict(returns="any")},
    ensures=[
        # Rally's node variables cannot be overridden by the car under Docker either
        "has(self.config_vars, 'cluster_name') and self.config_vars['cluster_name'] == cluster_name and has(self.config_vars, 'node_name') and self.config_vars['node_name'] == node_name",
        "self.config_vars['network_host'] == '0.0.0.0' and self.config_vars['install_root_path'] == '/usr/share/elasticsearch' and self.config_vars['log_path'] == '/var/log/elasticsearch'",
        "self.config_vars['heap_dump_path'] == '/usr/share/elasticsearch/heapdump' and self.config_vars['discovery_type'] == 'single-node'",
        "self.config_vars['http_port'] == str(http_port) and self.config_vars['transport_port'] == str(http_port + 100)",
        "has(self.config_vars, 'data_paths') and has(self.config_vars, 'cluster_settings')",
        f"forall_str(lambda k: implies(not ({IS_DOCKER}), has(self.config_vars, k) == has(car.variables, k) and implies(has(car.variables, k), self.config_vars[k] == car.variables[k])))",
    ],
    cover=["return"],
)

# event k is the check of path p: evk(k) == 'exists'; if the path exists it is followed by exactly one removal attempt of the same path
EXAMINED_THEN_REMOVED = (
    "forall(lambda q: implies(0 <= q and q < nev(), ite(evk(q) == 'exists', "
    "implies(eva(q, 0, 'bool'), q + 1 < nev() and ((evk(q + 1) == 'rmtree' and eva(q + 1, 1, 'str') == eva(q, 1, 'str')) or (evk(q + 1) == 'rmtree!' and eva(q + 1, 2, 'str') == eva(q, 1, 'str')))), "
    "(evk(q) == 'rmtree' or evk(q) == 'rmtree!') and q >= 1 and evk(q - 1) == 'exists' and eva(q - 1, 0, 'bool'))))"
)
CLEANUP = dict(
    target="esrally/mechanic/provisioner.py::cleanup",
    prop="C13",
    params={"preserve": "bool", "install_dir": "str", "data_paths": "list[str]"},
    ghost_state={"$examined": "int", "$last": "str"},
    requires=["$examined == 0"],
    externals={
        # the k-th existence check: ghost counter and the path it looked at
        "os.path.exists": dict(event="exists", returns="bool", ghost_update=[("$examined", "$examined + 1"), ("$last", "a0")]),
        "shutil.rmtree": dict(event="rmtree", outcomes=[dict(returns="none"), dict(raises="OSError")]),
        "console.info": dict(drop=True),
    },
    loops={
        0: dict(
            inv=[
                # every data path visited so far was examined exactly once, in order (one check per iteration, of that iteration's path)
                "$examined == _i and implies(_i > 0, $last == data_paths[_i - 1])",
                "nev() <= 2 * _i",
                EXAMINED_THEN_REMOVED,
                "forall(lambda q: implies(0 <= q and q < nev() and evk(q) == 'exists', exists(lambda j: 0 <= j and j < _i and eva(q, 1, 'str') == data_paths[j])))",
            ]
        )
    },
    ensures=[
        # preserve-install: nothing at all is touched
        "implies(preserve, nev() == 0)",
        # otherwise EVERY data path and then the installation directory is examined (exactly one check each), and whatever exists is removed
        "implies(not preserve, $examined == len(data_paths) + 1 and $last == install_dir)",
        "implies(not preserve, nev() <= 2 * len(data_paths) + 2)",
        EXAMINED_THEN_REMOVED,
        # ... and nothing else is: only the installation directory and the data paths are ever examined / removed
        "forall(lambda q: implies(0 <= q and q < nev() and evk(q) == 'exists', eva(q, 1, 'str') == install_dir or exists(lambda j: 0 <= j and j < len(data_paths) and eva(q, 1, 'str') == data_paths[j])))",
    ],
    cover=["return"],
)

# ------------------------------------------------------------------------------------------------ BareProvisioner._provisioner_variables
NO_PLUGIN = "forall(lambda j: implies(0 <= j and j < len(self.plugin_installers), not has(self.plugin_installers[j].plugin.variables, k)))"
INST = "self.es_installer"
PROV_VARS = dict(
    target="esrally/mechanic/provisioner.py::BareProvisioner._provisioner_variables",
    prop="C13",
    self_type="obj[BareProvisioner]",
    fields=dict(
        ES_VARS["fields"],
        **{
            "BareProvisioner.es_installer": "obj[ElasticsearchInstaller]", "BareProvisioner.plugin_installers": "list[obj[PluginInstaller]]", "BareProvisioner.logger": "any",
            "PluginInstaller.plugin": "obj[PluginDescriptor]", "PluginDescriptor.variables": VARS, "PluginDescriptor.moved_to_module": "bool", "PluginDescriptor.name": "str",
        },
    ),
    externals=ES_VARS["externals"],
    locals={"plugin_variables": VARS, "mandatory_plugins": "list[str]", "cluster_settings": "dict[str,list[str]]", "provisioner_vars": VARS},
    loops={
        0: dict(
            modifies_objs=["plugin_variables", "mandatory_plugins"],
            inv=[
                "ref(plugin_variables) >= NREF0() and ref(mandatory_plugins) >= NREF0()",
                # a key no plugin (so far) defines is not among the plugin variables
                "forall_str(lambda k: implies(forall(lambda j: implies(0 <= j and j < _i, not has(self.plugin_installers[j].plugin.variables, k))), not has(plugin_variables, k)))",
            ],
        )
    },
    returns=VARS,
    ensures=[
        # what templates and install hooks see: Rally's own node variables -- unless a PLUGIN defines the key, nothing (in particular not the car, whose
        # variables went in first) overrides them
        "has(result, 'cluster_settings')",
    ] + [
        f"implies({NO_PLUGIN.replace(', k)', ', ' + repr(key) + ')')}, has(result, '{key}') and {eqn})"
        for key, eqn in [
            ("cluster_name", f"result['cluster_name'] == {INST}.cluster_name"),
            ("node_name", f"result['node_name'] == {INST}.node_name"),
            ("node_ip", f"result['node_ip'] == {INST}.node_ip"),
            ("network_host", f"result['network_host'] == {INST}.node_ip"),
            ("http_port", f"result['http_port'] == str({INST}.http_port)"),
            ("transport_port", f"result['transport_port'] == str({INST}.http_port + 100)"),
            ("log_path", f"result['log_path'] == {INST}.node_log_dir"),
            ("heap_dump_path", f"result['heap_dump_path'] == {INST}.heap_dump_dir"),
            ("install_root_path", f"result['install_root_path'] == {INST}.es_home_path"),
            ("data_paths", f"ref(result['data_paths']) == ref({INST}.data_paths)"),
        ]
    ] + [
        # every other key that no plugin defines is the car's (cluster_settings is Rally's)
        f"forall_str(lambda k: implies(not ({IS_RALLY}) and k != 'cluster_settings' and {NO_PLUGIN}, has(result, k) == has({INST}.car.variables, k) and implies(has(result, k), result[k] == {INST}.car.variables[k])))",
    ],
    cover=["return"],
)

DESC_FIELDS = {"CarDescriptor.name": "str", "CarDescriptor.description": "any", "CarDescriptor.type": "any", "CarDescriptor.root_paths": "list[str]", "CarDescriptor.config_paths": "list[str]",
               "CarDescriptor.config_base_variables": VARS, "CarDescriptor.variables": VARS, "CarLoader.cars_dir": "str", "CarLoader.logger": "any"}
CL_LOAD = dict(
    target="esrally/mechanic/team.py::CarLoader.load_car",
    prop="C13",
    self_type="obj[CarLoader]",
    params={"name": "str", "car_params": f"opt[{VARS}]"},
    fields=DESC_FIELDS,
    opaque={"carfile": dict(names=["n"], args=["str"], ret="str"), "cfgload": dict(names=["f"], args=["str"], ret="any"), "SECHAS": dict(names=["cfg", "sec", "k"], args=["any", "str", "str"], ret="bool"), "SECVAL": dict(names=["cfg", "sec", "k"], args=["any", "str", "str"], ret="any")},
    externals={
        "self._car_file": dict(uf="carfile", returns="str", pure=True),
        "io.exists": dict(returns="bool"),
        "self._config_loader": dict(uf="cfgload", returns="any", pure=True),  # configparser: the parsed file is a function of the file name
        "self._value": dict(returns="any"),
        "config_base.split": dict(returns="list[str]"),
        "os.path.join": dict(uf="pathjoin2", returns="str", pure=True),
        # _copy_section(cfg, section, target): every option of the section is copied into target (assumed here, the helper is a 4-line loop over configparser)
        "self._copy_section": dict(
            returns=VARS,
            ensures=[
                "ref(result) == ref(a2)",
                "forall_str(lambda k: has(result, k) == (old(has(a2, k)) or SECHAS(a0, a1, k)) and implies(SECHAS(a0, a1, k), result[k] == SECVAL(a0, a1, k)) and implies(not SECHAS(a0, a1, k) and old(has(a2, k)), result[k] == old(a2[k])))",
            ],
            modifies_args=[2],
            arg_types={2: VARS},
        ),
        "isinstance": dict(uf="isinst", returns="bool", pure=True),
    },
    locals={"root_paths": "list[str]", "config_paths": "list[str]", "config_base_vars": VARS},
    loops={0: dict(modifies_objs=["root_paths", "config_paths", "config_base_vars"], inv=["ref(root_paths) >= NREF0() and ref(config_paths) >= NREF0() and ref(config_base_vars) >= NREF0()",
                                                                                         "distinct(ref(root_paths), ref(config_paths))"])},
    ensures=[
        # command-line car parameters override the car's own [variables]; everything else comes from the car's [variables] section
        "implies(not isnone(car_params), forall_str(lambda k: implies(has(car_params, k), has(result.variables, k) and result.variables[k] == car_params[k])))",
        "forall_str(lambda k: implies(isnone(car_params) or not has(car_params, k), has(result.variables, k) == SECHAS(cfgload(carfile(name)), 'variables', k) "
        "and implies(has(result.variables, k), result.variables[k] == SECVAL(cfgload(carfile(name)), 'variables', k))))",
        "result.name == name",
    ],
    raises={"SystemSetupError": dict(ensures=["True"]), "AssertionError": dict(ensures=["True"])},
    cover=["return"],
)

# ------------------------------------------------------------------------------------------------ which config files are templates: decided by the file's EXTENSION, compared as a whole
EXTS = [".ini", ".txt", ".json", ".yml", ".yaml", ".options", ".properties"]
PLAIN_TEXT = dict(
    target="esrally/mechanic/provisioner.py::plain_text",
    prop="C13",
    params={"file": "str"},
    opaque={"EXT": dict(names=["f"], args=["str"], ret="str")},
    externals={"io.splitext": dict(returns="tuple[str,str]", pure=True, ensures=["result[1] == EXT(a0)"])},
    returns="bool",
    ensures=["result == (" + " or ".join(f"EXT(file) == '{x}'" for x in EXTS) + ")"],
    cover=["return"],
)

CONTRACTS = [ES_VARS, DOCKER_INIT, CLEANUP, CL_LOAD, PROV_VARS, PLAIN_TEXT]
ASSUMPTIONS = ["str(int), os.path.join and str.join are uninterpreted functions; values of mixed types in variable maps are boxed into an untyped universe (injective embeddings)", "os.path.exists returns an arbitrary bool; shutil.rmtree may raise OSError"]
NOT_DECIDED = ["team.load_car car-order loop, _apply_config template mirroring (os.walk, Jinja) -- not under contract"]
TRUSTED = []
