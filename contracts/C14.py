"""C14 — corpus preparation ends with complete, verified data or an explicit error.

Contracts over a ghost trace of file-system / network events (every os.*, open, download, decompress effect is an event):
  net.download, net.download_http, net._download_http, Downloader.download, Decompressor.decompress,
  DocumentSetPreparator.create_file_offset_table / prepare_document_set / prepare_bundled_document_set.
Bounded stand-ins (real files, labelled bounded): offset table == line-by-line skipping incl. multi-byte content and
interrupted table builds; real archive round trips; real net.download against a faulty local HTTP server.
"""
import json
import os
import subprocess

PE = "urllib3.exceptions.ProtocolError"
RTE = "urllib3.exceptions.ReadTimeoutError"
HTTPE = "urllib.error.HTTPError"
URLE = "urllib.error.URLError"

TMP = "local_path + '.tmp'"

# ------------------------------------------------------------------------------------------------ net.download
def fetch_outcomes(exp_arg):
    # the size a fetcher hands back to verify against is the caller's expected size when there is one (proved below for download_http / _download_http)
    return [dict(returns="opt[int]", ensures=[f"implies({exp_arg} is not None, result is not None and result == {exp_arg})"])] + FETCH_FAILURES


FETCH_FAILURES = [
    dict(raises=HTTPE),
    dict(raises=PE),
    dict(raises="OSError"),
    dict(raises="KeyboardInterrupt"),  # BaseException that is not an Exception: Ctrl-C during the download
]
DOWNLOAD = dict(
    target="esrally/utils/net.py::download",
    prop="C14",
    params={"url": "str", "local_path": "str", "expected_size_in_bytes": "opt[int]", "progress_indicator": "any"},
    fields={"Url.scheme": "str"},
    ghost_state={"$exp": "opt[int]", "$size": "int"},
    externals={
        "urllib3.util.parse_url": dict(returns="obj[Url]"),
        # both fetchers write to the path they are given (3rd / 2nd argument) and to nothing else (their own contracts below / assumed for buckets)
        "download_from_bucket": dict(event="fetch_bucket", outcomes=fetch_outcomes("a3"), ghost_update=("$exp", "result")),
        "download_http": dict(event="fetch_http", outcomes=fetch_outcomes("a2"), ghost_update=("$exp", "result")),
        "os.path.isfile": dict(event="isfile", returns="bool"),
        "os.remove": dict(event="remove", outcomes=[dict(returns="none"), dict(raises="OSError")]),
        "os.path.getsize": dict(event="getsize", outcomes=[dict(returns="int", ensures=["result >= 0"]), dict(raises="OSError")], ghost_update=("$size", "result")),
        "os.rename": dict(event="rename", outcomes=[dict(returns="none"), dict(raises="OSError")]),
    },
    ensures=[
        # the final name is touched exactly once: by the LAST event, a rename of the temporary file
        f"nev() == 3 and evk(2) == 'rename' and eva(2, 1, 'str') == {TMP} and eva(2, 2, 'str') == local_path",
        # before it: one fetch INTO THE TEMPORARY NAME, then the size of the temporary file
        f"(evk(0) == 'fetch_http' and eva(0, 2, 'str') == {TMP}) or (evk(0) == 'fetch_bucket' and eva(0, 3, 'str') == {TMP})",
        f"evk(1) == 'getsize' and eva(1, 1, 'str') == {TMP}",
        # ... and the rename happens only after the size was verified against the expected size (the caller's, else the one the fetch learned)
        "implies($exp is not None, $size == $exp)",
        "implies(expected_size_in_bytes is not None, $size == expected_size_in_bytes)",
    ],
    raises={
        "DataError": dict(
            ensures=[
                # explicit error for a short / long body; no rename; the temporary file is removed if it is there
                "$exp is not None and $size != $exp",
                "forall(lambda k: implies(0 <= k and k < nev(), evk(k) != 'rename' and evk(k) != 'rename!'))",
                f"(evk(nev() - 1) == 'isfile' and not eva(nev() - 1, 0, 'bool') and eva(nev() - 1, 1, 'str') == {TMP}) or "
                f"(evk(nev() - 1) == 'remove' and eva(nev() - 1, 1, 'str') == {TMP})",
            ]
        ),
        "BaseException": dict(
            ensures=[
                # whatever else goes wrong (fetch failed, interrupted, OS error): the final name was never written (no successful rename)
                "forall(lambda k: implies(0 <= k and k < nev(), evk(k) != 'rename'))",
                # and the error is one an external raised (this function only adds DataError)
                "exists(lambda k: 0 <= k and k < nev() and (evk(k) == 'fetch_http!' or evk(k) == 'fetch_bucket!' or evk(k) == 'remove!' or evk(k) == 'getsize!' or evk(k) == 'rename!'))",
                # the temporary file does not survive a failed fetch: last thing done is the check-and-remove (unless the OS refused)
                f"implies(evk(0) == 'fetch_http!' or evk(0) == 'fetch_bucket!', (evk(nev() - 1) == 'isfile' and not eva(nev() - 1, 0, 'bool') and eva(nev() - 1, 1, 'str') == {TMP}) or "
                f"(evk(nev() - 1) == 'remove' and eva(nev() - 1, 1, 'str') == {TMP}) or evk(nev() - 1) == 'remove!')",
            ]
        ),
    },
    cover=["return", "raise:DataError", "raise:KeyboardInterrupt", "raise:" + HTTPE],
)

# ------------------------------------------------------------------------------------------------ net.download_http (retry loop)
RETRY_HISTORY = (
    "forall(lambda k: implies(0 <= k and k < {n}, evk(2 * k) == 'attempt!' and "
    f"(eva(2 * k, 1, 'str') == clsname('{PE}') or eva(2 * k, 1, 'str') == clsname('{RTE}')) and "
    "eva(2 * k, 3, 'str') == local_path and evk(2 * k + 1) == 'sleep' and eva(2 * k + 1, 1, 'int') == 5))"
)
DOWNLOAD_HTTP = dict(
    target="esrally/utils/net.py::download_http",
    prop="C14",
    params={"url": "str", "local_path": "str", "expected_size_in_bytes": "opt[int]", "progress_indicator": "any", "sleep": "any"},
    externals={
        "_download_http": dict(
            event="attempt",
            outcomes=[dict(returns="opt[int]", ensures=["implies(a2 is not None, result is not None and result == a2)"]), dict(raises=PE), dict(raises=RTE), dict(raises=HTTPE), dict(raises="OSError"), dict(raises="KeyboardInterrupt")],
        ),
        "sleep": dict(event="sleep"),
    },
    loops={0: dict(inv=["_i <= 10", "nev() == 2 * _i", RETRY_HISTORY.format(n="_i")])},
    ensures=[
        # at most 11 attempts; the value of the LAST (the only successful) attempt is returned; every earlier one failed with a protocol error / read timeout
        # and was followed by one sleep(5); every attempt writes to the same local path
        "nev() % 2 == 1 and (nev() + 1) // 2 <= 11",
        "evk(nev() - 1) == 'attempt' and eva(nev() - 1, 2, 'str') == local_path",
        "implies($last is None, result is None) and implies($last is not None, result == $last)",
        "implies(expected_size_in_bytes is not None, result is not None and result == expected_size_in_bytes)",
        RETRY_HISTORY.format(n="(nev() - 1) // 2"),
    ],
    ghost_state={"$last": "opt[int]"},
    raises={
        "BaseException": dict(
            ensures=[
                "nev() % 2 == 1 and (nev() + 1) // 2 <= 11",
                # what escapes is what the last attempt raised; a protocol error / read timeout only escapes from the 11th attempt
                "evk(nev() - 1) == 'attempt!' and ref(eva(nev() - 1, 0, 'obj[BaseException]')) == ref(exc)",
                f"implies(eva(nev() - 1, 1, 'str') == clsname('{PE}') or eva(nev() - 1, 1, 'str') == clsname('{RTE}'), (nev() + 1) // 2 == 11)",
                RETRY_HISTORY.format(n="(nev() - 1) // 2"),
            ]
        )
    },
    cover=["return", "raise:" + PE, "raise:" + HTTPE],
)
DOWNLOAD_HTTP["externals"]["_download_http"]["ghost_update"] = ("$last", "result")

# ------------------------------------------------------------------------------------------------ net._download_http (one attempt)
DL_ATTEMPT = dict(
    target="esrally/utils/net.py::_download_http",
    prop="C14",
    params={"url": "str", "local_path": "str", "expected_size_in_bytes": "opt[int]", "progress_indicator": "any"},
    fields={"Resp.status": "int"},
    externals={
        "_request": {"with": "transparent", "returns": "obj[Resp]", "event": "request"},
        "urllib3.Timeout": dict(returns="any"),
        "open": {"with": "transparent", "returns": "any", "event": "open"},
        "r.getheader": dict(returns="any"),
        "int": dict(outcomes=[dict(returns="int"), dict(raises="ValueError")]),
        "r.stream": dict(returns="list[any]"),
        "out_file.write": dict(event="write"),
        "progress_indicator": dict(drop=True),
    },
    locals={"size_from_content_header": "opt[int]"},
    loops={
        0: dict(
            inv=[
                "bytes_read >= 0",
                "nev() == 2 + _i",
                "forall(lambda k: implies(2 <= k and k < nev(), evk(k) == 'write'))",
            ],
        )
    },
    ensures=[
        # a body is only ever stored for a 2xx answer
        "evk(0) == 'request' and eva(0, 0, 'obj[Resp]').status <= 299",
        # the only file opened is the given local path (for writing), everything else is a write of a streamed chunk
        "evk(1) == 'open' and eva(1, 1, 'str') == local_path and eva(1, 2, 'str') == 'wb'",
        "forall(lambda k: implies(2 <= k and k < nev(), evk(k) == 'write'))",
        # the size to verify against: the caller's if it has one
        "implies(expected_size_in_bytes is not None, result is not None and result == expected_size_in_bytes)",
    ],
    raises={
        HTTPE: dict(
            ensures=[
                # any non-2xx answer is an explicit HTTPError before a single byte of the body is stored
                "evk(0) == 'request' and eva(0, 0, 'obj[Resp]').status > 299",
                "nev() == 2",
            ]
        )
    },
    cover=["return", "raise:" + HTTPE],
)

# ------------------------------------------------------------------------------------------------ loader: Decompressor / Downloader / DocumentSetPreparator
ISFILE = dict(event="isfile", returns="bool")
GETSIZE = dict(event="getsize", returns="int", ensures=["result >= 0"])

DECOMPRESS = dict(
    target="esrally/track/loader.py::Decompressor.decompress",
    prop="C14",
    self_type="obj[Decompressor]",
    params={"archive_path": "str", "documents_path": "str", "uncompressed_size": "opt[int]"},
    fields={"Decompressor.logger": "any"},
    externals={
        "convert.bytes_to_gb": dict(returns="real", pure=True, uf="bytes_to_gb"),
        "console.info": dict(drop=True),
        "console.println": dict(drop=True),
        "io.dirname": dict(returns="str", pure=True, uf="io_dirname"),
        "io.decompress": dict(event="decompress", outcomes=[dict(returns="none"), dict(raises="RuntimeError"), dict(raises="OSError")]),
        "os.path.isfile": ISFILE,
        "os.path.getsize": GETSIZE,
    },
    returns="none",
    ensures=[
        # normal return <=> the archive was unpacked next to itself, the document file is there and has the declared size (if one is declared)
        "nev() == 3",
        "evk(nev() - 3) == 'decompress' and eva(nev() - 3, 1, 'str') == archive_path",
        "evk(nev() - 2) == 'isfile' and eva(nev() - 2, 1, 'str') == documents_path and eva(nev() - 2, 0, 'bool')",
        "evk(nev() - 1) == 'getsize' and eva(nev() - 1, 1, 'str') == documents_path",
        "implies(uncompressed_size is not None, eva(nev() - 1, 0, 'int') == uncompressed_size)",
    ],
    raises={
        "DataError": dict(
            ensures=[
                # explicit error: the archive did not produce the document file, or produced one of the wrong size
                "(evk(nev() - 1) == 'isfile' and eva(nev() - 1, 1, 'str') == documents_path and not eva(nev() - 1, 0, 'bool')) or "
                "(evk(nev() - 1) == 'getsize' and eva(nev() - 1, 1, 'str') == documents_path and uncompressed_size is not None and eva(nev() - 1, 0, 'int') != uncompressed_size)",
                "2 <= nev() and nev() <= 3 and evk(0) == 'decompress' and eva(0, 1, 'str') == archive_path and evk(1) == 'isfile' and implies(nev() == 3, evk(2) == 'getsize')",
            ]
        ),
        "BaseException": dict(ensures=["nev() == 1 and evk(0) == 'decompress!' and eva(0, 2, 'str') == archive_path"]),  # a corrupt archive: the library's error propagates
    },
    cover=["return", "raise:DataError", "raise:RuntimeError"],
)

DL_FIELDS = {"Downloader.offline": "bool", "Downloader.test_mode": "bool", "Downloader.logger": "any", HTTPE + ".code": "int", HTTPE + ".reason": "any"}
DLHIST = ("implies(nev() >= 1, (evk(0) == 'download' and eva(0, 2, 'str') == target_path) or (evk(0) == 'download!' and eva(0, 3, 'str') == target_path)) and "
          "implies(nev() >= 2, evk(1) == 'isfile') and implies(nev() >= 3, evk(2) == 'getsize')")
DOWNLOADER = dict(
    target="esrally/track/loader.py::Downloader.download",
    prop="C14",
    self_type="obj[Downloader]",
    params={"base_url": "opt[str]", "target_path": "str", "size_in_bytes": "opt[int]"},
    fields=DL_FIELDS,
    externals={
        "os.path.basename": dict(returns="str", pure=True, uf="os_basename"),
        "os.path.dirname": dict(returns="str", pure=True, uf="os_dirname"),
        "io.ensure_dir": dict(returns="none"),
        "convert.bytes_to_mb": dict(returns="real", pure=True, uf="bytes_to_mb"),
        "net.Progress": dict(returns="any"),
        "progress.finish": dict(drop=True),
        # net.download under its own contract above: returns only after the verified rename; these are the errors it lets through
        "net.download": dict(
            event="download",
            outcomes=[dict(returns="none"), dict(raises=HTTPE), dict(raises=URLE), dict(raises="DataError"), dict(raises="OSError"), dict(raises=PE), dict(raises="KeyboardInterrupt")],
        ),
        "os.path.isfile": ISFILE,
        "os.path.getsize": GETSIZE,
    },
    returns="none",
    ensures=[
        # normal return => a URL was there, Rally is online, net.download(url-of-the-file, target_path, declared size) returned, and afterwards
        # the target exists with the declared size (if any)
        "base_url is not None and base_url != '' and not self.offline",
        "nev() == 3",
        "evk(nev() - 3) == 'download' and eva(nev() - 3, 2, 'str') == target_path",
        "implies(size_in_bytes is not None, eva(nev() - 3, 3, 'int') == size_in_bytes)",
        "evk(nev() - 2) == 'isfile' and eva(nev() - 2, 1, 'str') == target_path and eva(nev() - 2, 0, 'bool')",
        "evk(nev() - 1) == 'getsize' and eva(nev() - 1, 1, 'str') == target_path",
        "implies(size_in_bytes is not None, eva(nev() - 1, 0, 'int') == size_in_bytes)",
    ],
    raises={
        "DataError": dict(
            ensures=[
                "nev() <= 3", DLHIST,
                # no base URL: nothing was attempted; otherwise the download failed (HTTP / URL / its own DataError) or the file has the wrong size
                "implies(base_url is None or base_url == '', nev() == 0)",
                "implies(not (base_url is None or base_url == ''), not self.offline and (evk(nev() - 1) == 'download!' or "
                "(evk(nev() - 1) == 'getsize' and size_in_bytes is not None and eva(nev() - 1, 0, 'int') != size_in_bytes)))",
            ]
        ),
        "SystemSetupError": dict(
            ensures=[
                "nev() <= 3", DLHIST,
                # offline mode: explicit error WITHOUT touching the network; or the download returned but the file is not there
                "implies(self.offline, nev() == 0)",
                "implies(not self.offline, evk(nev() - 1) == 'isfile' and not eva(nev() - 1, 0, 'bool'))",
            ]
        ),
        "BaseException": dict(ensures=["nev() == 1 and evk(0) == 'download!' and eva(0, 3, 'str') == target_path and ref(eva(0, 0, 'obj[BaseException]')) == ref(exc)"]),
    },
    cover=["return", "raise:DataError", "raise:SystemSetupError", "raise:OSError"],
)

PREP_FIELDS = {
    "DocumentSetPreparator.track_name": "str",
    "DocumentSetPreparator.downloader": "obj[Downloader]",
    "DocumentSetPreparator.decompressor": "obj[Decompressor]",
    "Documents.document_file": "opt[str]",
    "Documents.document_archive": "opt[str]",
    "Documents.base_url": "opt[str]",
    "Documents._uncompressed_size_in_bytes": "opt[int]",
    "Documents._compressed_size_in_bytes": "opt[int]",
    "Documents._number_of_documents": "int",
    "Documents.includes_action_and_meta_data": "bool",
    "DataError.message": "str",
}
PREP_FIELDS.update(DL_FIELDS)
PREP_FIELDS["Decompressor.logger"] = "any"

TABLE = dict(
    target="esrally/track/loader.py::DocumentSetPreparator.create_file_offset_table",
    prop="C14",
    self_type="obj[DocumentSetPreparator]",
    params={"document_file_path": "str", "expected_number_of_lines": "int"},
    fields=PREP_FIELDS,
    externals={
        # io.prepare_file_offset_table: (re)builds the table unless a valid one exists; returns the number of lines read, or None if nothing had to be built
        "io.prepare_file_offset_table": dict(event="table", returns="opt[int]", ensures=["implies(result is not None, result >= 0)"], ghost_update=("$lines", "result")),
        "io.remove_file_offset_table": dict(event="rmtable"),
    },
    ghost_state={"$lines": "opt[int]"},
    ghost_modifies=["$lines"],
    returns="none",
    ensures=[
        "nev() == 1 and evk(nev() - 1) == 'table' and eva(nev() - 1, 1, 'str') == document_file_path",
        # a freshly built table is only accepted if the file has exactly the declared number of lines (an empty file reads 0 lines)
        "$lines is None or $lines == 0 or $lines == expected_number_of_lines",
    ],
    raises={
        "DataError": dict(
            ensures=[
                # wrong line count: explicit error AND the table is removed again, so a later run cannot pick it up
                "$lines is not None and $lines != expected_number_of_lines",
                "nev() == 2 and evk(nev() - 2) == 'table' and evk(nev() - 1) == 'rmtable' and eva(nev() - 1, 1, 'str') == document_file_path",
            ]
        )
    },
    cover=["return", "raise:DataError"],
)

DOC = "pathjoin2(data_root, document_set.document_file)"
# the last thing preparation saw of the document file before building the table: it exists, and has the declared size when one is declared
DOC_VERIFIED = (
    f"evk(nev() - 1) == 'table' and eva(nev() - 1, 1, 'str') == {DOC} and "
    f"ite(document_set._uncompressed_size_in_bytes is None, "
    f"evk(nev() - 2) == 'isfile' and eva(nev() - 2, 1, 'str') == {DOC} and eva(nev() - 2, 0, 'bool'), "
    f"evk(nev() - 2) == 'getsize' and eva(nev() - 2, 1, 'str') == {DOC} and eva(nev() - 2, 0, 'int') == document_set._uncompressed_size_in_bytes and "
    f"evk(nev() - 3) == 'isfile' and eva(nev() - 3, 1, 'str') == {DOC} and eva(nev() - 3, 0, 'bool'))"
)
ARCH = "pathjoin2(data_root, document_set.document_archive)"
CSIZE = "document_set._compressed_size_in_bytes"
# every decompression reads THE archive of this document set, and only right after it was seen to exist with its declared size;
# every download goes to the archive (if the corpus has one) else to the document file
PREP_HISTORY = (
    "forall(lambda k: implies(0 <= k and k < nev(), "
    f"implies(evk(k) == 'decompress' or evk(k) == 'decompress!', ite(evk(k) == 'decompress', eva(k, 1, 'str'), eva(k, 2, 'str')) == {ARCH} and k >= 1 and "
    f"ite({CSIZE} is None, evk(k - 1) == 'isfile' and eva(k - 1, 1, 'str') == {ARCH} and eva(k - 1, 0, 'bool'), "
    f"evk(k - 1) == 'getsize' and eva(k - 1, 1, 'str') == {ARCH} and eva(k - 1, 0, 'int') == {CSIZE})) and "
    f"implies(evk(k) == 'download' or evk(k) == 'download!', ite(evk(k) == 'download', eva(k, 2, 'str'), eva(k, 3, 'str')) == ite(document_set.document_archive is not None, {ARCH}, {DOC}))))"
)
PREP_EXT = {
    "os.path.join": dict(returns="str", pure=True, uf="pathjoin2"),
    "os.path.isfile": ISFILE,
    "os.path.getsize": GETSIZE,
}
PREPARE = dict(
    target="esrally/track/loader.py::DocumentSetPreparator.prepare_document_set",
    prop="C14",
    self_type="obj[DocumentSetPreparator]",
    params={"document_set": "obj[Documents]", "data_root": "str"},
    fields=PREP_FIELDS,
    opaque={"pathjoin2": dict(names=["a", "b"], args=["str", "str"], ret="str")},
    modules=["esrally/track/track.py"],
    externals=PREP_EXT,
    requires=["document_set._number_of_documents >= 0"],
    loops={0: dict(inv=["nev() >= 0", PREP_HISTORY])},
    returns="none",
    ensures=[
        "nev() >= 2",
        DOC_VERIFIED,
        PREP_HISTORY,
        # the table was built for the declared number of lines (2 per document for bulk files with action-and-meta-data lines)
        "$lines is None or $lines == 0 or $lines == ite(document_set.includes_action_and_meta_data, 2 * document_set._number_of_documents, document_set._number_of_documents)",
    ],
    ghost_state={"$lines": "opt[int]"},
    raises={
        # every other exit is an explicit error: Rally's own (DataError, SystemSetupError, RallyAssertionError) or the one a download / decompression step raised
        "DataError": dict(ensures=[PREP_HISTORY]),
        "SystemSetupError": dict(ensures=[PREP_HISTORY]),
        "RallyAssertionError": dict(ensures=["document_set.document_archive is None and document_set.document_file is None"]),
        "BaseException": dict(ensures=["evk(nev() - 1) == 'download!' or evk(nev() - 1) == 'decompress!'", PREP_HISTORY]),
    },
    cover=["return", "raise:DataError", "raise:SystemSetupError"],
)

BUNDLED = dict(
    target="esrally/track/loader.py::DocumentSetPreparator.prepare_bundled_document_set",
    prop="C14",
    self_type="obj[DocumentSetPreparator]",
    params={"document_set": "obj[Documents]", "data_root": "str"},
    fields=PREP_FIELDS,
    opaque={"pathjoin2": dict(names=["a", "b"], args=["str", "str"], ret="str")},
    modules=["esrally/track/track.py"],
    externals=PREP_EXT,
    requires=["document_set._number_of_documents >= 0"],
    loops={0: dict(inv=["nev() >= 0", PREP_HISTORY])},
    returns="bool",
    ghost_state={"$lines": "opt[int]"},
    ensures=[
        # True: same final state as prepare_document_set
        f"implies(result, nev() >= 2 and {DOC_VERIFIED})",
        PREP_HISTORY,
        "implies(result, $lines is None or $lines == 0 or $lines == ite(document_set.includes_action_and_meta_data, 2 * document_set._number_of_documents, document_set._number_of_documents))",
        # False (fall back to the corpus directory): the document file is not in this directory, and there is no archive of it either
        f"implies(not result, evk(nev() - 1) == 'isfile' and not eva(nev() - 1, 0, 'bool'))",
    ],
    raises={
        "DataError": dict(ensures=[PREP_HISTORY]),
        "BaseException": dict(ensures=["evk(nev() - 1) == 'decompress!'", PREP_HISTORY]),
    },
    cover=["return", "raise:DataError"],
)

# ------------------------------------------------------------------------------------------------ io.decompress: format dispatch and fallback to the library
IO_DECOMPRESS = dict(
    target="esrally/utils/io.py::decompress",
    prop="C14",
    params={"zip_name": "str", "target_directory": "str"},
    opaque={"EXT": dict(names=["n"], args=["str"], ret="str")},
    externals={
        "splitext": dict(returns="tuple[str,str]", ensures=["result[1] == EXT(a0)"]),
        "zipfile.ZipFile": dict(returns="any", event="open_zip"),
        "tarfile.open": dict(returns="any", event="open_tar"),
        "_do_decompress": dict(event="extractall", outcomes=[dict(returns="none"), dict(raises="RuntimeError")]),
        "_do_decompress_manually": dict(event="stream", outcomes=[dict(returns="none"), dict(raises="OSError")]),
    },
    consts={"bz2.open": "lib:bz2", "gzip.open": "lib:gzip"},
    returns="none",
    ensures=[
        # every supported extension goes to exactly one decompressor, reading zip_name and writing below target_directory
        "EXT(zip_name) == '.zip' or EXT(zip_name) == '.bz2' or EXT(zip_name) == '.zst' or EXT(zip_name) == '.gz' or EXT(zip_name) == '.tar' or EXT(zip_name) == '.tar.gz' or EXT(zip_name) == '.tgz' or EXT(zip_name) == '.tar.bz2'",
        "implies(EXT(zip_name) == '.zip', nev() == 2 and evk(0) == 'open_zip' and eva(0, 1, 'str') == zip_name and evk(1) == 'extractall' and eva(1, 1, 'str') == target_directory and eva(1, 2, 'any') == eva(0, 0, 'any'))",
        "implies(EXT(zip_name) == '.tar' or EXT(zip_name) == '.tar.gz' or EXT(zip_name) == '.tgz' or EXT(zip_name) == '.tar.bz2', nev() == 2 and evk(0) == 'open_tar' and eva(0, 1, 'str') == zip_name and evk(1) == 'extractall' and eva(1, 1, 'str') == target_directory and eva(1, 2, 'any') == eva(0, 0, 'any'))",
        "implies(EXT(zip_name) == '.bz2' or EXT(zip_name) == '.zst' or EXT(zip_name) == '.gz', nev() == 1 and evk(0) == 'stream' and eva(0, 1, 'str') == target_directory and eva(0, 2, 'str') == zip_name)",
        # the single-stream formats use the library that matches the extension as fallback
        "implies(EXT(zip_name) == '.bz2', eva(0, 4, 'str') == 'lib:bz2') and implies(EXT(zip_name) == '.gz', eva(0, 4, 'str') == 'lib:gzip') and implies(EXT(zip_name) == '.zst', eva(0, 4, 'str') == clsname('ZstAdapter'))",
    ],
    raises={
        "RuntimeError": dict(
            ensures=[
                # an unknown extension is an explicit error and nothing is touched; otherwise it is the extractor's own error
                "(nev() == 0 and not (EXT(zip_name) == '.zip' or EXT(zip_name) == '.bz2' or EXT(zip_name) == '.zst' or EXT(zip_name) == '.gz' or EXT(zip_name) == '.tar' or EXT(zip_name) == '.tar.gz' or EXT(zip_name) == '.tgz' or EXT(zip_name) == '.tar.bz2')) or evk(nev() - 1) == 'extractall!'"
            ]
        ),
        "OSError": dict(ensures=["evk(nev() - 1) == 'stream!'"]),
    },
    cover=["return", "raise:RuntimeError"],
)
MANUALLY = dict(
    target="esrally/utils/io.py::_do_decompress_manually",
    prop="C14",
    params={"target_directory": "str", "filename": "str", "decompressor_args": "list[str]", "decompressor_lib": "any"},
    requires=["len(decompressor_args) >= 1"],
    externals={
        "splitext": dict(returns="tuple[str,str]"),
        "basename": dict(returns="str", pure=True, uf="os_basename"),
        "is_executable": dict(event="is_executable", returns="bool"),
        "_do_decompress_manually_external": dict(event="external", returns="bool"),
        "decompressor_lib": dict(event="open_lib", returns="any"),
        "_do_decompress_manually_with_lib": dict(event="with_lib", outcomes=[dict(returns="none"), dict(raises="OSError")]),
    },
    returns="none",
    ensures=[
        # either the external tool decompressed the file (it exists and reported success) ...
        "evk(0) == 'is_executable' and eva(0, 1, 'str') == decompressor_args[0]",
        "implies(nev() == 2, eva(0, 0, 'bool') and evk(1) == 'external' and eva(1, 0, 'bool') and eva(1, 1, 'str') == target_directory and eva(1, 2, 'str') == filename)",
        # ... or the library did: the fallback runs whenever the tool is missing OR failed
        "nev() == 2 or (evk(nev() - 2) == 'open_lib' and eva(nev() - 2, 1, 'str') == filename and evk(nev() - 1) == 'with_lib' and eva(nev() - 1, 1, 'str') == target_directory "
        "and eva(nev() - 1, 2, 'str') == filename and eva(nev() - 1, 3, 'any') == eva(nev() - 2, 0, 'any'))",
        "implies(nev() != 2, (nev() == 3 and not eva(0, 0, 'bool')) or (nev() == 4 and eva(0, 0, 'bool') and evk(1) == 'external' and not eva(1, 0, 'bool')))",
    ],
    raises={"OSError": dict(ensures=["evk(nev() - 1) == 'with_lib!'"])},
    cover=["return"],
)

# ------------------------------------------------------------------------------------------------ io.prepare_file_offset_table (table build)
TBL = "str_concat_tbl(data_file_path)"
TABLE_ENTRIES = (
    "forall(lambda j: implies(0 <= j and j < {n}, evk(2 + 2 * j) == 'tell' and evk(3 + 2 * j) == 'print' and "
    'eva(3 + 2 * j, 1, "str") == f\'{{50000 * (j + 1)}};{{eva(2 + 2 * j, 0, "int")}}\' and eva(3 + 2 * j, 2, "any") == eva(0, 0, "any")))'
)
BUILD_TABLE = dict(
    target="esrally/utils/io.py::prepare_file_offset_table",
    prop="C14",
    params={"data_file_path": "str"},
    fields={"FileOffsetTable.data_file_path": "str", "FileOffsetTable.offset_table_path": "str", "FileOffsetTable.mode": "str", "FileOffsetTable.offset_file": "any"},
    externals={
        "os.path.exists": dict(returns="bool"),
        "os.path.getmtime": dict(returns="real"),
        "console.info": dict(drop=True),
        "console.println": dict(drop=True),
        "open": {"with": "transparent", "returns": "any", "event": "open", "ensures": ["not isnone(result)"]},
        "data_file.readline": dict(outcomes=[dict(returns="str"), dict(raises="OSError", tag="ioerr"), dict(raises="KeyboardInterrupt", tag="ioerr")]),
        "data_file.tell": dict(event="tell", returns="int"),
        "print": dict(event="print", event_kwargs=["file"]),
        "self.offset_file.close": dict(event="close"),
        "os.replace": dict(event="replace"),
        "os.remove": dict(event="remove"),
        "self.mode.startswith": dict(returns="bool", pure=True, uf="mode_startswith", recv_arg=True),
    },
    returns="opt[int]",
    loops={
        0: dict(
            inv=[
                "line_number >= 0",
                "nev() == 2 + 2 * (line_number // 50000)",
                "evk(0) == 'open' and evk(1) == 'open' and eva(1, 1, 'str') == data_file_path",
                "file_offset_table.offset_file == eva(0, 0, 'any')",
                TABLE_ENTRIES.format(n="line_number // 50000"),
                "forall(lambda k: implies(0 <= k and k < nev(), evk(k) != 'replace'))",
            ]
        )
    },
    ensures=[
        # None: a table that is not older than the data file exists; nothing is written
        "implies(result is None, nev() == 0)",
        # otherwise the number of lines read is returned, the table holds exactly one entry per 50000 lines: (50000 j, position of the data file
        # right after line 50000 j), in ascending order, all written to the file that was opened first
        "implies(result is not None, result >= 0 and nev() == 4 + 2 * (result // 50000))",
        "implies(result is not None, evk(0) == 'open' and eva(0, 2, 'str') == 'wt' and evk(1) == 'open' and eva(1, 1, 'str') == data_file_path)",
        "implies(result is not None, " + TABLE_ENTRIES.format(n="result // 50000") + ")",
        # the table is written under a temporary name, closed, and only THEN moved to <data file>.offset: the final name never holds a partial table
        "implies(result is not None, eva(0, 1, 'str') != f'{data_file_path}.offset' and evk(nev() - 2) == 'close' and evk(nev() - 1) == 'replace' and eva(nev() - 1, 1, 'str') == eva(0, 1, 'str') and eva(nev() - 1, 2, 'str') == f'{data_file_path}.offset')",
    ],
    opaque={"mode_startswith": dict(names=["s", "p"], args=["str", "str"], ret="bool")},
    # two facts about Python strings the encoding cannot derive (strings are atoms): 'wt'.startswith('w'); q + '.tmp' != q
    raises={
        "BaseException": dict(
            ensures=[
                # the build was interrupted (I/O error, Ctrl-C): nothing is moved to the final name and the temporary table is removed
                "forall(lambda k: implies(0 <= k and k < nev(), evk(k) != 'replace'))",
                "eva(0, 1, 'str') != f'{data_file_path}.offset' and evk(nev() - 2) == 'close' and evk(nev() - 1) == 'remove' and eva(nev() - 1, 1, 'str') == eva(0, 1, 'str')",
            ]
        )
    },
    axioms=["mode_startswith('wt', 'w') and not mode_startswith('rt', 'w')", "forall_str(lambda q: f'{q}.tmp' != q)"],
    cover=["return", "raise:OSError", "raise:KeyboardInterrupt"],
)

# ------------------------------------------------------------------------------------------------ reading the table: find_closest_offset / skip_lines
TBL_MACROS = {
    # line number / byte offset of one table line "<line>;<offset>\n"
    "LN": dict(names=["l"], body="int(split_item(l.strip(), ';', 0))"),
    "OFF": dict(names=["l"], body="int(split_item(l.strip(), ';', 1))"),
    # a table as prepare_file_offset_table writes it: two fields per line
    "WELLFORMED": dict(names=["t"], body="forall(lambda i: implies(0 <= i and i < len(t), split_len(t[i].strip(), ';') == 2))"),
    # (o, r) is consistent with the table for line n: seek to the offset o of SOME entry (L, o) with L <= n and read the r = n - L remaining
    # lines one by one -- or start at 0 and read all n lines. (Which entry is a matter of speed, not of the position reached.)
    "CLOSEST": dict(
        names=["t", "n", "o", "r"],
        body="(o == 0 and r == n) or exists(lambda i: 0 <= i and i < len(t) and LN(t[i]) <= n and o == OFF(t[i]) and r == n - LN(t[i]))",
    ),
}
FOT_FIELDS = {"FileOffsetTable.data_file_path": "str", "FileOffsetTable.offset_table_path": "str", "FileOffsetTable.mode": "str", "FileOffsetTable.offset_file": "opt[list[str]]"}
FIND_CLOSEST = dict(
    target="esrally/utils/io.py::FileOffsetTable.find_closest_offset",
    prop="C14",
    self_type="obj[FileOffsetTable]",
    params={"target_line_number": "int"},
    fields=FOT_FIELDS,
    macros=TBL_MACROS,
    requires=["self.offset_file is not None", "WELLFORMED(self.offset_file)", "target_line_number >= 0"],
    loops={
        0: dict(
            inv=[
                "implies(_i == 0, prior_offset == 0 and prior_remaining_lines == target_line_number)",
                "implies(_i > 0, LN(self.offset_file[_i - 1]) <= target_line_number and prior_offset == OFF(self.offset_file[_i - 1]) and "
                "prior_remaining_lines == target_line_number - LN(self.offset_file[_i - 1]))",
            ]
        )
    },
    returns="tuple[int,int]",
    ensures=["CLOSEST(self.offset_file, target_line_number, result[0], result[1])", "result[1] >= 0"],
    cover=["return"],
)
SKIP_LINES = dict(
    target="esrally/utils/io.py::skip_lines",
    prop="C14",
    params={"data_file_path": "str", "data_file": "any", "number_of_lines_to_skip": "int"},
    fields=FOT_FIELDS,
    macros=TBL_MACROS,
    opaque={"mode_startswith": dict(names=["s", "p"], args=["str", "str"], ret="bool")},
    axioms=["mode_startswith('wt', 'w') and not mode_startswith('rt', 'w')"],
    requires=["number_of_lines_to_skip >= 0"],
    externals={
        "os.path.exists": dict(returns="bool"),
        # the table file, read as its sequence of lines; what is under the final name is a complete table (prepare_file_offset_table above moves
        # it there only when complete), i.e. well-formed
        "open": dict(event="open", returns="list[str]", ensures=["WELLFORMED(result)"]),
        "self.offset_file.close": dict(event="close"),
        "self.mode.startswith": dict(returns="bool", pure=True, uf="mode_startswith", recv_arg=True),
        "data_file.seek": dict(event="seek"),
        "data_file.readline": dict(event="readline"),
    },
    loops={0: dict(inv=["nev() == at('L0', nev()) + _i", "forall(lambda k: implies(at('L0', nev()) <= k and k < nev(), evk(k) == 'readline'))"])},
    returns="none",
    ensures=[
        # nothing to skip: the reader is not touched
        "implies(number_of_lines_to_skip == 0, nev() == 0)",
        # otherwise: ONE seek, to the offset of the closest table entry at or before the wanted line (or to 0), followed by exactly as many
        # readline() calls as lines remain from there. With an entry (L, position after L lines) this is the position after n lines.
        "implies(number_of_lines_to_skip > 0 and evk(0) == 'seek', eva(0, 1, 'int') == 0 and nev() == 1 + number_of_lines_to_skip)",
        "implies(number_of_lines_to_skip > 0 and evk(0) != 'seek', evk(0) == 'open' and eva(0, 1, 'str') == f'{data_file_path}.offset' and evk(1) == 'close' and evk(2) == 'seek' and "
        "CLOSEST(eva(0, 0, 'list[str]'), number_of_lines_to_skip, eva(2, 1, 'int'), nev() - 3))",
        "implies(number_of_lines_to_skip > 0, forall(lambda k: implies(ite(evk(0) == 'seek', 1, 3) <= k and k < nev(), evk(k) == 'readline')))",
    ],
    cover=["return"],
)

CONTRACTS = [DOWNLOAD, DOWNLOAD_HTTP, DL_ATTEMPT, DECOMPRESS, DOWNLOADER, TABLE, PREPARE, BUNDLED, IO_DECOMPRESS, MANUALLY, BUILD_TABLE, FIND_CLOSEST, SKIP_LINES]
ASSUMPTIONS = [
    "file-system and network calls (os.path.isfile, os.remove, os.path.getsize, os.rename, open, urllib3) are externals: each is a ghost event with the listed outcomes; "
    "a fetcher writes only to the path it is given (proved for _download_http: the only open() is open(local_path, 'wb'); assumed for download_from_bucket)",
    "local_path + '.tmp' is an uninterpreted string function of local_path (that it differs from local_path is not needed: the contracts name the argument of every event)",
    "exception classes the fetchers may raise: HTTPError, ProtocolError, ReadTimeoutError, OSError, KeyboardInterrupt as representatives of Exception / BaseException subclasses",
]
NOT_DECIDED = [
    "termination of the preparation loop (while True in prepare_document_set): partial correctness only",
    "contents of the downloaded / decompressed bytes (urllib3 enforce_content_length, bz2/gzip/zstd/zip/tar libraries): bounded real-file round trips only",
    "a crash of the process itself between two events (kill -9): the trace contracts show the final name is only ever produced by rename, so a crash leaves at most <file>.tmp",
]
TRUSTED = ["urllib3", "os", "bz2/gzip/zipfile/tarfile/zstandard", "google/boto bucket clients (download_from_bucket)"]


def extra_checks(runner, ev):
    """BOUNDED stand-in (never counted as proved): real files, real archives, a real (local, misbehaving) HTTP server against the REAL code."""
    from pyvc.extract import repo_root
    from pyvc.run import VERIF, load_known_findings

    outdir = os.path.join(VERIF, "out", "C14")
    os.makedirs(outdir, exist_ok=True)
    res_path = os.path.join(outdir, "bounded_files.json")
    if os.path.exists(res_path):
        os.remove(res_path)
    env = dict(os.environ, PYTHONPATH=repo_root() + os.pathsep + VERIF)
    p = subprocess.run(["/venv/bin/python", os.path.join(VERIF, "bounded", "C14_files.py"), res_path], capture_output=True, text=True, env=env, timeout=1200)
    cov = ev["coverage"]
    if p.returncode not in (0, 1) or not os.path.exists(res_path):
        cov["undecided_now"].append({"function": "corpus files on disk (bounded)", "kind": "checker-error", "detail": (p.stdout + p.stderr)[-400:]})
        return 3
    r = json.load(open(res_path))
    cov["bounded"] = [{"name": "offset table vs line-by-line skipping, leftovers of interrupted runs, archive round trips, faulty HTTP downloads (real files, real code)",
                       "bound": r["bound"], "cases": r["cases"], "explicit_errors_seen": r["explicit_errors"], "skipped": r["skipped"], "violations": len(r["violations"]),
                       "known": {k: len(v) for k, v in r["class_hits"].items()}, "label": "bounded, not proved"}]
    known = load_known_findings("C14")
    rc = 0
    viol = list(r["violations"])
    for tag, hits in r["class_hits"].items():
        k = next((k for k in known if k["tag"] == tag), None)
        if k is not None:
            print(f"KNOWN-FINDING: property=C14 {k['what']}")
            cov.setdefault("known_findings_hit", []).append({"obligation": "C14/corpus-files/bounded", "tag": tag, "cases": len(hits)})
        else:
            silent = [h for h in hits if any('reader_at_byte' in x for x in h.get('details', []))]  # prefer a silently wrong position over a late ValueError
            viol = [(silent or hits)[0]] + viol
    if viol:
        v = viol[0]
        path = os.path.join(outdir, "bounded_violation.json")
        rec = {"property": "C14", "obligation": "C14/corpus-files/bounded", "target": "esrally/utils/io.py / esrally/utils/net.py / esrally/track/loader.py (real files)", "case": v,
               "all_violations": viol[:10], "verifier": "bounded scenarios on the real code (stand-in, not a proof)"}
        rp = subprocess.run(["/venv/bin/python", os.path.join(VERIF, "bounded", "C14_files.py"), "--replay", "/dev/stdin"], input=json.dumps(rec), capture_output=True, text=True, env=env, timeout=600)
        rec["replay"] = {"reproduced": rp.returncode == 1, "detail": (rp.stdout.strip().splitlines() or [""])[-1][:600]}
        json.dump(rec, open(path, "w"), indent=1, default=str)
        print(f"VIOLATION property=C14 replay={path}" + ("" if rec["replay"]["reproduced"] else " no-failing-input-found"))
        ev["violations"] += 1
        rc = 1
    return rc
