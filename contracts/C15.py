"""C15 — the track/team branch used is the documented best match for the ES version (versions.best_match and helpers)."""

# ---- the version scheme as assumed spec functions over branch-name atoms (regex semantics are NOT proved; cross-checked by enumeration)
OPAQUE = {
    "ISVER": dict(names=["a", "strict"], args=["str", "bool"], ret="bool"),  # matches VERSIONS (strict) / VERSIONS_OPTIONAL
    "CMAJ": dict(names=["a"], args=["str"], ret="int"),
    "CMIN": dict(names=["a"], args=["str"], ret="int"),
    "CMINN": dict(names=["a"], args=["str"], ret="bool"),  # minor absent
    "CPAT": dict(names=["a"], args=["str"], ret="int"),
    "CPATN": dict(names=["a"], args=["str"], ret="bool"),
    "CSUF": dict(names=["a"], args=["str"], ret="str"),
    "CSUFN": dict(names=["a"], args=["str"], ret="bool"),
}
AXIOMS = [
    "forall(lambda a: implies(ISVER(a, True), ISVER(a, False) and not CMINN(a) and not CPATN(a)))",
    "forall(lambda a: implies(ISVER(a, False), CMAJ(a) >= 0 and (CMINN(a) or CMIN(a) >= 0) and (CPATN(a) or CPAT(a) >= 0) and (not CMINN(a) or CPATN(a)) and (not CPATN(a) or CSUFN(a))))",
    "forall(lambda a: implies(not CSUFN(a), CSUF(a) != '' and not isnone(CSUF(a))))",
]
COMPONENTS = dict(
    params=[("version", None), ("strict", True)],
    pure=True,
    outcomes=[
        dict(
            returns="tuple[int,opt[int],opt[int],opt[str]]",
            ensures=[
                "ISVER(a0, a1)",
                "result[0] == CMAJ(a0)",
                "isnone(result[1]) == CMINN(a0) and implies(not CMINN(a0), result[1] == CMIN(a0))",
                "isnone(result[2]) == CPATN(a0) and implies(not CPATN(a0), result[2] == CPAT(a0))",
                "isnone(result[3]) == CSUFN(a0) and implies(not CSUFN(a0), result[3] == CSUF(a0))",
            ],
        ),
        dict(raises="InvalidSyntax", ensures=["not ISVER(a0, a1)"]),
    ],
)
ISVERSION = dict(params=[("text", None), ("strict", True)], pure=True, returns="bool", ensures=["result == (not isnone(a0) and ISVER(a0, a1))"])
EXT = {"components": COMPONENTS, "is_version_identifier": ISVERSION}
VV_FIELDS = {
    "VersionVariants.major": "int",
    "VersionVariants.minor": "opt[int]",
    "VersionVariants.patch": "opt[int]",
    "VersionVariants.suffix": "opt[str]",
    "VersionVariants.with_major": "str",
    "VersionVariants.with_minor": "str",
    "VersionVariants.with_patch": "str",
    "VersionVariants.with_suffix": "opt[str]",
}

# a branch that names exactly MAJOR.MINOR (no patch, no suffix)
IS_MINOR_BRANCH = "ISVER(alts[j], False) and not CMINN(alts[j]) and CPATN(alts[j]) and CSUFN(alts[j])"
MACROS = {
    "IN": dict(names=["alts", "x"], body="exists(lambda j: 0 <= j and j < len(alts) and alts[j] == x)"),
    # eligible for "nearest prior minor": a MAJOR.MINOR branch of the same major with minor <= the version's minor (minor 0 included)
    "EL": dict(names=["alts", "j", "M", "m"], body=f"0 <= j and j < len(alts) and {IS_MINOR_BRANCH} and CMAJ(alts[j]) == M and CMIN(alts[j]) <= m"),
    "R1": dict(names=["M"], body='f"{M}"'),
    "R2": dict(names=["M", "m"], body='f"{M}.{m}"'),
    "R3": dict(names=["M", "m", "p"], body='f"{M}.{m}.{p}"'),
    "R4": dict(names=["M", "m", "p", "s"], body='f"{M}.{m}.{p}-{s}"'),
    "HAS4": dict(names=["alts", "v"], body="not CSUFN(v) and IN(alts, R4(CMAJ(v), CMIN(v), CPAT(v), CSUF(v)))"),
    "HAS3": dict(names=["alts", "v"], body="IN(alts, R3(CMAJ(v), CMIN(v), CPAT(v)))"),
    "HAS2": dict(names=["alts", "v"], body="IN(alts, R2(CMAJ(v), CMIN(v)))"),
    "HASNEAR": dict(names=["alts", "v"], body="exists(lambda j: EL(alts, j, CMAJ(v), CMIN(v)))"),
    "HAS1": dict(names=["alts", "v"], body="IN(alts, R1(CMAJ(v)))"),
    "NEWEST": dict(names=["alts", "v"], body="forall(lambda j: implies(0 <= j and j < len(alts) and ISVER(alts[j], False), CMAJ(alts[j]) < CMAJ(v)))"),
}

LBM = dict(
    target="esrally/utils/versions.py::latest_bounded_minor",
    prop="C15",
    params={"alternatives": "list[str]", "target_version": "obj[VersionVariants]"},
    fields=VV_FIELDS,
    externals=EXT,
    opaque=OPAQUE,
    macros=MACROS,
    axioms=AXIOMS,
    returns="opt[int]",
    pure=True,
    requires=["not isnone(target_version.minor) and target_version.minor >= 0 and target_version.major >= 0"],
    locals={"eligible_minors": "list[int]"},
    loops={
        0: dict(
            modifies_objs=["eligible_minors"],
            inv=[
                "ref(eligible_minors) >= NREF0()",
                "forall(lambda k: implies(0 <= k and k < len(eligible_minors), exists(lambda j: j < _i and EL(alternatives, j, target_version.major, target_version.minor) and CMIN(alternatives[j]) == eligible_minors[k])))",
                "forall(lambda j: implies(j < _i and EL(alternatives, j, target_version.major, target_version.minor), exists(lambda k: 0 <= k and k < len(eligible_minors) and eligible_minors[k] == CMIN(alternatives[j]))))",
            ],
        )
    },
    ensures=[
        "implies(not exists(lambda j: EL(alternatives, j, target_version.major, target_version.minor)), isnone(result))",
        "implies(exists(lambda j: EL(alternatives, j, target_version.major, target_version.minor)), not isnone(result) "
        "and exists(lambda j: EL(alternatives, j, target_version.major, target_version.minor) and CMIN(alternatives[j]) == result) "
        "and forall(lambda j: implies(EL(alternatives, j, target_version.major, target_version.minor), CMIN(alternatives[j]) <= result)))",
    ],
    cover=["return"],
)

LMAJ = dict(
    target="esrally/utils/versions.py::_latest_major",
    prop="C15",
    params={"alternatives": "list[str]"},
    externals=EXT,
    opaque=OPAQUE,
    macros=MACROS,
    axioms=AXIOMS,
    returns="int",
    pure=True,
    loops={
        0: dict(
            inv=[
                "max_major >= -1",
                "forall(lambda j: implies(0 <= j and j < _i and ISVER(alternatives[j], False), CMAJ(alternatives[j]) <= max_major))",
                "max_major == -1 or exists(lambda j: 0 <= j and j < _i and ISVER(alternatives[j], False) and CMAJ(alternatives[j]) == max_major)",
            ]
        )
    },
    ensures=[
        "forall(lambda j: implies(0 <= j and j < len(alternatives) and ISVER(alternatives[j], False), CMAJ(alternatives[j]) <= result))",
        "result == -1 or exists(lambda j: 0 <= j and j < len(alternatives) and ISVER(alternatives[j], False) and CMAJ(alternatives[j]) == result)",
    ],
    cover=["return"],
)

A, V_ = "available_alternatives", "distribution_version"
C1, C2, C3, C4, C5 = f"HAS4({A}, {V_})", f"HAS3({A}, {V_})", f"HAS2({A}, {V_})", f"HASNEAR({A}, {V_})", f"HAS1({A}, {V_})"
ISV = f"(not isnone({V_}) and ISVER({V_}, True))"
BEST = dict(
    target="esrally/utils/versions.py::best_match",
    prop="C15",
    params={A: "list[str]", V_: "opt[str]"},
    fields=VV_FIELDS,
    externals=EXT,
    opaque=OPAQUE,
    macros=MACROS,
    axioms=AXIOMS,
    ensures=[
        # the documented precedence, most specific first
        f"implies({ISV} and {C1}, result == R4(CMAJ({V_}), CMIN({V_}), CPAT({V_}), CSUF({V_})))",
        f"implies({ISV} and not {C1} and {C2}, result == R3(CMAJ({V_}), CMIN({V_}), CPAT({V_})))",
        f"implies({ISV} and not {C1} and not {C2} and {C3}, result == R2(CMAJ({V_}), CMIN({V_})))",
        # nearest prior minor of the same major: the LARGEST eligible minor (minor 0 counts), never a later minor, never another major
        f"implies({ISV} and not {C1} and not {C2} and not {C3} and {C4}, exists(lambda j: EL({A}, j, CMAJ({V_}), CMIN({V_})) and result == R2(CMAJ({V_}), CMIN({A}[j])) "
        f"and forall(lambda j2: implies(EL({A}, j2, CMAJ({V_}), CMIN({V_})), CMIN({A}[j2]) <= CMIN({A}[j])))))",
        f"implies({ISV} and not {C1} and not {C2} and not {C3} and not {C4} and {C5}, result == R1(CMAJ({V_})))",
        # master only when the version is newer than every versioned branch ...
        f"implies({ISV} and not {C1} and not {C2} and not {C3} and not {C4} and not {C5} and NEWEST({A}, {V_}), result == 'master')",
        # ... otherwise nothing qualifies
        f"implies({ISV} and not {C1} and not {C2} and not {C3} and not {C4} and not {C5} and not NEWEST({A}, {V_}), isnone(result))",
        # unknown / serverless / empty version -> master; anything else -> no match
        f"implies(not {ISV} and ({V_} == 'serverless' or isnone({V_}) or {V_} == ''), result == 'master')",
        f"implies(not {ISV} and not ({V_} == 'serverless' or isnone({V_}) or {V_} == ''), isnone(result))",
    ],
    cover=["return"],
)

# ------------------------------------------------------------------------------------------------ RallyRepository.update: the selected branch is really checked out
GIT_FAIL = [dict(returns="none"), dict(raises="SupplyError")]
REPO_UPDATE = dict(
    target="esrally/utils/repo.py::RallyRepository.update",
    prop="C15",
    self_type="obj[RallyRepository]",
    params={"distribution_version": "any"},
    fields={"RallyRepository.remote": "bool", "RallyRepository.repo_dir": "str", "RallyRepository.logger": "any", "RallyRepository.revision": "any", "RallyRepository.resource_name": "str",
            "SupplyError.message": "any"},
    opaque={"BM": dict(names=["bs", "v"], args=["list[str]", "any"], ret="opt[str]")},
    externals={
        "git.branches": dict(event="branches", event_kwargs=["remote"], outcomes=[dict(returns="list[str]"), dict(raises="SupplyError")]),
        "versions.best_match": dict(returns="opt[str]", pure=True, uf="BM"),  # under contract above
        "git.checkout": dict(event="checkout", event_kwargs=["branch"], outcomes=GIT_FAIL),
        "git.rebase": dict(event="rebase", outcomes=GIT_FAIL),
        "git.head_revision": dict(returns="any"),
        "git.current_branch": dict(event="current_branch", returns="str"),
        "self._find_matching_tag": dict(event="find_tag", returns="opt[str]"),
        "console.warn": dict(drop=True),
        "sys.exc_info": dict(returns="any"),
    },
    modifies=["self"],
    only_fields={"self": ["revision"]},
    ensures=[
        # a normal return means: no git checkout failed on the way (a branch switch that did not happen is never swallowed) ...
        "forall(lambda k: implies(0 <= k and k < nev(), evk(k) != 'checkout!' and evk(k) != 'branches!'))",
        # ... and with a remote whose branches contain a match, exactly that branch was checked out (and a rebase attempted, whose failure alone is tolerated)
        "implies(self.remote and evk(0) == 'branches' and bool(BM(eva(0, 0, 'list[str]'), distribution_version)), "
        "nev() == 3 and evk(1) == 'checkout' and eva(1, 2, 'str') == BM(eva(0, 0, 'list[str]'), distribution_version) and (evk(2) == 'rebase' or evk(2) == 'rebase!'))",
    ],
    raises={
        # every git failure other than the tolerated rebase surfaces as a DataError; no local branch / tag at all is a SystemSetupError
        "DataError": dict(ensures=["evk(nev() - 1) == 'checkout!' or evk(nev() - 1) == 'branches!'"]),
        "SystemSetupError": dict(ensures=["evk(nev() - 1) == 'find_tag' and not bool(eva(nev() - 1, 0, 'opt[str]'))"]),
    },
    cover=["return", "raise:DataError", "raise:SystemSetupError"],
)

CONTRACTS = [BEST, LBM, LMAJ, REPO_UPDATE]
ASSUMPTIONS = [
    "regular expressions VERSIONS / VERSIONS_OPTIONAL and components() are represented by the spec functions ISVER/CMAJ/CMIN/CPAT/CSUF with the scheme axioms (non-negative components, no patch without minor, suffix only with patch); NOT proved, cross-checked by enumeration in the thorough tier",
    "f-string renderings of versions are uninterpreted functions of their integer arguments",
]
NOT_DECIDED = ["RallyRepository.update / _find_matching_tag (git side)", "that a nearest-minor result literally names an existing branch needs canonical branch names (no leading zeros): stated, not proved"]
TRUSTED = []
