"""C16 — retryable operations retry exactly as configured (runner.Retry.__call__)."""

SOCK = "socket.timeout"
CE = "elasticsearch.exceptions.ConnectionError"
CT = "elasticsearch.exceptions.ConnectionTimeout"
API = "elasticsearch.ApiError"
TR = "elasticsearch.exceptions.TransportError"

PARAMS = "rec{?retry-until-success:bool,?retries:int,?retry-on-error:bool,?retry-wait-period:real,?retry-on-timeout:bool}"

MACROS = {
    # effective parameters, as documented
    "RUS": dict(names=["self", "params"], body='params.get("retry-until-success", self.retry_until_success)'),
    "MAXA": dict(names=["self", "params"], body='9223372036854775807 if RUS(self, params) else params.get("retries", 0) + 1'),
    "ROE": dict(names=["self", "params"], body='True if RUS(self, params) else params.get("retry-on-error", False)'),
    "ROT": dict(names=["params"], body='params.get("retry-on-timeout", True)'),
    "WAIT": dict(names=["params"], body='params.get("retry-wait-period", 0.5)'),
    # an unsuccessful result: a dict whose "success" entry is false
    "UNSUCCESSFUL": dict(names=["r"], body='isinstance(r, dict) and not r.get("success", True)'),
    # the attempt at trace position k was a timeout / connection problem (incl. HTTP 408)
    "TIMEOUTISH": dict(
        names=["k"],
        body=f"evk(k) == 'call!' and (eva(k, 1, 'str') == clsname('{SOCK}') or eva(k, 1, 'str') == clsname('{CE}') or eva(k, 1, 'str') == clsname('{CT}') "
        f"or (eva(k, 1, 'str') == clsname('{API}') and eva(k, 0, 'obj[{API}]').status_code == 408))",
    ),
    # ... and is one the operation may retry under its parameters
    "MAY_RETRY": dict(
        names=["self", "params", "k"],
        body="(ROT(params) and TIMEOUTISH(k)) or (ROE(self, params) and evk(k) == 'call' and UNSUCCESSFUL(eva(k, 0, 'any')))",
    ),
}
HISTORY = (
    "forall(lambda k: implies(0 <= k and k < {n}, (evk(2 * k) == 'call' or evk(2 * k) == 'call!') and evk(2 * k + 1) == 'sleep' "
    "and eva(2 * k + 1, 1, 'real') == WAIT(params) and MAY_RETRY(self, params, 2 * k)))"
)

CALL = dict(
    target="esrally/driver/runner.py::Retry.__call__",
    prop="C16",
    self_type="obj[Retry]",
    params={"es": "any", "params": PARAMS},
    fields={"Retry.retry_until_success": "bool", "Retry.delegate": "any", "elastic_transport.ApiError.status_code": "int"},
    consts={"sys.maxsize": 9223372036854775807},
    externals={
        "self.delegate": dict(
            event="call",
            outcomes=[
                dict(returns="any"),
                dict(raises=SOCK),
                dict(raises=CE),
                dict(raises=CT),
                dict(raises=API),
                dict(raises=TR, finding="C16-other-transport-error"),
                dict(raises="KeyError"),
            ],
        ),
        "asyncio.sleep": dict(event="sleep"),
    },
    macros=MACROS,
    requires=["params.get('retries', 0) >= 0"],
    loops={
        0: dict(
            inv=[
                "max_attempts == MAXA(self, params) and retry_on_error == ROE(self, params) and retry_on_timeout == ROT(params) and sleep_time == WAIT(params)",
                "_i < max_attempts",
                "nev() == 2 * _i",
                HISTORY.format(n="_i"),
            ]
        )
    },
    ensures=[
        # a normal return hands back the value of the LAST attempt; attempts <= retries + 1; one wait of retry-wait-period between attempts
        "nev() % 2 == 1 and (nev() + 1) // 2 <= MAXA(self, params)",
        "evk(nev() - 1) == 'call' and eva(nev() - 1, 0, 'any') == result",
        HISTORY.format(n="(nev() - 1) // 2"),
        # it stops at the first attempt that is not an unsuccessful result to be retried
        "not (ROE(self, params) and UNSUCCESSFUL(result)) or (nev() + 1) // 2 == MAXA(self, params)",
        # frame: a call leaves the runner's own configuration untouched (one Retry instance serves many calls)
        "self.retry_until_success == old(self.retry_until_success)",
    ],
    raises={
        "BaseException": dict(
            ensures=[
                # what escapes is exactly what the last attempt raised, and only if it may not be retried (or it was the last attempt)
                "nev() % 2 == 1 and (nev() + 1) // 2 <= MAXA(self, params)",
                "evk(nev() - 1) == 'call!' and ref(eva(nev() - 1, 0, 'obj[BaseException]')) == ref(exc)",
                HISTORY.format(n="(nev() - 1) // 2"),
                "not (ROT(params) and TIMEOUTISH(nev() - 1)) or (nev() + 1) // 2 == MAXA(self, params)",
                "self.retry_until_success == old(self.retry_until_success)",
            ]
        )
    },
    cover=["return", "raise:TimeoutError", "raise:KeyError"],
)

CONTRACTS = [CALL]
ASSUMPTIONS = [
    "outcomes of the delegate: any value, socket.timeout, ConnectionError, ConnectionTimeout, ApiError(any status), other TransportError, some other exception (KeyError as representative); except-matching through the issubclass facts dumped from the installed libraries",
    "retries >= 0 (track schema); asyncio.sleep only appends a ghost event; sys.maxsize = 2^63-1",
]
NOT_DECIDED = ["wall-clock timing of the waits"]
TRUSTED = []


def extra_checks(runner, ev):
    """Call-site obligations (syntactic, on the real AST and the real documentation): every operation type that docs/track.rst marks as
    retryable is registered by register_default_runners with a runner wrapped in Retry(...) -- otherwise its retry parameters are ignored."""
    import ast
    import json
    import os
    import re

    from pyvc.extract import RepoIndex, repo_root

    cov = ev["coverage"]
    rst_path = os.path.join(repo_root(), "docs", "track.rst")
    if not os.path.exists(rst_path):
        # a scratch copy without docs/: fall back to the repository's documentation
        rst_path = "/repo/docs/track.rst"
    rst = open(rst_path, encoding="utf-8").read().splitlines()
    documented = []
    for i, line in enumerate(rst):
        if "is :ref:`retryable" in line:
            j = i
            while j > 0 and not (re.fullmatch(r"~{3,}", rst[j].strip()) and rst[j - 1].strip()):
                j -= 1
            documented.append(rst[j - 1].strip())
    m, fn = RepoIndex().locate("esrally/driver/runner.py::register_default_runners")
    regs = {}
    for node in ast.walk(fn):
        if isinstance(node, ast.Call) and ast.unparse(node.func) == "register_runner" and len(node.args) >= 2 and ast.unparse(node.args[0]).startswith("track.OperationType."):
            regs[ast.unparse(node.args[0]).rsplit(".", 1)[1]] = node.args[1]
    bad = []
    for op in documented:
        enum = "".join(part.capitalize() for part in op.split("-"))
        expr = regs.get(enum)
        if expr is None:
            bad.append({"operation": op, "problem": f"no register_runner(track.OperationType.{enum}, ..) in register_default_runners"})
        elif not (isinstance(expr, ast.Call) and ast.unparse(expr.func) == "Retry"):
            bad.append({"operation": op, "registered": ast.unparse(expr), "problem": "documented as retryable but the registered runner is not wrapped in Retry(..)"})
    n = len(documented)
    cov["call_site_obligations"] = {"operations documented as retryable": n, "failed": bad}
    cov["obligations"] += n
    cov["discharged"] += n - min(n, len(bad))
    if n < 20:
        cov["undecided_now"].append({"function": "register_default_runners", "kind": "vacuity", "detail": f"only {n} retryable operations found in docs/track.rst"})
        return 2
    if bad:
        outdir = os.path.join(os.path.dirname(os.path.dirname(os.path.abspath(__file__))), "out", "C16")
        os.makedirs(outdir, exist_ok=True)
        path = os.path.join(outdir, "retryable_operations_wrapped.json")
        json.dump({"property": "C16", "obligation": "C16/register_default_runners/retryable-operations-wrapped", "target": "esrally/driver/runner.py::register_default_runners", "failed": bad,
                   "verifier": "syntactic call-site obligation: docs/track.rst vs the real AST"}, open(path, "w"), indent=1)
        print(f"VIOLATION property=C16 replay={path} no-failing-input-found")
        ev["violations"] += len(bad)
        return 1
    return 0

