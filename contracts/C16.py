"""C16 — retryable operations retry exactly as configured (runner.Retry.__call__)."""

SOCK = "socket.timeout"
CE = "elasticsearch.exceptions.ConnectionError"
CT = "elasticsearch.exceptions.ConnectionTimeout"
API = "elasticsearch.ApiError"
TR = "elasticsearch.exceptions.TransportError"

PARAMS = "rec{?retry-until-success:bool,?retries:int,?retry-on-error:bool,?retry-wait-period:real,?retry-on-timeout:bool}"

MACROS = {
    # effective parameters, as documented
    "RUS": dict(names=["self", "params"], body='params.get("retry-until-success", self.retry_until_success)'),
    "MAXA": dict(names=["self", "params"], body='9223372036854775807 if RUS(self, params) else params.get("retries", 0) + 1'),
    "ROE": dict(names=["self", "params"], body='True if RUS(self, params) else params.get("retry-on-error", False)'),
    "ROT": dict(names=["params"], body='params.get("retry-on-timeout", True)'),
    "WAIT": dict(names=["params"], body='params.get("retry-wait-period", 0.5)'),
    # an unsuccessful result: a dict whose "success" entry is false
    "UNSUCCESSFUL": dict(names=["r"], body='isinstance(r, dict) and not r.get("success", True)'),
    # the attempt at trace position k was a timeout / connection problem (incl. HTTP 408)
    "TIMEOUTISH": dict(
        names=["k"],
        body=f"evk(k) == 'call!' and (eva(k, 1, 'str') == clsname('{SOCK}') or eva(k, 1, 'str') == clsname('{CE}') or eva(k, 1, 'str') == clsname('{CT}') "
        f"or (eva(k, 1, 'str') == clsname('{API}') and eva(k, 0, 'obj[{API}]').status_code == 408))",
    ),
    # ... and is one the operation may retry under its parameters
    "MAY_RETRY": dict(
        names=["self", "params", "k"],
        body="(ROT(params) and TIMEOUTISH(k)) or (ROE(self, params) and evk(k) == 'call' and UNSUCCESSFUL(eva(k, 0, 'any')))",
    ),
}
HISTORY = (
    "forall(lambda k: implies(0 <= k and k < {n}, (evk(2 * k) == 'call' or evk(2 * k) == 'call!') and evk(2 * k + 1) == 'sleep' "
    "and eva(2 * k + 1, 1, 'real') == WAIT(params) and MAY_RETRY(self, params, 2 * k)))"
)

CALL = dict(
    target="esrally/driver/runner.py::Retry.__call__",
    prop="C16",
    self_type="obj[Retry]",
    params={"es": "any", "params": PARAMS},
    fields={"Retry.retry_until_success": "bool", "Retry.delegate": "any", "elastic_transport.ApiError.status_code": "int"},
    consts={"sys.maxsize": 9223372036854775807},
    externals={
        "self.delegate": dict(
            event="call",
            outcomes=[
                dict(returns="any"),
                dict(raises=SOCK),
                dict(raises=CE),
                dict(raises=CT),
                dict(raises=API),
                dict(raises=TR, finding="C16-other-transport-error"),
                dict(raises="KeyError"),
            ],
        ),
        "asyncio.sleep": dict(event="sleep"),
    },
    macros=MACROS,
    requires=["params.get('retries', 0) >= 0"],
    loops={
        0: dict(
            inv=[
                "max_attempts == MAXA(self, params) and retry_on_error == ROE(self, params) and retry_on_timeout == ROT(params) and sleep_time == WAIT(params)",
                "_i < max_attempts",
                "nev() == 2 * _i",
                HISTORY.format(n="_i"),
            ]
        )
    },
    ensures=[
        # a normal return hands back the value of the LAST attempt; attempts <= retries + 1; one wait of retry-wait-period between attempts
        "nev() % 2 == 1 and (nev() + 1) // 2 <= MAXA(self, params)",
        "evk(nev() - 1) == 'call' and eva(nev() - 1, 0, 'any') == result",
        HISTORY.format(n="(nev() - 1) // 2"),
        # it stops at the first attempt that is not an unsuccessful result to be retried
        "not (ROE(self, params) and UNSUCCESSFUL(result)) or (nev() + 1) // 2 == MAXA(self, params)",
        # frame: a call leaves the runner's own configuration untouched (one Retry instance serves many calls)
        "self.retry_until_success == old(self.retry_until_success)",
    ],
    raises={
        "BaseException": dict(
            ensures=[
                # what escapes is exactly what the last attempt raised, and only if it may not be retried (or it was the last attempt)
                "nev() % 2 == 1 and (nev() + 1) // 2 <= MAXA(self, params)",
                "evk(nev() - 1) == 'call!' and ref(eva(nev() - 1, 0, 'obj[BaseException]')) == ref(exc)",
                HISTORY.format(n="(nev() - 1) // 2"),
                "not (ROT(params) and TIMEOUTISH(nev() - 1)) or (nev() + 1) // 2 == MAXA(self, params)",
                "self.retry_until_success == old(self.retry_until_success)",
            ]
        )
    },
    cover=["return", "raise:TimeoutError", "raise:KeyError"],
)

CONTRACTS = [CALL]
ASSUMPTIONS = [
    "outcomes of the delegate: any value, socket.timeout, ConnectionError, ConnectionTimeout, ApiError(any status), other TransportError, some other exception (KeyError as representative); except-matching through the issubclass facts dumped from the installed libraries",
    "retries >= 0 (track schema); asyncio.sleep only appends a ghost event; sys.maxsize = 2^63-1",
]
NOT_DECIDED = ["wall-clock timing of the waits", "which operations register_default_runners wraps in Retry (not yet under contract)"]
TRUSTED = []
