"""C17 — metrics store calls survive transient faults and never repeat after success (EsClient.guarded)."""
import ast

CT = "elasticsearch.exceptions.ConnectionTimeout"
CE = "elasticsearch.exceptions.ConnectionError"
AUTHN = "elasticsearch.exceptions.AuthenticationException"
AUTHZ = "elasticsearch.exceptions.AuthorizationException"
BULK = "elasticsearch.helpers.BulkIndexError"
API = "elastic_transport.ApiError"
TRANSPORT = "elastic_transport.TransportError"


def cls(name):
    # class atoms stored in call! events use the canonical class name (resolved through the facts dumped from the installed libraries)
    return f'clsname("{name}")'


CODES = "self.retryable_status_codes"
ITEM_STATUS = 'err.get("index", {}).get("status", None)'
MACROS = {
    # status of one bulk item, exactly as the property reads it: item["index"]["status"]
    "ST": dict(names=["err"], body=ITEM_STATUS),
    "RET": dict(names=["self", "x"], body="x in self.retryable_status_codes"),
    # the failed attempt recorded at trace position k was of a retryable kind
    "RETRYABLE": dict(
        names=["self", "k"],
        body=f"eva(k, 1, 'str') == {cls(CT)} or eva(k, 1, 'str') == {cls(CE)} "
        f"or (eva(k, 1, 'str') == {cls(API)} and eva(k, 0, 'obj[{API}]').status_code in self.retryable_status_codes) "
        f"or (eva(k, 1, 'str') == {cls(BULK)} and forall(lambda q: implies(0 <= q and q < len(eva(k, 0, 'obj[{BULK}]').errors), "
        f"ST(eva(k, 0, 'obj[{BULK}]').errors[q]) in self.retryable_status_codes)))",
    ),
}
PRE_CODES = f"len({CODES}) == 4 and {CODES}[0] == 502 and {CODES}[1] == 503 and {CODES}[2] == 504 and {CODES}[3] == 429"

HISTORY = (
    "forall(lambda k: implies(0 <= k and k < {n}, evk(2 * k) == 'call!' and evk(2 * k + 1) == 'sleep' and "
    "2**k <= eva(2 * k + 1, 1, 'real') and eva(2 * k + 1, 1, 'real') < 2**k + 1 and RETRYABLE(self, 2 * k)))"
)

GUARDED = dict(
    target="esrally/metrics.py::EsClient.guarded",
    prop="C17",
    self_type="obj[EsClient]",
    params={"target": "any", "args": "any", "kwargs": "any"},
    fields={
        "EsClient.retryable_status_codes": "list[int]",
        "EsClient._client": "any",
        f"{API}.status_code": "int",
        f"{API}.error": "any",
        f"{BULK}.errors": "list[any]",
        f"{TRANSPORT}.errors": "any",
    },
    externals={
        "target": dict(
            event="call",
            outcomes=[
                dict(returns="any"),
                dict(raises=CT),
                dict(raises=CE),
                dict(raises=AUTHN),
                dict(raises=AUTHZ),
                dict(raises=BULK),
                dict(raises=API),
                dict(raises=TRANSPORT),
            ],
        ),
        "random.random": dict(returns="real", ensures=["0 <= result and result < 1"]),
        "time.sleep": dict(event="sleep"),
        "self._client.transport.node_pool.get": dict(returns="any"),
        "config.ConfigFile": dict(returns="any"),
    },
    macros=MACROS,
    requires=[PRE_CODES],
    loops={
        0: dict(
            inv=[
                "0 <= execution_count and execution_count <= 10 and max_execution_count == 10",
                "nev() == 2 * execution_count",
                HISTORY.format(n="execution_count"),
            ]
        ),
        1: dict(
            inv=[
                "forall(lambda q: implies(0 <= q and q < _i, ST(e.errors[q]) in self.retryable_status_codes))",
            ]
        ),
    },
    ensures=[
        # success: the value of the LAST call is returned and the call is not repeated (the trace ends with that call);
        # every earlier attempt failed retryably and was followed by a pause in [2^k, 2^k+1): at most 10 retries
        "nev() >= 1 and nev() % 2 == 1 and nev() <= 21",
        "evk(nev() - 1) == 'call' and eva(nev() - 1, 0, 'any') == result",
        HISTORY.format(n="(nev() - 1) // 2"),
    ],
    raises={
        "SystemSetupError": dict(
            ensures=[
                "nev() >= 1 and nev() % 2 == 1 and evk(nev() - 1) == 'call!'",
                f"eva(nev() - 1, 1, 'str') == {cls(AUTHN)} or eva(nev() - 1, 1, 'str') == {cls(AUTHZ)}",
                HISTORY.format(n="(nev() - 1) // 2"),
            ]
        ),
        "RallyError": dict(
            ensures=[
                "nev() >= 1 and nev() % 2 == 1 and nev() <= 21 and evk(nev() - 1) == 'call!'",
                f"eva(nev() - 1, 1, 'str') != {cls(AUTHN)} and eva(nev() - 1, 1, 'str') != {cls(AUTHZ)}",
                # a Rally error surfaces only when the last failure is not retryable or the ten retries are used up
                "not RETRYABLE(self, nev() - 1) or nev() == 21",
                HISTORY.format(n="(nev() - 1) // 2"),
            ]
        ),
    },
    lemmas={
        # pauses grow strictly: the k-th pause is < 2^k + 1 <= 2^(k+1) <= the next pause
        "pause_growth": dict(vars={"k": "int"}, stmt="implies(k >= 0, 2**k + 1 <= 2**(k + 1))"),
    },
    cover=["return", "raise:RallyError", "raise:SystemSetupError"],
)

INIT = dict(
    target="esrally/metrics.py::EsClient.__init__",
    prop="C17",
    self_type="obj[EsClient]",
    params={"client": "any", "cluster_version": "any"},
    fields={"EsClient.retryable_status_codes": "list[int]", "EsClient._client": "any", "EsClient.logger": "any", "EsClient._cluster_version": "any"},
    # the retryable HTTP statuses are exactly 502, 503, 504 and 429 (what guarded() assumes about self)
    ensures=[PRE_CODES],
    cover=["return"],
)

CONTRACTS = [GUARDED, INIT]
ASSUMPTIONS = [
    "outcomes of the delegate are exactly: a value, ConnectionTimeout, ConnectionError, AuthenticationException, AuthorizationException, BulkIndexError, other ApiError, other TransportError (exact classes; except-matching through the issubclass facts dumped from the installed libraries)",
    "random.random() in [0,1); 2**k via pow2 with ground axioms; time.sleep only appends a ghost event",
]
NOT_DECIDED = ["message texts of the Rally errors", "wall-clock duration of the pauses"]
TRUSTED = []


def extra_checks(runner, ev):
    """Call-site obligations: every public EsClient operation routes through guarded exactly once and never calls the raw client directly."""
    from pyvc.extract import RepoIndex

    m = RepoIndex().module("esrally/metrics.py")
    cls_ = m.classes["EsClient"]
    ops, bad = [], []
    for fn in cls_.body:
        if not isinstance(fn, ast.FunctionDef) or fn.name in ("__init__", "guarded"):
            continue
        guarded_calls, raw_calls, via = 0, 0, 0
        for node in ast.walk(fn):
            if isinstance(node, ast.Call):
                f = ast.unparse(node.func)
                if f == "self.guarded":
                    guarded_calls += 1
                elif f.startswith("self._client.") or f.startswith("elasticsearch.helpers."):
                    raw_calls += 1
                elif f.startswith("self.") and f[5:] in [x.name for x in cls_.body if isinstance(x, ast.FunctionDef)]:
                    via += 1
        # precondition of the assumed dependency contract "the delegate performs ONE attempt": no library-side retry option is passed
        lib_retry = [kw.arg for node in ast.walk(fn) if isinstance(node, ast.Call) and ast.unparse(node.func) == "self.guarded" for kw in node.keywords
                     if kw.arg in ("max_retries", "retry_on_timeout", "retry_on_status", "initial_backoff", "max_backoff")]
        # ... and "the delegate performs the request WHILE guarded runs it": it is a bound method of the raw client or the eager bulk helper, never a
        # generator function (streaming_bulk / parallel_bulk / scan send their requests only when the result is consumed -- outside the retry loop)
        delegates = [ast.unparse(node.args[0]) for node in ast.walk(fn) if isinstance(node, ast.Call) and ast.unparse(node.func) == "self.guarded" and node.args]
        lazy = [d_ for d_ in delegates if not (d_.startswith("self._client.") or d_ == "elasticsearch.helpers.bulk")]
        ok = raw_calls == 0 and not lib_retry and not lazy and (guarded_calls == 1 or (guarded_calls == 0 and via == 1))
        ops.append({"op": fn.name, "guarded_calls": guarded_calls, "raw_client_calls": raw_calls, "delegates_to_other_op": via, "delegate": delegates[:1], "not_an_eager_client_call": lazy})
        if not ok:
            bad.append(fn.name)
    cov = ev["coverage"]
    cov["call_site_obligations"] = {"operations": len(ops), "failed": bad, "samples": ops[:4]}
    cov["obligations"] += len(ops)
    cov["discharged"] += len(ops) - len(bad)
    if len(ops) < 8:
        cov["undecided_now"].append({"function": "EsClient operations", "kind": "vacuity", "detail": f"only {len(ops)} operations found"})
    if bad:
        import json, os

        outdir = os.path.join(os.path.dirname(os.path.dirname(os.path.abspath(__file__))), "out", "C17")
        os.makedirs(outdir, exist_ok=True)
        path = os.path.join(outdir, "routing_call_sites.json")
        json.dump({"property": "C17", "obligation": "C17/EsClient/routes-through-guarded", "failed_ops": bad, "target": "esrally/metrics.py::EsClient",
                   "verifier": "syntactic call-site obligation: exactly one self.guarded(..) call, no raw client call"}, open(path, "w"), indent=1)
        print(f"VIOLATION property=C17 replay={path} no-failing-input-found")
        ev["violations"] += len(bad)
        return 1
    return 0
