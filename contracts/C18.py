"""C18 — request timings span all sub-requests and never leak between clients (client/context.py)."""

CTX = "rec{?request_start:real,?request_end:real,?raw_response:bool}"
GHOST = {"$ctx": f"opt[{CTX}]"}  # the dict currently bound to the ContextVar in this asyncio task (None = no context)
EXT = {
    # contextvars semantics (assumed): get() returns the dict bound in the current task; reset(token) re-binds token.old_value
    "cls.request_context.get": dict(ghost_get="$ctx"),
    "cls.request_context.reset": dict(ghost_set=("$ctx", "a0.old_value")),
    "time.perf_counter": dict(returns="real"),
}
FIELDS = {
    "RequestContextManager.ctx_holder": "obj[RequestContextHolder]",
    "RequestContextManager.ctx": f"opt[{CTX}]",
    "RequestContextManager.token": "opt[obj[Token]]",
    "Token.old_value": f"opt[{CTX}]",
}
HAS_S, HAS_E = "has($ctx, 'request_start')", "has($ctx, 'request_end')"

UPD_START = dict(
    target="esrally/client/context.py::RequestContextHolder.update_request_start",
    prop="C18",
    params={"cls": "obj[RequestContextHolder]", "new_request_start": "opt[real]"},
    ghost_state=GHOST,
    externals=EXT,
    requires=["not isnone($ctx)"],
    modifies=["$ctx"],
    ensures=[
        # the recorded start is the EARLIEST start seen so far (not merely the first one reported)
        f"implies(not isnone(new_request_start) and not old({HAS_S}), {HAS_S} and $ctx['request_start'] == new_request_start)",
        f"implies(not isnone(new_request_start) and old({HAS_S}), {HAS_S} and $ctx['request_start'] == min(old($ctx['request_start']), new_request_start))",
        # a sub-request context that issued no request (None) leaves the record unchanged
        f"implies(isnone(new_request_start), {HAS_S} == old({HAS_S}) and implies({HAS_S}, $ctx['request_start'] == old($ctx['request_start'])))",
        f"{HAS_E} == old({HAS_E}) and implies({HAS_E}, $ctx['request_end'] == old($ctx['request_end']))",
    ],
    cover=["return"],
)
UPD_END = dict(
    target="esrally/client/context.py::RequestContextHolder.update_request_end",
    prop="C18",
    params={"cls": "obj[RequestContextHolder]", "new_request_end": "opt[real]"},
    ghost_state=GHOST,
    externals=EXT,
    requires=["not isnone($ctx)"],
    modifies=["$ctx"],
    ensures=[
        f"implies(not isnone(new_request_end) and not old({HAS_E}), {HAS_E} and $ctx['request_end'] == new_request_end)",
        f"implies(not isnone(new_request_end) and old({HAS_E}), {HAS_E} and $ctx['request_end'] == max(old($ctx['request_end']), new_request_end))",
        f"implies(isnone(new_request_end), {HAS_E} == old({HAS_E}) and implies({HAS_E}, $ctx['request_end'] == old($ctx['request_end'])))",
        f"{HAS_S} == old({HAS_S}) and implies({HAS_S}, $ctx['request_start'] == old($ctx['request_start']))",
    ],
    cover=["return"],
)
PAR = "old(self.token.old_value)"
CH = "self.ctx"
EXIT = dict(
    target="esrally/client/context.py::RequestContextManager.__exit__",
    prop="C18",
    self_type="obj[RequestContextManager]",
    params={"exc_type": "any", "exc_val": "any", "exc_tb": "any"},
    ghost_state=GHOST,
    fields=FIELDS,
    externals=EXT,
    consts={"contextvars.Token.MISSING": None},
    requires=[
        "not isnone(self.token) and not isnone(self.ctx) and ref($ctx) == ref(self.ctx)",
        "isnone(self.token.old_value) or ref(self.token.old_value) != ref(self.ctx)",
    ],
    ensures=[
        # the context variable is restored to the parent's record
        f"ref($ctx) == ref({PAR})",
        # propagation: the parent covers the child's requests -- earliest start, latest end; an empty child changes nothing
        f"implies(not isnone({PAR}) and has({CH}, 'request_start') and not old(has({PAR}, 'request_start')), has({PAR}, 'request_start') and {PAR}['request_start'] == {CH}['request_start'])",
        f"implies(not isnone({PAR}) and has({CH}, 'request_start') and old(has({PAR}, 'request_start')), {PAR}['request_start'] == min(old({PAR}['request_start']), {CH}['request_start']))",
        f"implies(not isnone({PAR}) and not has({CH}, 'request_start'), has({PAR}, 'request_start') == old(has({PAR}, 'request_start')) and implies(has({PAR}, 'request_start'), {PAR}['request_start'] == old({PAR}['request_start'])))",
        f"implies(not isnone({PAR}) and has({CH}, 'request_end') and not old(has({PAR}, 'request_end')), has({PAR}, 'request_end') and {PAR}['request_end'] == {CH}['request_end'])",
        f"implies(not isnone({PAR}) and has({CH}, 'request_end') and old(has({PAR}, 'request_end')), {PAR}['request_end'] == max(old({PAR}['request_end']), {CH}['request_end']))",
        f"implies(not isnone({PAR}) and not has({CH}, 'request_end'), has({PAR}, 'request_end') == old(has({PAR}, 'request_end')) and implies(has({PAR}, 'request_end'), {PAR}['request_end'] == old({PAR}['request_end'])))",
        # each sub-request's own timing is untouched by closing it
        f"has({CH}, 'request_start') == old(has({CH}, 'request_start')) and implies(has({CH}, 'request_start'), {CH}['request_start'] == old({CH}['request_start']))",
        f"has({CH}, 'request_end') == old(has({CH}, 'request_end')) and implies(has({CH}, 'request_end'), {CH}['request_end'] == old({CH}['request_end']))",
        "isnone(self.token) and result == False",
    ],
    cover=["return"],
)
ON_START = dict(
    target="esrally/client/context.py::RequestContextHolder.on_request_start",
    prop="C18",
    params={"cls": "obj[RequestContextHolder]"},
    ghost_state=GHOST,
    externals=dict(EXT, **{"time.perf_counter": dict(returns="real", event="clock")}),
    requires=["not isnone($ctx)"],
    ensures=[
        f"{HAS_S} and implies(not old({HAS_S}), $ctx['request_start'] == eva(0, 0, 'real')) and implies(old({HAS_S}), $ctx['request_start'] == min(old($ctx['request_start']), eva(0, 0, 'real')))",
        "nev() == 1",
    ],
    cover=["return"],
)
ON_END = dict(
    target="esrally/client/context.py::RequestContextHolder.on_request_end",
    prop="C18",
    params={"cls": "obj[RequestContextHolder]"},
    ghost_state=GHOST,
    externals=dict(EXT, **{"time.perf_counter": dict(returns="real", event="clock")}),
    requires=["not isnone($ctx)"],
    ensures=[
        f"{HAS_E} and implies(not old({HAS_E}), $ctx['request_end'] == eva(0, 0, 'real')) and implies(old({HAS_E}), $ctx['request_end'] == max(old($ctx['request_end']), eva(0, 0, 'real')))",
        "nev() == 1",
    ],
    cover=["return"],
)

INIT_CTX = dict(
    target="esrally/client/context.py::RequestContextHolder.init_request_context",
    prop="C18",
    params={"cls": "obj[RequestContextHolder]"},
    ghost_state=GHOST,
    externals=dict(EXT, **{
        # ContextVar.set(v): binds v in the current task and returns a token that remembers the previous binding
        "cls.request_context.set": dict(returns="obj[Token]", ghost_update=("$ctx", "a0"), ensures=["not isnone(result)"]),
    }),
    locals={"ctx": CTX},
    fields=FIELDS,
    returns=f"tuple[{CTX},obj[Token]]",
    ensures=[
        # every (sub-)request context starts EMPTY: its timing covers exactly the requests issued inside it, nothing inherited from the parent
        "not has(result[0], 'request_start') and not has(result[0], 'request_end') and not has(result[0], 'raw_response')",
        # it is a new record (not the parent's) and it is now the one bound in this task
        "ref(result[0]) >= NREF0() and ref($ctx) == ref(result[0])",
    ],
    cover=["return"],
)

CONTRACTS = [UPD_START, UPD_END, EXIT, ON_START, ON_END, INIT_CTX]
ASSUMPTIONS = [
    "contextvars semantics: ContextVar.get() returns the dict bound in the current asyncio task; reset(token) re-binds token.old_value; each task has its own binding while dict objects are shared by reference (this is what keeps different clients apart: every read/write goes through request_context.get())",
    "exact-real arithmetic for perf_counter values",
]
NOT_DECIDED = ["the event loop's interleavings (covered by order-independence: min/max are commutative and associative, so closing sub-request contexts in any order yields (min, max) at the root)", "RequestTiming / Composite.run_stream collection of per-sub-request timings (not yet under contract)"]
TRUSTED = []


def extra_checks(runner, ev):
    """Call-site obligations (wiring of the aiohttp trace hooks in client/factory.py::create_async): the request-start hook calls
    on_request_start, and every hook that marks the end of a wire request (chunk received, request end, request EXCEPTION) calls
    on_request_end -- otherwise a failed wire request never records its end."""
    import ast
    import json
    import os

    from pyvc.extract import RepoIndex

    m = RepoIndex().module("esrally/client/factory.py")
    src = m.tree
    local_defs, regs = {}, []
    for node in ast.walk(src):
        if isinstance(node, (ast.AsyncFunctionDef, ast.FunctionDef)) and node.name in ("on_request_start", "on_request_end"):
            calls = [ast.unparse(c.func) for c in ast.walk(node) if isinstance(c, ast.Call)]
            local_defs[node.name] = calls
        if isinstance(node, ast.Call) and isinstance(node.func, ast.Attribute) and node.func.attr == "append" and ast.unparse(node.func.value).startswith("trace_config.on_"):
            regs.append((ast.unparse(node.func.value).split(".", 1)[1], ast.unparse(node.args[0]), node.lineno))
    want = {"on_request_start": "on_request_start", "on_response_chunk_received": "on_request_end", "on_request_end": "on_request_end", "on_request_exception": "on_request_end"}
    bad = []
    for hook, cb, line in regs:
        if hook in want and cb != want[hook]:
            bad.append({"line": line, "hook": hook, "registered": cb, "expected": want[hook]})
    for hook in want:
        if not any(h == hook for h, _, _ in regs):
            bad.append({"hook": hook, "registered": None, "expected": want[hook]})
    for name, calls in local_defs.items():
        if not any(c.endswith("." + name) for c in calls):
            bad.append({"callback": name, "calls": calls, "expected": f"<client>.{name}()"})
    cov = ev["coverage"]
    n = len(want) + len(local_defs)
    cov["call_site_obligations"] = {"hook_registrations": regs, "failed": bad, "samples": regs[:3]}
    cov["obligations"] += n
    cov["discharged"] += n - min(n, len(bad))
    if len(local_defs) < 2:
        cov["undecided_now"].append({"function": "factory.create_async hooks", "kind": "vacuity", "detail": "trace callbacks not found"})
    if bad:
        outdir = os.path.join(os.path.dirname(os.path.dirname(os.path.abspath(__file__))), "out", "C18")
        os.makedirs(outdir, exist_ok=True)
        path = os.path.join(outdir, "trace_hook_wiring.json")
        json.dump({"property": "C18", "obligation": "C18/create_async/trace-hook-wiring", "target": "esrally/client/factory.py::EsClientFactory.create_async", "failed": bad,
                   "verifier": "syntactic call-site obligation over the aiohttp TraceConfig registrations"}, open(path, "w"), indent=1)
        print(f"VIOLATION property=C18 replay={path} no-failing-input-found")
        ev["violations"] += len(bad)
        return 1
    return 0
