"""C19 — fast-path response parsing agrees with full JSON parsing (bulk accounting proved; cursor/selective parser bounded)."""
import json
import os
import subprocess

ITEMS = "jsonloads(getvalue(response))['items']"
N = f"len({ITEMS})"
# an item failed iff its status is > 299 or it reports failed shards (the property's definition, over the fully parsed item)
FAILED = "(firstvalue(it)['status'] > 299 or ('_shards' in firstvalue(it) and firstvalue(it)['_shards']['failed'] > 0))"
MACROS = {"FAILED": dict(names=["it"], body=FAILED)}
CNT_DEF = f"len(CNT) == {N} + 1 and CNT[0] == 0 and forall(lambda j: implies(0 <= j and j < {N}, CNT[j + 1] == CNT[j] + (1 if FAILED({ITEMS}[j]) else 0)))"

SIMPLE = dict(
    target="esrally/driver/runner.py::BulkIndex.simple_stats",
    prop="C19",
    self_type="obj[BulkIndex]",
    params={"bulk_size": "int", "unit": "str", "response": "any"},
    ghost={"CNT": "list[int]"},  # CNT[j] = number of failed items among the first j items of the fully parsed response
    opaque={"jsonloads": dict(names=["t"], args=["any"], ret="any"), "getvalue": dict(names=["r"], args=["any"], ret="any"), "firstvalue": dict(names=["d"], args=["any"], ret="any"),
            "parseprops": dict(names=["r"], args=["any"], ret="any"), "nextof": dict(names=["r"], args=["any"], ret="any"), "iterof": dict(names=["r"], args=["any"], ret="any"),
            "valuesof": dict(names=["r"], args=["any"], ret="any")},
    externals={
        "parse": dict(uf="parseprops", returns="any", pure=True, params=[("text", None)]),
        "response.getvalue": dict(uf="getvalue", returns="any", pure=True, recv_arg=True),
        "json.loads": dict(uf="jsonloads", returns="any", pure=True),
        "iter": dict(uf="iterof", returns="any", pure=True),
        "item.values": dict(uf="valuesof", returns="any", pure=True, recv_arg=True),
        "next": dict(uf="nextof", returns="any", pure=True),
        "self.extract_error_details": dict(returns="none"),
        "self.error_description": dict(returns="str"),
    },
    axioms=["forall_any(lambda x: nextof(iterof(valuesof(x))) == firstvalue(x))"],
    macros=MACROS,
    rec_extra={"success-count": {"error-type": "str", "error-description": "str"}},
    requires=[CNT_DEF, "bulk_size >= 0"],
    loops={
        0: dict(
            inv=[
                f"ref(parsed_response) == ref(jsonloads(getvalue(response)))",
                "bulk_error_count == CNT[_i] and not isnone(bulk_success_count) and bulk_success_count == _i - CNT[_i]",
            ],
            locals={"bulk_success_count": "opt[int]"},
        )
    },
    ensures=[
        # fast path (the response says errors: false): nothing is counted as failed, every document of the bulk succeeded
        "implies(not parseprops(response).get('errors', False), result['error-count'] == 0 and result['success'] and implies(unit == 'docs', result['success-count'] == bulk_size))",
        # slow path: counts equal the numbers of failed / succeeded items of the fully parsed response; success iff no item failed
        f"implies(parseprops(response).get('errors', False), result['error-count'] == CNT[{N}] and result['success-count'] == {N} - CNT[{N}] and result['success'] == (CNT[{N}] == 0))",
        "has(result, 'error-type') == (result['error-count'] > 0)",
    ],
    cover=["return"],
)

CONTRACTS = [SIMPLE]
ASSUMPTIONS = [
    "json.loads, BytesIO.getvalue, next(iter(d.values())) are uninterpreted deterministic functions (the parsed response is a fixed untyped tree); numeric JSON values have a total numeric view (A-JSON-NUM)",
    "the selective parser `parse` is an uninterpreted function in the bulk contract; its agreement with full parsing is only covered by the bounded stand-in",
]
NOT_DECIDED = ["all well-formed JSON: the selective parser (ijson) and the search_after cursor regex are covered only by a bounded enumeration of response texts", "detailed_stats item loop, page accounting of Query (not yet under contract)"]
BOUNDED = []
TRUSTED = []


def extra_checks(runner, ev):
    """BOUNDED stand-in (never counted as proved): enumerated search/bulk response texts; SearchAfterExtractor._get_last_sort and runner.parse
    against json.loads on the REAL code."""
    from pyvc.extract import repo_root
    from pyvc.run import VERIF, load_known_findings

    outdir = os.path.join(VERIF, "out", "C19")
    os.makedirs(outdir, exist_ok=True)
    res_path = os.path.join(outdir, "bounded_parsing.json")
    env = dict(os.environ, PYTHONPATH=repo_root() + os.pathsep + VERIF)
    p = subprocess.run(["/venv/bin/python", os.path.join(VERIF, "bounded", "C19_parsing.py"), res_path], capture_output=True, text=True, env=env, timeout=1200)
    cov = ev["coverage"]
    if p.returncode not in (0, 1) or not os.path.exists(res_path):
        cov["undecided_now"].append({"function": "fast-path parsing (bounded)", "kind": "checker-error", "detail": (p.stdout + p.stderr)[-400:]})
        return 3
    r = json.load(open(res_path))
    cov["bounded"] = [{"name": "SearchAfterExtractor._get_last_sort + runner.parse vs json.loads", "bound": r["bound"], "cases": r["cases"], "distinct_nontrivial": r["nontrivial"],
                       "violations": len(r["violations"]), "known": r["known_class_hits"], "label": "bounded, not proved"}]
    known = load_known_findings("C19")
    rc = 0
    for tag, hits in r["known_class_hits"].items():
        k = next((k for k in known if k["tag"] == tag), None)
        if k is not None:
            print(f"KNOWN-FINDING: property=C19 {k['what']}")
            ev["coverage"].setdefault("known_findings_hit", []).append({"obligation": "C19/fast-path-parsing/bounded", "tag": tag, "cases": hits})
        else:
            r["violations"] = [r["known_examples"][tag]] + r["violations"]
    if r["violations"]:
        v = r["violations"][0]
        path = os.path.join(outdir, "bounded_violation.json")
        json.dump({"property": "C19", "obligation": "C19/fast-path-parsing/bounded", "target": "esrally/driver/runner.py::SearchAfterExtractor._get_last_sort / parse", "case": v,
                   "verifier": "bounded enumeration on the real code (stand-in, not a proof)"}, open(path, "w"), indent=1)
        print(f"VIOLATION property=C19 replay={path}")
        ev["violations"] += 1
        rc = 1
    from pyvc.run import bounded_check

    rc2 = bounded_check(ev, "C19", "C19_pagination.py", "composite-agg after_key cursor and scroll-search hit/page counters vs json.loads (real code)", "esrally/driver/runner.py::parse / CompositeAggExtractor / Query._scroll_query")
    return max(rc, rc2) if 3 not in (rc, rc2) else 3

