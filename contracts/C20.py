"""C20 — race comparison reports signed differences with the right direction."""
import ast
import os

GREEN, RED, NEUTRAL = "console.format.green", "console.format.red", "console.format.neutral"
EXT = {
    # colour functions: uninterpreted, assumed pairwise distinct on every argument (A-COLOUR)
    GREEN: dict(uf="green", returns="str", pure=True),
    RED: dict(uf="red", returns="str", pure=True),
    NEUTRAL: dict(uf="neutral", returns="str", pure=True),
}
MACROS = {
    "FMT": dict(names=["d", "p", "s"], body='f"{d:.{p}f}{s}"'),
    "PLUS": dict(names=["x"], body='f"+{x}"'),
    # the value that is classified: formatter(c-b), or the relative change in percent (0 for a zero baseline)
    "DV": dict(names=["b", "c", "f", "pct"], body="((c - b) / b if b != 0 else 0) * 100.0 if pct else f(c - b)"),
    "THR": dict(names=["pct"], body="10**-2 if pct else 10**-5"),
    "CLS": dict(names=["d", "t"], body="1 if d >= t else (-1 if d <= -t else 0)"),
    "TXT": dict(names=["d", "pct"], body='FMT(d, 2, "%") if pct else FMT(d, 5, "")'),
}
D = "DV(baseline, contender, formatter, as_percentage)"
T = "THR(as_percentage)"
TXT = f"TXT({D}, as_percentage)"

DIFF = dict(
    target="esrally/reporter.py::ComparisonReporter._diff",
    prop="C20",
    self_type="obj[ComparisonReporter]",
    params={"baseline": "real", "contender": "real", "treat_increase_as_improvement": "bool", "formatter": "ufn[real,real]", "as_percentage": "bool"},
    fields={"ComparisonReporter.plain": "bool"},
    externals=EXT,
    macros=MACROS,
    returns="str",
    ensures=[
        # sign and direction: a change of at least one printed unit is marked; increase is green iff increase is an improvement
        f"implies(not self.plain and CLS({D}, {T}) == 1 and treat_increase_as_improvement, result == {GREEN}(PLUS({TXT})))",
        f"implies(not self.plain and CLS({D}, {T}) == 1 and not treat_increase_as_improvement, result == {RED}(PLUS({TXT})))",
        f"implies(not self.plain and CLS({D}, {T}) == -1 and treat_increase_as_improvement, result == {RED}({TXT}))",
        f"implies(not self.plain and CLS({D}, {T}) == -1 and not treat_increase_as_improvement, result == {GREEN}({TXT}))",
        f"implies(not self.plain and CLS({D}, {T}) == 0, result == {NEUTRAL}({TXT}))",
        # plain (file) output: the same text without colour
        f"implies(self.plain and CLS({D}, {T}) == 1, result == PLUS({TXT}))",
        f"implies(self.plain and CLS({D}, {T}) != 1, result == {TXT})",
        # differences that print as zero are neutral (half a unit of the last printed digit rounds to zero)
        f"implies(not self.plain and not as_percentage and -0.000005 < {D} and {D} < 0.000005, result == {NEUTRAL}({TXT}))",
        f"implies(not self.plain and as_percentage and -0.005 < {D} and {D} < 0.005, result == {NEUTRAL}({TXT}))",
        # comparing a value with itself is neutral in both columns (for every formatter with f(0) == 0)
        f"implies(not self.plain and baseline == contender and formatter(0.0) == 0, result == {NEUTRAL}({TXT}))",
    ],
    lemmas={
        # L-swap (difference column): swapping baseline and contender negates the class, for every odd formatter
        "swap_diff": dict(
            vars={"b": "real", "c": "real", "formatter": "ufn[real,real]"},
            stmt="implies(formatter(b - c) == -formatter(c - b), CLS(DV(c, b, formatter, False), THR(False)) == -CLS(DV(b, c, formatter, False), THR(False)))",
        ),
        # L-swap (percentage column), same-sign baselines: the two directions never agree (never both greater, never both smaller)
        "swap_pct": dict(
            vars={"b": "real", "c": "real", "formatter": "ufn[real,real]"},
            stmt="implies(b * c > 0, CLS(DV(b, c, formatter, True), THR(True)) * CLS(DV(c, b, formatter, True), THR(True)) <= 0)",
        ),
    },
    cover=["return"],
)

LINE = dict(
    target="esrally/reporter.py::ComparisonReporter._line",
    prop="C20",
    self_type="obj[ComparisonReporter]",
    params={
        "metric": "str",
        "baseline": "opt[real]",
        "contender": "opt[real]",
        "task": "str",
        "unit": "str",
        "treat_increase_as_improvement": "bool",
        "formatter": "ufn[real,real]",
    },
    fields={"ComparisonReporter.plain": "bool"},
    externals=EXT,
    macros=MACROS,
    ensures=[
        "implies(isnone(baseline) or isnone(contender), len(result) == 0)",
        "implies(not isnone(baseline) and not isnone(contender), len(result) == 7)",
    ],
    # the non-empty row: metric, task, formatted baseline, formatted contender, contender-minus-baseline diff, unit, relative diff
    ensures_row=True,
    cover=["return"],
)
LINE["ensures"] += [
    "implies(not isnone(baseline) and not isnone(contender), result[0] == metric and result[2] == formatter(baseline) and result[3] == formatter(contender) and result[5] == unit)",
]

# the formatters used at the call sites are odd and sign preserving (what L-swap needs)
def _conv(name, factor_expr):
    return dict(
        target=f"esrally/utils/convert.py::{name}",
        prop="C20",
        params={"ms" if name.startswith("ms_") else "b": "real"},
        returns="real",
        ensures=[f"result == {('ms' if name.startswith('ms_') else 'b')} / ({factor_expr})"],
        cover=["return"],
    )


CONV = [
    _conv("bytes_to_kb", "1024"),
    _conv("bytes_to_mb", "1024 * 1024"),
    _conv("bytes_to_gb", "1024 * 1024 * 1024"),
    _conv("ms_to_seconds", "1000"),
    _conv("ms_to_minutes", "60000"),
]

# the per-task record both races are read from (a record that has a task name is never found through its operation name): the C08 contract, claimed here too
from contracts.C08 import METRICS as _METRICS  # noqa: E402

# ------------------------------------------------------------------------------------------------ write_single_report: the file gets the PLAIN rendering
WRITE_REPORT = dict(
    target="esrally/reporter.py::write_single_report",
    prop="C20",
    params={"report_file": "str", "report_format": "str", "cwd": "any", "numbers_align": "any", "headers": "any", "data_plain": "any", "data_rich": "any"},
    externals={
        "partial": dict(returns="any"),
        "formatter": dict(event="format", returns="any"),
        "print_internal": dict(event="print"),
        "rio.normalize_path": dict(returns="str", pure=True, uf="normpath"),
        "rio.dirname": dict(returns="str", pure=True, uf="dirname"),
        "rio.ensure_dir": dict(returns="none"),
        "open": {"with": "transparent", "returns": "any", "event": "open"},
        "f.writelines": dict(event="write"),
    },
    ensures=[
        # the console shows the table rendered from the rich (possibly coloured) rows ...
        "nev() >= 2 and evk(0) == 'format' and eva(0, 1, 'any') == headers and eva(0, 2, 'any') == data_rich and evk(1) == 'print' and eva(1, 1, 'any') == eva(0, 0, 'any')",
        # ... the report file gets the table rendered from the PLAIN rows (same headers, same formatter): never the console rendering
        "implies(len(report_file) > 0, nev() == 5 and evk(2) == 'open' and evk(3) == 'format' and eva(3, 1, 'any') == headers and eva(3, 2, 'any') == data_plain and "
        "evk(4) == 'write' and eva(4, 1, 'any') == eva(3, 0, 'any'))",
        "implies(len(report_file) == 0, nev() == 2)",
    ],
    raises={"SystemSetupError": dict(ensures=["report_format != 'markdown' and report_format != 'csv' and nev() == 0"])},
    cover=["return", "raise:SystemSetupError"],
)

CONTRACTS = [DIFF, LINE, WRITE_REPORT, dict(_METRICS, prop="C20")] + CONV
ASSUMPTIONS = [
    "exact-real arithmetic (floats as reals); the numeric formatting f'{x:.Nf}' is an uninterpreted function of (x, N, suffix)",
    "A-COLOUR: console.format.green/red/neutral are uninterpreted functions (distinctness of the colour codes is not needed by any obligation)",
]
NOT_DECIDED = [
    "relative difference with a zero or opposite-sign baseline (undefined; Rally prints 0)",
    "tabulate/csv rendering of the rows; per-metric _report_* row assembly beyond the direction flag",
]
TRUSTED = []


def extra_checks(runner, ev):
    """Call-site obligations generated from the AST of ComparisonReporter: every self._line(..) call passes
    treat_increase_as_improvement=True iff the metric label names a throughput (higher is better)."""
    from pyvc.extract import RepoIndex

    m = RepoIndex().module("esrally/reporter.py")
    cls = m.classes["ComparisonReporter"]
    sites, bad = [], []
    for node in ast.walk(cls):
        if isinstance(node, ast.Call) and isinstance(node.func, ast.Attribute) and node.func.attr == "_line" and ast.unparse(node.func.value) == "self":
            label = ast.unparse(node.args[0]) if node.args else "?"
            flag = None
            for kw in node.keywords:
                if kw.arg == "treat_increase_as_improvement":
                    flag = kw.value
            if flag is None and len(node.args) >= 6:
                flag = node.args[5]
            val = flag.value if isinstance(flag, ast.Constant) else None
            want = "throughput" in label.lower()
            sites.append({"line_label": label[:60], "flag": val, "expected": want})
            if val is None or val != want:
                bad.append((node.lineno, label, val, want))
    cov = ev["coverage"]
    cov["call_site_obligations"] = {"sites": len(sites), "throughput_sites": sum(1 for s in sites if s["expected"]), "failed": len(bad), "samples": sites[:4]}
    cov["obligations"] += len(sites)
    cov["discharged"] += len(sites) - len(bad)
    if len(sites) < 20:
        cov["undecided_now"].append({"function": "ComparisonReporter._line call sites", "kind": "vacuity", "detail": f"only {len(sites)} call sites found"})
    if bad:
        outdir = os.path.join(os.path.dirname(os.path.dirname(os.path.abspath(__file__))), "out", "C20")
        os.makedirs(outdir, exist_ok=True)
        import json

        path = os.path.join(outdir, "direction_call_sites.json")
        with open(path, "w") as f:
            json.dump({"property": "C20", "obligation": "C20/ComparisonReporter/_line-direction", "failed_sites": [{"line": b[0], "label": b[1], "flag": b[2], "expected": b[3]} for b in bad],
                       "verifier": "syntactic call-site obligation: treat_increase_as_improvement == ('throughput' in label)"}, f, indent=1)
        rep, desc = runner_replay(path)
        print(f"VIOLATION property=C20 replay={path}" + ("" if rep else " no-failing-input-found"))
        ev["violations"] += len(bad)
        return 1
    return 0


def runner_replay(path):
    from pyvc.run import run_replay

    return run_replay("C20", path)
