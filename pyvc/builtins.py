"""Names, attributes, subscripts, calls, comprehensions, exceptions: the part of Python's semantics PyVC models.
Everything not modelled raises OutOfSubset (the function is then reported undecided, never 'holds')."""
import ast
import hashlib

import z3

from .engine import BreakEx, ContinueEx, NeedFork, OutOfSubset, PathEnd, RaiseEx, ReturnEx, Snapshot, U, parse_spec
from .types import (
    B,
    I,
    R,
    NONE,
    V,
    atom,
    atom_id,
    fresh,
    is_none_z,
    is_opt,
    is_ref,
    parse_type,
    rec_fields,
    rec_optional,
    sort_of,
    sort_tag,
    stag,
    strip_opt,
    vbool,
    vint,
    vreal,
    vstr,
)

LOG_SINK_PREFIXES = ("self.logger.", "logger.", "logging.", "console.info", "console.println", "console.warn", "console.error", "console.debug", "LOG.", "self.log.")
LOG_SINK_NAMES = ("print", "print_internal", "print_header")

# classes of the standard library / third-party libraries that appear in raise/except: parent relation.
# Repository classes are resolved through the RepoIndex; this table is extended by facts.json (issubclass matrix
# dumped from the installed libraries under /venv on every run).
STD_BASES = {
    "BaseException": [],
    "Exception": ["BaseException"],
    "KeyboardInterrupt": ["BaseException"],
    "SystemExit": ["BaseException"],
    "GeneratorExit": ["BaseException"],
    "StopIteration": ["Exception"],
    "StopAsyncIteration": ["Exception"],
    "ArithmeticError": ["Exception"],
    "ZeroDivisionError": ["ArithmeticError"],
    "AssertionError": ["Exception"],
    "AttributeError": ["Exception"],
    "LookupError": ["Exception"],
    "IndexError": ["LookupError"],
    "KeyError": ["LookupError"],
    "OSError": ["Exception"],
    "IOError": ["OSError"],
    "FileNotFoundError": ["OSError"],
    "ConnectionError": ["OSError"],
    "TimeoutError": ["OSError"],
    "socket.timeout": ["OSError"],
    "RuntimeError": ["Exception"],
    "NotImplementedError": ["RuntimeError"],
    "TypeError": ["Exception"],
    "ValueError": ["Exception"],
    "UnicodeDecodeError": ["ValueError"],
    "json.JSONDecodeError": ["ValueError"],
    "asyncio.CancelledError": ["BaseException"],
    "CancelledError": ["BaseException"],
}
FACTS = {}  # name -> [ancestors], filled from facts.json


ALIAS = {}


def load_facts(d):
    ALIAS.update(d.pop("_alias", {}))
    FACTS.update({k: v for k, v in d.items() if not k.startswith("_")})


def dotted(node):
    parts = []
    while isinstance(node, ast.Attribute):
        parts.append(node.attr)
        node = node.value
    if isinstance(node, ast.Name):
        parts.append(node.id)
        return ".".join(reversed(parts))
    return None


# ---------------------------------------------------------------- classes
def mro(E, cls):
    out, work, seen = [], [cls], set()
    while work:
        c = work.pop(0)
        if c in seen:
            continue
        seen.add(c)
        out.append(c)
        m, cn = find_class(E, c)
        if m is not None:
            for b in m.bases.get(cn, []):
                work.append(b.split(".")[-1] if find_class(E, b.split(".")[-1])[0] is not None else b)
        elif c in FACTS:
            work.extend(FACTS[c])
        elif c in STD_BASES:
            work.extend(STD_BASES[c])
    return out


def find_class(E, name):
    m, c = E.repo.resolve_class(E.cur_mod, name)
    if m is not None:
        return m, c
    m, c = E.repo.resolve_class(E.mod, name)
    if m is not None:
        return m, c
    return E.repo.find_class(name.split(".")[-1])


def canon_class(E, name):
    """canonical name used in the subclass relation: repo classes by simple name, library classes by dotted name as in FACTS"""
    if name in ALIAS:
        return ALIAS[name]
    if name in FACTS or name in STD_BASES:
        return name
    m, c = find_class(E, name)
    if m is not None:
        return c
    # resolve an import alias: `from elasticsearch import ConnectionError` -> elasticsearch.ConnectionError
    head, _, rest = name.partition(".")
    if head in E.local_imports:
        full = E.local_imports[head] + ("." + rest if rest else "")
        return ALIAS.get(full, full)
    for mod in (E.cur_mod, E.mod):
        if head in mod.imports:
            full = mod.imports[head] + ("." + rest if rest else "")
            return ALIAS.get(full, full)
    return name


def is_subclass(E, cls, parent):
    cls, parent = canon_class(E, cls), canon_class(E, parent)
    if cls == parent:
        return True
    return parent in mro(E, cls)


def obj_truthy(E, v):
    cls = v.ty[1]
    r = resolve_method(E, cls, "__bool__") or resolve_method(E, cls, "__len__")
    if r is not None:
        raise OutOfSubset(f"truthiness via {cls}.__bool__/__len__")
    return None


def obj_eq(E, a, b):
    cls = a.ty[1]
    r = resolve_method(E, cls, "__eq__")
    if r is None:
        return None
    c = E.registry.get(f"{cls}.__eq__")
    if c is not None and c.d.get("eq_fields"):
        fs = c.d["eq_fields"]
        if not (isinstance(b.ty, tuple) and b.ty[0] == "obj"):
            return z3.BoolVal(False)
        return z3.And(*[E.eq(E.fld_read(a, f), E.fld_read(b, f)) for f in fs])
    raise OutOfSubset(f"{cls}.__eq__ without eq_fields contract")


def resolve_method(E, cls, name):
    m, c = find_class(E, cls)
    if m is None:
        return None
    return E.repo.resolve_method(m, c, name)


# ---------------------------------------------------------------- names
def global_name(E, name):
    for mod in (E.cur_mod,):
        if name in mod.functions:
            return V("fn", None, items=("def", mod.functions[name], {}, mod, None), py=name)
        if name in mod.classes:
            return V("fn", None, items=("class", name, None, mod, None), py=name)
        if name in mod.assigns:
            saved = E.st.vars
            E.st.vars = {}
            try:
                return E.ev(mod.assigns[name])
            finally:
                E.st.vars = saved
        if name in mod.imports:
            return V("fn", None, items=("module", mod.imports[name], None, mod, None), py=mod.imports[name])
    if name in E.local_imports:
        return V("fn", None, items=("module", E.local_imports[name], None, E.cur_mod, None), py=E.local_imports[name])
    if name in ("True", "False"):
        return vbool(name == "True")
    if name in PY_BUILTINS or name in STD_BASES:
        return V("fn", None, items=("builtin", name, None, None, None), py=name)
    return None


# ---------------------------------------------------------------- attributes
def attribute(E, e):
    st = E.st
    d = dotted(e)
    if d is not None and d in E.c.externals and E.c.externals[d].get("ghost_value"):
        return st.vars[E.c.externals[d]["ghost_value"]]  # a property of an un-modelled object, represented by a ghost parameter
    if d is not None and d in E.c.externals and E.c.externals[d].get("attr"):
        # an (effectful) property of an un-modelled object: evaluated like a call without arguments (recv_arg: a function of the receiver)
        return external_call(E, d, E.c.externals[d], e, None, [E.ev(e.value)] if E.c.externals[d].get("recv_arg") else [], {})
    if d is not None and d in E.c.externals and _root(e).id not in st.vars:
        return V("fn", None, items=("external", d, None, None, None), py=d)
    if d is not None and d in E.c.d.get("consts", {}) and _root(e).id not in st.vars:
        return E.ev(ast.Constant(E.c.d["consts"][d]))
    if d is not None and e.value.__class__ is ast.Name and e.value.id not in st.vars:
        # module attribute
        base = global_name(E, e.value.id)
        if base is not None and base.ty == "fn" and base.items[0] == "module":
            return module_attr(E, base.items[1], e.attr)
        if base is not None and base.ty == "fn" and base.items[0] == "class":
            return class_attr(E, base, e.attr)
    v = E.ev(e.value)
    return get_attr(E, v, e.attr, e)


def module_attr(E, dotted_mod, attr):
    m = E.repo.module_by_dotted(dotted_mod)
    if m is not None:
        if attr in m.functions:
            return V("fn", None, items=("def", m.functions[attr], {}, m, None), py=attr)
        if attr in m.classes:
            return V("fn", None, items=("class", attr, None, m, None), py=attr)
        if attr in m.assigns:
            saved, savedm = E.st.vars, E.cur_mod
            E.st.vars, E.cur_mod = {}, m
            try:
                return E.ev(m.assigns[attr])
            finally:
                E.st.vars, E.cur_mod = saved, savedm
        if attr in m.imports:
            return V("fn", None, items=("module", m.imports[attr], None, m, None), py=m.imports[attr])
    return V("fn", None, items=("module", dotted_mod + "." + attr, None, None, None), py=dotted_mod + "." + attr)


def class_attr(E, clsv, attr):
    _, cname, _, mod, _ = clsv.items
    # enum member / class constant
    key = f"{cname}.{attr}"
    if key in mod.assigns:
        if is_enum(E, cname):
            return V(("obj", cname), atom(f"enum:{cname}.{attr}"), py=key)
        saved, savedm = E.st.vars, E.cur_mod
        E.st.vars, E.cur_mod = {}, mod
        try:
            return E.ev(mod.assigns[key])
        finally:
            E.st.vars, E.cur_mod = saved, savedm
    r = E.repo.resolve_method(mod, cname, attr)
    if r is not None:
        m, c, fn = r
        return V("fn", None, items=("def", fn, {}, m, None), py=f"{c}.{attr}")
    if f"{cname}.{attr}" in mod.nested:
        return V("fn", None, items=("class", mod.nested[f"{cname}.{attr}"], None, mod, None), py=attr)
    raise OutOfSubset(f"class attribute {cname}.{attr}")


def is_enum(E, cname):
    return any(b in ("Enum", "enum.Enum", "IntEnum", "enum.IntEnum") for b in mro(E, cname))


def enum_members(E, cname):
    m, c = find_class(E, cname)
    return [k.split(".", 1)[1] for k in m.assigns if k.startswith(c + ".")]


def get_attr(E, v, attr, node=None):
    st = E.st
    if v.ty == "fn":
        kind = v.items[0]
        if kind == "module":
            return module_attr(E, v.items[1], attr)
        if kind == "class":
            return class_attr(E, v, attr)
        raise OutOfSubset(f"attribute {attr} of function")
    if v.ty == "none":
        raise RaiseEx("AttributeError", None, node)
    if isinstance(v.ty, tuple) and v.ty[0] == "obj":
        cls = v.ty[1]
        if E.c.safety and not st.spec:
            E.oblige("none-attr", v.z != 0, f"{U(node) if node is not None else attr}")
        if is_enum(E, cls) and attr in ("name", "value"):
            return V("any" if attr == "value" else "str", z3.Function(f"enum_{attr}", I, I)(v.z))
        ft = E.field_type(v.ty, attr)
        if ft is not None:
            return E.fld_read(v, attr)
        r = resolve_method(E, cls, attr)
        if r is not None:
            m, c, fn = r
            decos = [U(d) for d in fn.decorator_list]
            if "property" in decos or "functools.cached_property" in decos:
                return call_function(E, V("fn", None, items=("def", fn, {}, m, v), py=f"{c}.{attr}"), [], {}, node)
            return V("fn", None, items=("def", fn, {}, m, v), py=f"{c}.{attr}")
        key = f"{cls}.{attr}"
        m, c = find_class(E, cls)
        if m is not None and f"{c}.{attr}" in m.assigns:
            return class_attr(E, V("fn", None, items=("class", c, None, m, None)), attr)
        raise OutOfSubset(f"undeclared field {cls}.{attr}")
    if isinstance(v.ty, tuple) and v.ty[0] == "rec":
        raise OutOfSubset(f"attribute {attr} on record")
    if v.ty == "any":
        return V("any", z3.Function("any_attr", I, I, I)(v.z, atom("attr:" + attr)))
    # bound methods of builtin containers are handled in call(); reaching here means a non-call use
    return V("fn", None, items=("method", attr, None, None, v), py=attr)


def set_attribute(E, obj, attr, val, node=None):
    if not (isinstance(obj.ty, tuple) and obj.ty[0] == "obj"):
        raise OutOfSubset(f"attribute store on {obj.ty}")
    if E.c.safety:
        E.oblige("none-attr", obj.z != 0, U(node) if node is not None else attr)
    cls = obj.ty[1]
    r = resolve_method(E, cls, attr + ".setter")
    if r is not None:
        m, c, fn = r
        call_function(E, V("fn", None, items=("def", fn, {}, m, obj)), [val], {}, node)
        return
    if val.ty == "fn":
        raise OutOfSubset(f"function stored in field {attr}")
    E.fld_write(obj, attr, val)


# ---------------------------------------------------------------- subscripts
def const_index(E, node):
    v = E.ev(node)
    return v


def subscript(E, e):
    st = E.st
    base = E.ev(e.value)
    if isinstance(e.slice, ast.Slice):
        return slice_of(E, base, e.slice, e)
    key = E.ev(e.slice)
    return get_item(E, base, key, e)


def get_item(E, base, key, node=None):
    st = E.st
    t = E.full_ty(base)
    what = U(node) if node is not None else ""
    if t == "none":
        raise RaiseEx("TypeError", None, node)
    if not isinstance(t, tuple):
        if t == "any":
            return any_item(E, base, key)
        raise OutOfSubset(f"subscript on {t}: {what}")
    if t[0] == "list":
        idx = E.to_int(key)
        if key.py is not None and key.py < 0:
            idx = E.hread("len", I, base.z) + key.py
        return E.list_get(base, idx, check=not st.spec, what=what)
    if t[0] == "tuple":
        if key.py is None:
            raise OutOfSubset(f"tuple index not constant: {what}")
        items = E.tuple_items(base)
        return items[key.py]
    if t[0] == "rec":
        if key.py is None:
            raise OutOfSubset(f"record key not constant: {what}")
        if key.py in rec_optional(t) and E.c.safety and not st.spec:
            E.oblige("key", E.hread(f"has.{key.py}", B, base.z), what)
        return E.fld_read(base, key.py)
    if t[0] == "dict":
        return dict_get(E, base, key, node)
    raise OutOfSubset(f"subscript on {t}")


def set_subscript(E, tgt, val):
    base = E.ev(tgt.value)
    key = E.ev(tgt.slice)
    t = E.full_ty(base)
    if isinstance(t, tuple) and t[0] == "list":
        idx = E.to_int(key)
        if key.py is not None and key.py < 0:
            idx = E.hread("len", I, base.z) + key.py
        return E.list_set(base, idx, val, U(tgt))
    if isinstance(t, tuple) and t[0] == "rec":
        if key.py is None:
            raise OutOfSubset("record key not constant")
        if key.py not in rec_fields(t):
            raise OutOfSubset(f"record key {key.py!r} not declared in {t}")
        E.fld_write(base, key.py, val)
        E.hwrite(f"has.{key.py}", B, base.z, z3.BoolVal(True), f"key {key.py}")
        return
    if isinstance(t, tuple) and t[0] == "dict":
        return dict_set(E, base, key, val)
    raise OutOfSubset(f"subscript store on {t}")


def slice_of(E, base, sl, node):
    raise OutOfSubset(f"slice {U(node)}")


# ---------------------------------------------------------------- dicts (true maps)
def new_dict(E, kty, vty):
    ref = E.alloc()
    E.set_kind(ref, "dict")
    E.st.heap.store("len", I, ref, z3.IntVal(0))
    ks = sort_of(kty) if kty else I
    E.st.heap.store("dom." + sort_tag(ks), z3.ArraySort(ks, B), ref, z3.K(ks, z3.BoolVal(False)))
    return V(("dict", kty, vty), ref)


def dict_types(E, d):
    t = E.full_ty(d)
    if t[1] is None or t[2] is None:
        raise OutOfSubset("dict key/value type unknown (declare under locals)")
    d.ty = t
    return t[1], t[2]


def dict_names(kty, vty):
    ks, vs = sort_of(kty), sort_of(vty)
    return "dom." + sort_tag(ks), "val." + sort_tag(ks) + "." + stag(vty), ks, vs


def sel(arr, k):
    """arr[k] with the select pushed through map / store / ite / constant arrays (dict.update builds Map terms; reading one key of the
    result is then a plain boolean / ite combination of reads of the operands, which the solvers handle far better than array combinators)"""
    if z3.is_app(arr):
        kind = arr.decl().kind()
        if kind == z3.Z3_OP_ARRAY_MAP:
            return z3.get_map_func(arr)(*[sel(a, k) for a in arr.children()])
        if kind == z3.Z3_OP_STORE:
            a, i, v = arr.children()
            return v if z3.eq(i, k) else z3.If(i == k, v, sel(a, k))
        if kind == z3.Z3_OP_ITE:
            c, a, b = arr.children()
            return z3.If(c, sel(a, k), sel(b, k))
        if kind == z3.Z3_OP_CONST_ARRAY:
            return arr.arg(0)
    return arr[k]


def dict_has(E, d, key):
    kty, vty = dict_types(E, d)
    dn, vn, ks, vs = dict_names(kty, vty)
    k = E.coerce(key, kty)
    return sel(E.hread(dn, z3.ArraySort(ks, B), d.z), k.z)


def dict_get(E, d, key, node=None, check=True):
    kty, vty = dict_types(E, d)
    dn, vn, ks, vs = dict_names(kty, vty)
    k = E.coerce(key, kty)
    if check and not E.st.spec:
        has = sel(E.hread(dn, z3.ArraySort(ks, B), d.z), k.z)
        if E.c.d.get("keyerror") == "raise":
            if not E.branch(has):
                raise RaiseEx("KeyError", None, node)
        elif E.c.safety:
            E.oblige("key", has, U(node) if node is not None else "")
    z = sel(E.hread(vn, z3.ArraySort(ks, vs), d.z), k.z)
    r = V(strip_opt(vty), z)
    E.assume_wf(r, is_opt(vty))
    return r


def dict_set(E, d, key, val):
    t = E.full_ty(d)
    if t[1] is None:
        E.refine(d, ("dict", key.ty, val.ty))
    kty, vty = dict_types(E, d)
    dn, vn, ks, vs = dict_names(kty, vty)
    k = E.coerce(key, kty)
    v = E.coerce(val, vty)
    dom = E.hread(dn, z3.ArraySort(ks, B), d.z)
    vals = E.hread(vn, z3.ArraySort(ks, vs), d.z)
    n = E.len_of(d)
    E.hwrite("len", I, d.z, z3.If(dom[k.z], n, n + 1), "dict-set")
    E.hwrite(dn, z3.ArraySort(ks, B), d.z, z3.Store(dom, k.z, z3.BoolVal(True)), "dict-set")
    E.hwrite(vn, z3.ArraySort(ks, vs), d.z, z3.Store(vals, k.z, v.z), "dict-set")


def dict_del(E, d, key):
    kty, vty = dict_types(E, d)
    dn, vn, ks, vs = dict_names(kty, vty)
    k = E.coerce(key, kty)
    dom = E.hread(dn, z3.ArraySort(ks, B), d.z)
    n = E.len_of(d)
    E.hwrite("len", I, d.z, z3.If(dom[k.z], n - 1, n), "dict-del")
    E.hwrite(dn, z3.ArraySort(ks, B), d.z, z3.Store(dom, k.z, z3.BoolVal(False)), "dict-del")


def dict_update(E, d, other):
    """d.update(other): keys of `other` win. `other` is a dict (array Map combinators, no quantifiers) or a record literal (one store per key)."""
    st = E.st
    ot = E.full_ty(other)
    if isinstance(ot, tuple) and ot[0] == "rec":
        for k_, _ in ot[1]:
            key = k_.lstrip("?")
            if k_.startswith("?"):
                raise OutOfSubset("update from a record with optional keys")
            dict_set(E, d, vstr(key), E.fld_read(other, key))
        return NONE
    if not (isinstance(ot, tuple) and ot[0] == "dict"):
        if ot == "none":
            raise RaiseEx("TypeError", None, None)
        raise OutOfSubset(f"dict.update({ot})")
    if E.full_ty(d)[1] is None:
        E.refine(d, ("dict", ot[1], ot[2]))
    kty, vty = dict_types(E, d)
    k2, v2 = dict_types(E, other)
    if sort_of(kty) != sort_of(k2) or stag(vty) != stag(v2):
        raise OutOfSubset("dict.update between differently typed dicts")
    dn, vn, ks, vs = dict_names(kty, vty)
    D, Vv = E.hread(dn, z3.ArraySort(ks, B), d.z), E.hread(vn, z3.ArraySort(ks, vs), d.z)
    D2, V2 = E.hread(dn, z3.ArraySort(ks, B), other.z), E.hread(vn, z3.ArraySort(ks, vs), other.z)
    or_decl = z3.Or(z3.Bool("a!"), z3.Bool("b!")).decl()
    ite_decl = z3.If(z3.Bool("a!"), z3.Const("x!", vs), z3.Const("y!", vs)).decl()
    n, n2 = E.len_of(d), E.len_of(other)
    nn = fresh("dlen")
    st.pc.append(z3.And(nn >= n, nn >= n2, nn <= n + n2))
    E.hwrite(dn, z3.ArraySort(ks, B), d.z, z3.Map(or_decl, D, D2), "dict-update")
    E.hwrite(vn, z3.ArraySort(ks, vs), d.z, z3.Map(ite_decl, D2, V2, Vv), "dict-update")
    E.hwrite("len", I, d.z, nn, "dict-update")
    return NONE


def any_item(E, base, key):
    f = z3.Function("any_item", I, I, I)
    k = key.z if key.ty != "bool" else z3.If(key.z, 1, 0)
    if key.ty == "int":
        k = -1 - key.z  # keep integer indices apart from string-key atoms
    return V("any", f(base.z, k))


# ---------------------------------------------------------------- membership
def contains(E, cont, x):
    t = E.full_ty(cont)
    if isinstance(t, tuple) and t[0] == "list":
        ety = E.elem_ty(cont)
        j = z3.Int(f"j!in{next(_cnt)}")
        n = E.hread("len", I, cont.z)
        arr = E.hread(E.el_name(ety), z3.ArraySort(I, sort_of(ety)), cont.z)
        if x.ty == "none":
            if is_ref(ety) or ety in ("str", "any") or is_opt(ety):
                return z3.Exists([j], z3.And(0 <= j, j < n, arr[j] == 0))
            return z3.BoolVal(False)
        if x.ty == "any" and ety == "int":
            isint = z3.Function("any_is_int", I, B)(x.z)
            unbox = z3.Function("any_int", I, I)(x.z)
            ln = z3.simplify(n)
            if z3.is_int_value(ln) and ln.as_long() <= 8:
                return z3.And(isint, z3.Or(*[arr[k] == unbox for k in range(ln.as_long())]))
            return z3.And(isint, z3.Exists([j], z3.And(0 <= j, j < n, arr[j] == unbox)))
        xv = E.coerce(x, ety)
        ln = z3.simplify(n)
        if z3.is_int_value(ln) and ln.as_long() <= 8:
            return z3.Or(*[arr[k] == xv.z for k in range(ln.as_long())]) if ln.as_long() else z3.BoolVal(False)
        return z3.Exists([j], z3.And(0 <= j, j < n, arr[j] == xv.z))
    if isinstance(t, tuple) and t[0] == "tuple":
        items = E.tuple_items(cont)
        return z3.Or(*[E.eq(x, it) for it in items]) if items else z3.BoolVal(False)
    if isinstance(t, tuple) and t[0] == "dict":
        return dict_has(E, cont, x)
    if isinstance(t, tuple) and t[0] == "set":
        return dict_has(E, V(("dict", t[1], "bool"), cont.z), x)
    if isinstance(t, tuple) and t[0] == "rec":
        if x.py is None:
            raise OutOfSubset("membership in record with non-constant key")
        if x.py not in rec_fields(t):
            return z3.BoolVal(False)
        if x.py in rec_optional(t):
            return E.hread(f"has.{x.py}", B, cont.z)
        return z3.BoolVal(True)
    if t == "any":
        return z3.Function("any_has", I, I, B)(cont.z, x.z)
    if t == "str":
        return z3.Function("str_contains", I, I, B)(cont.z, x.z)
    raise OutOfSubset(f"membership test on {t}")


_cnt = __import__("itertools").count()


def tuple_order(E, o, a, b):
    ai, bi_ = E.tuple_items(a), E.tuple_items(b)
    if len(ai) != len(bi_):
        raise OutOfSubset("ordering of tuples of different length")
    strict = o in ("Lt", "Gt")
    op = "Lt" if o in ("Lt", "LtE") else "Gt"
    # lexicographic
    res = z3.BoolVal(not strict)
    for x, y in reversed(list(zip(ai, bi_))):
        res = z3.Or(E.compare(op, x, y), z3.And(E.eq(x, y), res))
    return res


# ---------------------------------------------------------------- strings
def fstring(E, e):
    parts, args = [], []
    for v in e.values:
        if isinstance(v, ast.Constant):
            parts.append(str(v.value).replace("{", "{{"))
        else:
            spec = ""
            if v.format_spec is not None:
                for sv in v.format_spec.values:
                    if isinstance(sv, ast.Constant):
                        spec += str(sv.value)
                    else:
                        spec += "{}"
                        args.append(E.ev(sv.value))
            parts.append("{" + (":" + spec if spec else "") + ("!" + chr(v.conversion) if v.conversion != -1 else "") + "}")
            args.append(E.ev(v.value))
    return format_uf(E, "".join(parts), args)


def format_uf(E, template, args):
    if not args:
        return vstr(template.replace("{{", "{"))
    if template == "{}" and args[0].ty == "str":
        return args[0]
    zs = []
    for a in args:
        zs.extend(flatten_z(E, a))
    name = "fmt_" + hashlib.sha1(template.encode()).hexdigest()[:8]
    E.notes.append(f"format template {template!r} -> {name}")
    f = z3.Function(name, *([z.sort() for z in zs] + [I]))
    r = V("str", f(*zs))
    if not E.st.bound:
        E.st.pc.append(r.z >= 1)
    E.templates = getattr(E, "templates", {})
    E.templates[name] = template
    return r


def flatten_z(E, a):
    if a.ty == "none":
        return [z3.IntVal(0)]
    if a.items is not None and a.ty != "fn":
        out = []
        for it in a.items:
            out.extend(flatten_z(E, it))
        return out
    if a.ty == "fn":
        return [atom("fn:" + str(a.py))]
    if a.ty in ("int", "real", "bool"):
        # scalars always travel with their None flag so that the arity of a formatting function does not depend on
        # whether the value is statically known to be present
        return [a.z, z3.If(a.none, 1, 0) if a.none is not None else z3.IntVal(0)]
    return [a.z]


def percent_format(E, e):
    tmpl = e.left.value
    right = e.right
    args = [E.ev(x) for x in right.elts] if isinstance(right, ast.Tuple) else [E.ev(right)]
    return format_uf(E, "%:" + tmpl, args)


def str_concat(E, a, b):
    if a.py is not None and b.py is not None and isinstance(a.py, str) and isinstance(b.py, str):
        return vstr(a.py + b.py)
    if not ({a.ty, b.ty} <= {"str", "any"}):
        raise OutOfSubset("str + non-str")
    f = z3.Function("str_concat", I, I, I)
    # an untyped operand is taken to be a string (a non-string would raise TypeError in Python: not modelled, listed under the contract's assumptions)
    r = V("str" if a.ty == "str" and b.ty == "str" else "any", f(a.z, b.z))
    if not E.st.bound:
        E.st.pc.append(r.z >= 1)
    return r


def list_concat(E, a, b):
    ety = E.elem_ty(a)
    r = E.alloc_list(ety)
    list_extend(E, r, a)
    list_extend(E, r, b)
    return r


def list_extend(E, dst, src):
    st = E.st
    t = E.full_ty(src)
    if t[0] == "tuple" or (src.items is not None):
        for it in E.tuple_items(src):
            E.list_append(dst, it)
        return
    ln = z3.simplify(E.hread("len", I, src.z))
    if z3.is_int_value(ln) and ln.as_long() <= 16 and not st.spec:
        for k in range(ln.as_long()):
            E.list_append(dst, E.list_get(src, z3.IntVal(k), check=False))
        return
    if E.full_ty(dst)[1] is None:
        E.refine(dst, ("list", E.elem_ty(src)))
    ety = E.elem_ty(dst)
    s = sort_of(ety)
    name = E.el_name(ety)
    n1, n2 = E.len_of(dst), E.len_of(src)
    a1 = E.hread(name, z3.ArraySort(I, s), dst.z)
    a2 = E.hread(name, z3.ArraySort(I, s), src.z)
    new = fresh("ext", z3.ArraySort(I, s))
    j = z3.Int(f"j!ext{next(_cnt)}")
    st.pc.append(z3.ForAll([j], z3.Implies(z3.And(0 <= j, j < n1), new[j] == a1[j])))
    st.pc.append(z3.ForAll([j], z3.Implies(z3.And(0 <= j, j < n2), new[n1 + j] == a2[j])))
    E.hwrite(name, z3.ArraySort(I, s), dst.z, new, "list-extend")
    E.hwrite("len", I, dst.z, n1 + n2, "list-extend")


def pow(E, a, b):
    if a.py == 2 and b.ty == "int":
        f = z3.Function("pow2", I, I)
        return vint(f(b.z))
    if a.py == 10 and b.ty == "int":
        f = z3.Function("pow10", I, R)
        return vreal(f(b.z))
    raise OutOfSubset("general power")


# ---------------------------------------------------------------- unpacking / deletion
def unpack(E, val, n):
    t = E.full_ty(val)
    if isinstance(t, tuple) and t[0] == "tuple":
        items = E.tuple_items(val)
        if len(items) != n:
            raise OutOfSubset("tuple unpack arity")
        return items
    if isinstance(t, tuple) and t[0] == "list":
        if E.c.safety:
            E.oblige("unpack", E.hread("len", I, val.z) == n, "")
        return [E.list_get(val, z3.IntVal(k), check=False) for k in range(n)]
    raise OutOfSubset(f"unpack of {t}")


def delete(E, t):
    if isinstance(t, ast.Subscript):
        base = E.ev(t.value)
        key = E.ev(t.slice)
        bt = E.full_ty(base)
        if isinstance(bt, tuple) and bt[0] == "dict":
            if E.c.safety:
                E.oblige("key", dict_has(E, base, key), U(t))
            return dict_del(E, base, key)
    raise OutOfSubset("del " + U(t))


# ---------------------------------------------------------------- exceptions
def make_exception(E, node):
    """raise X(...) / raise X / raise e -> (class name, V)"""
    if isinstance(node, ast.Call) and isinstance(node.func, ast.Attribute) and node.func.attr == "with_traceback" and isinstance(node.func.value, ast.Call):
        node = node.func.value  # X(...).with_traceback(tb): the same exception object
    if isinstance(node, ast.Call):
        cname = dotted(node.func)
        if cname is None:
            raise OutOfSubset("raise of computed class")
        cls = canon_class(E, cname)
        ref = E.alloc()
        exc = V(("obj", cls), ref)
        E.set_kind(ref, E.kind_name(exc.ty))
        # evaluate arguments (they may have effects / reference values); message is kept as field `args0`
        args = []
        for a in node.args:
            try:
                args.append(E.ev(a))
            except OutOfSubset:
                args.append(None)
        if args and args[0] is not None and args[0].ty == "str":
            E.fields.setdefault(f"{cls}.message", "str")
            E.st.heap.store(E.fld_name(exc.ty, "message", "str"), I, ref, args[0].z)
        E.exc_args = getattr(E, "exc_args", {})
        E.exc_args[ref.get_id()] = args
        return cls, exc
    if isinstance(node, ast.Name) and node.id in E.st.vars:
        v = E.st.vars[node.id]
        if isinstance(v.ty, tuple) and v.ty[0] == "obj":
            return v.ty[1], v
    cname = dotted(node)
    if cname is not None:
        cls = canon_class(E, cname)
        return cls, V(("obj", cls), E.alloc())
    raise OutOfSubset("raise " + U(node))


def opaque_exception(E, cls):
    """an exception object raised by a callee: a fresh object (aliases nothing), fields unconstrained"""
    if E.st.spec or E.st.pure:
        return E.symbolic("exc", ("obj", cls))
    ref = E.alloc()
    E.set_kind(ref, E.kind_name(("obj", cls)))
    return V(("obj", cls), ref)


def handler_matches(E, h, r):
    if h.type is None:
        return True
    types = h.type.elts if isinstance(h.type, ast.Tuple) else [h.type]
    for t in types:
        name = dotted(t)
        if name is None:
            raise OutOfSubset("computed except clause")
        if is_subclass(E, r.cls, name):
            return True
    return False


# ---------------------------------------------------------------- with
def with_stmt(E, n):
    for item in n.items:
        d = dotted(item.context_expr.func) if isinstance(item.context_expr, ast.Call) else dotted(item.context_expr)
        ext = E.c.externals.get(d) if d else None
        if ext is None and isinstance(item.context_expr, ast.Call) and isinstance(item.context_expr.func, ast.Attribute):
            ext = E.c.externals.get("*." + item.context_expr.func.attr)  # context manager of an untyped object, declared by method name
        if ext is not None and ext.get("with") == "transparent":
            if (ext.get("event") or ext.get("outcomes")) and not ext.get("with_plain"):
                val = external_call(E, d, ext, item.context_expr)  # entering the context is an observable external call (event / outcomes)
            else:
                val = E.symbolic("ctx", parse_type(ext.get("returns", "any")))
            if item.optional_vars is not None:
                E.assign(item.optional_vars, val)
            continue
        cm = E.ev(item.context_expr)
        if isinstance(cm.ty, tuple) and cm.ty[0] == "obj":
            ent = get_attr(E, cm, "__enter__")
            val = call_function(E, ent, [], {}, n)
            if item.optional_vars is not None:
                E.assign(item.optional_vars, val)
            try:
                E.block(n.body)
            except (RaiseEx,) as r:
                ex = get_attr(E, cm, "__exit__")
                swallowed = call_function(E, ex, [V("any", atom("exc-type")), r.exc or NONE, NONE], {}, n)
                raise
            except (ReturnEx, BreakEx, ContinueEx):
                ex = get_attr(E, cm, "__exit__")
                call_function(E, ex, [NONE, NONE, NONE], {}, n)
                raise
            ex = get_attr(E, cm, "__exit__")
            call_function(E, ex, [NONE, NONE, NONE], {}, n)
            return
        raise OutOfSubset("with " + U(item.context_expr))
    E.block(n.body)


# ---------------------------------------------------------------- iteration
def iterator(E, it):
    """returns (lo, hi, elem(i) -> V)"""
    st = E.st
    if isinstance(it, ast.Call):
        f = dotted(it.func)
        if f == "range":
            a = [E.to_int(E.ev(x)) for x in it.args]
            lo, hi = (z3.IntVal(0), a[0]) if len(a) == 1 else (a[0], a[1])
            if len(a) == 3:
                raise OutOfSubset("range with step")
            return lo, hi, lambda i: vint(i)
        if f == "enumerate":
            lo, hi, el = iterator(E, it.args[0])
            start = E.to_int(E.ev(it.keywords[0].value)) if it.keywords else (E.to_int(E.ev(it.args[1])) if len(it.args) > 1 else z3.IntVal(0))
            return lo, hi, lambda i: E.new_tuple([vint(i - lo + start), el(i)])
        if f == "zip":
            its = [iterator(E, a) for a in it.args]
            if E.c.safety:
                pass
            hi = its[0][1]
            for _, h, _ in its[1:]:
                hi = z3.If(h < hi, h, hi)
            return z3.IntVal(0), hi, lambda i: E.new_tuple([el(i) for _, _, el in its])
        if f in ("reversed",):
            lo, hi, el = iterator(E, it.args[0])
            return lo, hi, lambda i: el(hi - 1 - (i - lo))
        if isinstance(it.func, ast.Attribute) and it.func.attr in ("items", "keys", "values"):
            d = E.ev(it.func.value)
            t = E.full_ty(d)
            if isinstance(t, tuple) and t[0] == "dict":
                return dict_iter(E, d, it.func.attr)
            if isinstance(t, tuple) and t[0] == "rec" and it.func.attr == "items":
                raise OutOfSubset("iteration over record items")
    v = E.ev(it)
    t = E.full_ty(v)
    if isinstance(t, tuple) and t[0] == "list":
        n = E.len_of(v)
        snap_heap = st.heap.copy()  # iteration reads the list as it is at each access; we assume it is not mutated in the loop

        def el(i, v=v):
            return E.list_get(v, i, check=False)

        return z3.IntVal(0), n, el
    if isinstance(t, tuple) and t[0] == "tuple":
        raise OutOfSubset("iteration over tuple with invariant (unroll instead)")
    if isinstance(t, tuple) and t[0] == "obj":
        return obj_iter(E, v)
    if isinstance(t, tuple) and t[0] == "dict":
        return dict_iter(E, v, "keys")
    if t == "any":
        # an untyped (JSON) value iterated as a list: length any_len(x), element i = x[i]
        n = z3.Function("any_len", I, I)(v.z)
        st.pc.append(n >= 0)
        return z3.IntVal(0), n, lambda i, v=v: any_item(E, v, vint(i))
    raise OutOfSubset(f"iteration over {t}")


def obj_iter(E, v):
    """iteration over an object whose class defines `def __iter__(self): return iter(<list expression>)`; for a union type the path forks on the class"""
    classes = v.ty[1].split("|")
    if len(classes) > 1:
        k = z3.Function("kind", I, I)(v.z)
        idx = E.choose([k == atom("kind:" + E.kind_name(("obj", c_))) for c_ in classes])
        v = V(("obj", classes[idx]), v.z)
    r = resolve_method(E, v.ty[1], "__iter__")
    if r is None:
        raise OutOfSubset(f"iteration over {v.ty[1]} without __iter__")
    m, c, fn = r
    body = [s_ for s_ in fn.body if not (isinstance(s_, ast.Expr) and isinstance(s_.value, ast.Constant))]
    if not (len(body) == 1 and isinstance(body[0], ast.Return) and isinstance(body[0].value, ast.Call) and dotted(body[0].value.func) == "iter" and len(body[0].value.args) == 1):
        raise OutOfSubset(f"{c}.__iter__ is not of the form `return iter(<expr>)`")
    saved = E.st.vars, E.cur_mod
    E.st.vars, E.cur_mod = dict(E.st.vars, self=v), m
    try:
        lst = E.ev(body[0].value.args[0])
    finally:
        E.st.vars, E.cur_mod = saved
    if not (isinstance(E.full_ty(lst), tuple) and E.full_ty(lst)[0] == "list"):
        raise OutOfSubset(f"{c}.__iter__ iterates over {E.full_ty(lst)}")
    n = E.len_of(lst)
    return z3.IntVal(0), n, lambda i, lst=lst: E.list_get(lst, i, check=False)


def dict_keys_list(E, d):
    """ghost key list of a dict: distinct keys, exactly the domain, in iteration (insertion) order"""
    kty, vty = dict_types(E, d)
    dn, vn, ks, vs = dict_names(kty, vty)
    n = E.len_of(d)
    keys = fresh("keys", z3.ArraySort(I, ks))
    dom = E.hread(dn, z3.ArraySort(ks, B), d.z)
    j, j2 = z3.Int(f"j!k{next(_cnt)}"), z3.Int(f"j!k{next(_cnt)}")
    kk = z3.Const(f"k!k{next(_cnt)}", ks)
    idx = z3.Function(f"keyidx!{next(_cnt)}", ks, I)
    E.st.pc.append(z3.ForAll([j], z3.Implies(z3.And(0 <= j, j < n), z3.And(dom[keys[j]], idx(keys[j]) == j))))
    E.st.pc.append(z3.ForAll([kk], z3.Implies(dom[kk], z3.And(0 <= idx(kk), idx(kk) < n, keys[idx(kk)] == kk))))
    return keys, n


def dict_iter(E, d, what):
    kty, vty = dict_types(E, d)
    dn, vn, ks, vs = dict_names(kty, vty)
    keys, n = dict_keys_list(E, d)
    E.st.vars.setdefault("_dictkeys", None)

    def el(i):
        k = V(strip_opt(kty), keys[i])
        if what == "keys":
            return k
        val = dict_get(E, d, k, check=False)
        if what == "values":
            return val
        return E.new_tuple([k, val])

    return z3.IntVal(0), n, el


def unroll_for(E, n):
    """a for loop without invariant: unrolled when the iterable has a static length"""
    it = n.iter
    items = None
    if isinstance(it, (ast.Tuple, ast.List)):
        items = [E.ev(x) for x in it.elts]
    elif isinstance(it, ast.Call) and dotted(it.func) == "range" and all(isinstance(a, ast.Constant) for a in it.args):
        items = [vint(k) for k in range(*[a.value for a in it.args])]
    else:
        v = E.ev(it)
        t = E.full_ty(v)
        if isinstance(t, tuple) and t[0] == "tuple":
            items = E.tuple_items(v)
        elif isinstance(t, tuple) and t[0] == "list":
            ln = z3.simplify(E.hread("len", I, v.z))
            if z3.is_int_value(ln) and ln.as_long() <= 16:
                items = [E.list_get(v, z3.IntVal(k), check=False) for k in range(ln.as_long())]
    if items is None:
        k = E.loop_ord.get(id(n))
        raise OutOfSubset(f"for loop #{k} (line +{n.lineno - E.fn.lineno}) without invariant: {U(n.iter)[:60]}")
    for v in items:
        E.assign(n.target, v)
        try:
            E.block(n.body)
        except ContinueEx:
            continue
        except BreakEx:
            return
    if n.orelse:
        E.block(n.orelse)


# ---------------------------------------------------------------- comprehensions
def listcomp(E, e):
    if len(e.generators) != 1:
        raise OutOfSubset("nested comprehension")
    g = e.generators[0]
    st = E.st
    # static iterables are expanded
    try_static = None
    if isinstance(g.iter, (ast.Tuple, ast.List)):
        try_static = [E.ev(x) for x in g.iter.elts]
    else:
        v = None
        if not (isinstance(g.iter, ast.Call)):
            v = E.ev(g.iter)
            t = E.full_ty(v)
            if isinstance(t, tuple) and t[0] == "tuple":
                try_static = E.tuple_items(v)
            elif isinstance(t, tuple) and t[0] == "list":
                ln = z3.simplify(E.hread("len", I, v.z))
                if z3.is_int_value(ln) and ln.as_long() <= 16:
                    try_static = [E.list_get(v, z3.IntVal(k), check=False) for k in range(ln.as_long())]
    if try_static is not None:
        out = []
        saved = dict(st.vars)
        for it in try_static:
            E.assign(g.target, it)
            ok = True
            for cond in g.ifs:
                if not E.branch(E.truthy(E.ev(cond))):
                    ok = False
                    break
            if ok:
                out.append(E.ev(e.elt))
        for k in list(st.vars):
            if k not in saved:
                del st.vars[k]
        if st.spec:
            return E.new_tuple(out)
        return E.list_from(out, out[0].ty if out else None)
    # symbolic-length map without filter: fresh list with a pointwise axiom
    lo, hi, el = iterator(E, g.iter)
    j = z3.Int(f"j!lc{next(_cnt)}")
    saved = dict(st.vars)
    st.bound.append(j)
    st.pure += 1
    try:
        E.assign(g.target, el(lo + j))
        conds = [E.truthy(E.ev(c)) for c in g.ifs]
        body = E.ev(e.elt)
    except NeedFork:
        raise OutOfSubset("comprehension body needs a fork: " + U(e)[:60])
    finally:
        st.pure -= 1
        st.bound.pop()
        for k in list(st.vars):
            if k not in saved:
                del st.vars[k]
            else:
                st.vars[k] = saved[k]
    if body.z is None:
        raise OutOfSubset("comprehension element is not a scalar/reference: " + U(e)[:60])
    n = z3.If(hi >= lo, hi - lo, 0)
    if st.spec:
        raise OutOfSubset("symbolic comprehension in spec")
    if conds:
        # [f(x) for x in xs if P(x)]: a fresh list characterised by soundness, completeness and its first element (order-preserving filter)
        cond = z3.And(*conds)
        r = E.alloc_list(body.ty)
        s_ = sort_of(body.ty)
        arr = fresh("lcf", z3.ArraySort(I, s_))
        nr = fresh("lcf_len")
        k = z3.Int(f"k!lc{next(_cnt)}")
        j2 = z3.Int(f"j!lc{next(_cnt)}")
        inr = z3.And(0 <= j, j < n)
        body2, cond2 = z3.substitute(body.z, (j, j2)), z3.substitute(cond, (j, j2))
        st.pc.append(z3.And(nr >= 0, nr <= n))
        st.pc.append(z3.ForAll([k], z3.Implies(z3.And(0 <= k, k < nr), z3.Exists([j], z3.And(inr, cond, arr[k] == body.z)))))
        st.pc.append(z3.ForAll([j], z3.Implies(z3.And(inr, cond), z3.Exists([k], z3.And(0 <= k, k < nr, arr[k] == body.z)))))
        st.pc.append(z3.Implies(nr > 0, z3.Exists([j], z3.And(inr, cond, arr[0] == body.z, z3.ForAll([j2], z3.Implies(z3.And(0 <= j2, j2 < j), z3.Not(cond2)))))))
        st.heap.store(E.el_name(body.ty), z3.ArraySort(I, s_), r.z, arr)
        st.heap.store("len", I, r.z, nr)
        return r
    r = E.alloc_list(body.ty)
    s = sort_of(body.ty)
    arr = fresh("lc", z3.ArraySort(I, s))
    st.pc.append(z3.ForAll([j], z3.Implies(z3.And(0 <= j, j < n), arr[j] == body.z)))
    st.heap.store(E.el_name(body.ty), z3.ArraySort(I, s), r.z, arr)
    st.heap.store("len", I, r.z, n)
    return r


# ---------------------------------------------------------------- calls
PY_BUILTINS = {"filter", "len", "min", "max", "abs", "int", "float", "round", "range", "isinstance", "str", "bool", "sum", "sorted", "list", "tuple", "dict", "set", "enumerate", "zip", "any", "all", "type", "repr", "hasattr", "getattr", "iter", "next", "print", "issubclass", "id", "callable", "reversed", "super", "open", "bytes", "bytearray", "divmod"}


def eval_args(E, e):
    args, kwargs = [], {}
    for a in e.args:
        if isinstance(a, ast.Starred):
            v = E.ev(a.value)
            t = E.full_ty(v)
            if isinstance(t, tuple) and t[0] == "tuple":
                args.extend(E.tuple_items(v))
            else:
                args.append(V("fn", None, items=("starred", v, None, None, None)))
        else:
            args.append(E.ev(a))
    for k in e.keywords:
        if k.arg is None:
            v = E.ev(k.value)
            kwargs["**"] = v
        else:
            kwargs[k.arg] = E.ev(k.value)
    return args, kwargs


def call(E, e):
    st = E.st
    d = dotted(e.func)
    # 1. dropped sinks (arguments are not evaluated: A-LOG)
    if d is not None and d not in E.c.externals and (d.startswith(LOG_SINK_PREFIXES) or d in LOG_SINK_NAMES):
        return NONE
    if d is None and isinstance(e.func, ast.Attribute) and isinstance(e.func.value, ast.Call):
        inner = dotted(e.func.value.func)
        if inner is not None and inner.startswith(LOG_SINK_PREFIXES):
            return NONE  # logging.getLogger(..).warning(..)
    # 2. spec vocabulary
    if d in SPEC_FUNCS and (st.spec or d in ("ghost_assert",)):
        return SPEC_FUNCS[d](E, e)
    if d is not None and d in E.c.opaque:
        return opaque_call(E, d, [E.ev(a) for a in e.args])
    if d is not None and d in E.c.macros and st.spec:
        return macro_call(E, d, [E.ev(a) for a in e.args])
    # 3. externals declared in the contract (by dotted name as written at the call site)
    if d is not None and d in E.c.externals:
        return external_call(E, d, E.c.externals[d], e)
    # 4. python builtins (unless shadowed)
    if isinstance(e.func, ast.Name) and e.func.id in PY_BUILTINS and e.func.id not in st.vars:
        return py_builtin(E, e.func.id, e)
    if d in LIB_FUNCS:
        return LIB_FUNCS[d](E, e)
    # 5. method on a value
    if isinstance(e.func, ast.Attribute):
        # super().method(...)
        if isinstance(e.func.value, ast.Call) and dotted(e.func.value.func) == "super":
            return super_call(E, e)
        # module function?
        fv = None
        if d is not None and isinstance(_root(e.func), ast.Name) and _root(e.func).id not in st.vars:
            fv = attribute(E, e.func)
        else:
            recv = E.ev(e.func.value)
            if recv.ty == "fn" and recv.items[0] in ("module", "class"):
                fv = get_attr(E, recv, e.func.attr, e.func)
            else:
                t = E.full_ty(recv)
                if isinstance(t, tuple) and t[0] == "obj":
                    # external by class-qualified name
                    for c in mro(E, t[1]):
                        key = f"{c}.{e.func.attr}"
                        if key in E.c.externals:
                            return external_call(E, key, E.c.externals[key], e, recv)
                    fv = get_attr_method(E, recv, e.func.attr, e)
                else:
                    return container_method(E, recv, e.func.attr, e)
        args, kwargs = eval_args(E, e)
        return call_function(E, fv, args, kwargs, e)
    # 6. plain name
    fv = E.ev(e.func)
    args, kwargs = eval_args(E, e)
    return call_function(E, fv, args, kwargs, e)


def _root(n):
    while isinstance(n, ast.Attribute):
        n = n.value
    return n


def get_attr_method(E, recv, name, e):
    cls = recv.ty[1]
    if E.c.safety and not E.st.spec:
        E.oblige("none-attr", recv.z != 0, U(e.func))
    r = resolve_method(E, cls, name)
    if r is None:
        ft = E.field_type(recv.ty, name)
        if ft is not None:
            return E.fld_read(recv, name)
        raise OutOfSubset(f"unknown method {cls}.{name} (declare an external)")
    m, c, fn = r
    return V("fn", None, items=("def", fn, {}, m, recv), py=f"{c}.{name}")


def call_function(E, fv, args, kwargs, node):
    if fv.ty == "any" and E.c.d.get("any_not_callable"):
        # calling a plain value (e.g. an actor address) raises TypeError; the contract states that such values are not callable
        raise RaiseEx("TypeError", None, node)
    if fv.ty != "fn":
        raise OutOfSubset(f"call of non-function value {fv.ty}: {U(node)[:60] if node is not None else ''}")
    kind = fv.items[0]
    if kind == "builtin":
        name = fv.items[1]
        if name in STD_BASES:
            ref = E.alloc()
            return V(("obj", name), ref)
        raise OutOfSubset(f"builtin {name} used as a value")
    if kind == "module":
        name = fv.items[1]
        if name in LIB_FUNCS:
            return LIB_FUNCS[name](E, node, args)
        if name in E.c.externals:
            return external_call(E, name, E.c.externals[name], node, None, args, kwargs)
        raise OutOfSubset(f"undeclared external {name}")
    if kind == "class":
        return construct(E, fv, args, kwargs, node)
    if kind == "external":
        return external_call(E, fv.items[1], E.c.externals[fv.items[1]], node, None, args, kwargs)
    if kind == "uf":
        _, f, atys, rty, _ = fv.items
        zs = [E.coerce(a, parse_type(t)).z for a, t in zip(args, atys)]
        r = V(strip_opt(parse_type(rty)), f(*zs))
        E.assume_wf(r, is_opt(parse_type(rty)))
        return r
    if kind == "method":
        raise OutOfSubset("bound container method as value")
    if kind == "lambda":
        _, lam, closure, mod, _ = fv.items
        return inline(E, lam, closure, mod, None, args, kwargs, node, is_lambda=True)
    _, fn, closure, mod, selfv = fv.items
    qual = fv.py or fn.name
    # contract?
    c = E.registry.get(qual)
    if c is not None and qual != E.c.qual and qual not in E.c.inline or (c is not None and qual == E.c.qual):
        return call_by_contract(E, c, fn, mod, selfv, args, kwargs, node)
    return inline(E, fn, closure, mod, selfv, args, kwargs, node)


def bind(E, fn, selfv, args, kwargs, mod):
    a = fn.args
    names = [x.arg for x in a.posonlyargs + a.args]
    env = {}
    pos = list(args)
    decos = [U(d) for d in getattr(fn, "decorator_list", [])]
    if selfv is not None and "staticmethod" not in decos:
        pos = [selfv] + pos
    elif selfv is None and names and names[0] in ("self",) and len(pos) == len(names) - 1 + 0 and False:
        pass
    if "classmethod" in decos and (selfv is None):
        owner = next((c_ for (c_, _n), f_ in mod.methods.items() if f_ is fn and "." not in c_), "?") if mod is not None else "?"
        pos = [V("fn", None, items=("class", owner, None, mod, None))] + pos  # cls = the class that defines the method (subclass dispatch is not modelled)
    if len(pos) > len(names) and not a.vararg:
        raise OutOfSubset(f"too many positional args for {fn.name}")
    for nm, v in zip(names, pos):
        env[nm] = v
    if a.vararg:
        env[a.vararg.arg] = E.new_tuple(pos[len(names):])
    defaults = a.defaults
    for k, nm in enumerate(names):
        if nm in env:
            continue
        if nm in kwargs:
            env[nm] = kwargs.pop(nm)
            continue
        di = k - (len(names) - len(defaults))
        if di >= 0:
            saved, savedm = E.st.vars, E.cur_mod
            E.st.vars, E.cur_mod = {}, mod
            try:
                env[nm] = E.ev(defaults[di])
            finally:
                E.st.vars, E.cur_mod = saved, savedm
        else:
            raise OutOfSubset(f"missing argument {nm} for {fn.name}")
    for kw, dflt in zip(a.kwonlyargs, a.kw_defaults):
        if kw.arg in kwargs:
            env[kw.arg] = kwargs.pop(kw.arg)
        elif dflt is not None:
            saved, savedm = E.st.vars, E.cur_mod
            E.st.vars, E.cur_mod = {}, mod
            try:
                env[kw.arg] = E.ev(dflt)
            finally:
                E.st.vars, E.cur_mod = saved, savedm
        else:
            raise OutOfSubset(f"missing kw-only argument {kw.arg}")
    if a.kwarg:
        if kwargs:
            raise OutOfSubset("**kwargs collection")
        env[a.kwarg.arg] = V(("rec", ()), z3.IntVal(0))
    elif kwargs:
        raise OutOfSubset(f"unexpected keyword arguments {list(kwargs)} for {fn.name}")
    return env


def inline(E, fn, closure, mod, selfv, args, kwargs, node, is_lambda=False):
    st = E.st
    if E.inline_depth >= E.MAX_INLINE:
        raise OutOfSubset("inline depth")
    if not is_lambda and fn.name in E.c.noinline:
        raise OutOfSubset(f"callee {fn.name} needs a contract")
    env = dict(closure) if closure else {}
    env.update(bind(E, fn, selfv, args, dict(kwargs), mod))
    for k_ in st.vars:
        if k_.startswith("$") or k_ in E.c.ghost:
            env.setdefault(k_, st.vars[k_])  # ghost state and ghost parameters are visible in every frame
    saved = (st.vars, E.cur_mod, E.loop_ord)
    st.vars, E.cur_mod = env, mod
    if not is_lambda:
        # loops of an inlined callee are keyed "<name>:<k>" in the contract
        lo = {}
        loops_ = [x for x in ast.walk(fn) if isinstance(x, (ast.For, ast.While, ast.AsyncFor))]
        for k, x in enumerate(sorted(loops_, key=lambda x: (x.lineno, x.col_offset))):
            lo[id(x)] = f"{fn.name}:{k}"
        E.loop_ord = lo
    E.inline_depth += 1
    try:
        if is_lambda:
            return E.ev(fn.body)
        try:
            E.block(fn.body)
            return NONE
        except ReturnEx as r:
            return r.value
    finally:
        E.inline_depth -= 1
        for k_ in env:
            if k_.startswith("$"):
                saved[0][k_] = st.vars.get(k_, env[k_])  # ghost state written by the callee is visible to the caller
        st.vars, E.cur_mod, E.loop_ord = saved


def construct(E, clsv, args, kwargs, node):
    _, cname, _, mod, _ = clsv.items
    if cname in STD_BASES or is_subclass(E, cname, "BaseException"):
        ref = E.alloc()
        return V(("obj", canon_class(E, cname)), ref)
    # namedtuple?
    c = E.registry.get(f"{cname}.__init__")
    ref = E.alloc()
    obj = V(("obj", cname), ref)
    E.set_kind(ref, E.kind_name(obj.ty))
    E.st.heap.store("cls", I, ref, atom("cls:" + cname))
    r = E.repo.resolve_method(mod, cname, "__init__")
    if r is None:
        if args or kwargs:
            # a dataclass-style class (annotated fields, no __init__): positional / keyword arguments fill the annotated fields in order,
            # the rest take their class-level defaults
            cm_, cn_ = find_class(E, cname)
            cdef_ = cm_.classes.get(cn_) if cm_ is not None else None
            ann = [n_ for n_ in (cdef_.body if cdef_ is not None else []) if isinstance(n_, ast.AnnAssign) and isinstance(n_.target, ast.Name)]
            if not ann or len(args) > len(ann) or any(k_ not in [a_.target.id for a_ in ann] for k_ in kwargs):
                raise OutOfSubset(f"constructor args for {cname} without __init__")
            for k_, a_ in enumerate(ann):
                nm = a_.target.id
                if k_ < len(args):
                    val = args[k_]
                elif nm in kwargs:
                    val = kwargs[nm]
                elif a_.value is not None:
                    val = E.ev(a_.value)
                else:
                    raise OutOfSubset(f"{cname}: no value for field {nm}")
                if E.field_type(obj.ty, nm) is not None:
                    set_attribute(E, obj, nm, val, node)
        return obj
    m, cdef, fn = r
    fv = V("fn", None, items=("def", fn, {}, m, obj), py=f"{cdef}.__init__")
    call_function(E, fv, args, kwargs, node)
    return obj


def super_call(E, e):
    st = E.st
    selfv = st.vars.get("self")
    if selfv is None:
        raise OutOfSubset("super() without self")
    # class that lexically contains the current function: find by searching cur_mod classes for the method node -- approximate via self type
    cls = selfv.ty[1]
    m, c = find_class(E, cls)
    name = e.func.attr
    for b in m.bases.get(c, []):
        bm, bc = E.repo.resolve_class(m, b)
        if bm is None:
            continue
        r = E.repo.resolve_method(bm, bc, name)
        if r is not None:
            mm, cc, fn = r
            args, kwargs = eval_args(E, e)
            return call_function(E, V("fn", None, items=("def", fn, {}, mm, selfv), py=f"{cc}.{name}"), args, kwargs, e)
    if name == "__init__":
        return NONE
    raise OutOfSubset(f"super().{name} not found")


# ---- call by contract
def call_by_contract(E, c, fn, mod, selfv, args, kwargs, node):
    st = E.st
    if st.spec or st.pure:
        if not c.d.get("pure"):
            raise NeedFork() if st.pure and not st.spec else OutOfSubset(f"impure call {c.qual} in spec")
    if c.returns is None and any(isinstance(x, ast.Return) and x.value is not None and not (isinstance(x.value, ast.Constant) and x.value.value is None) for x in ast.walk(fn)):
        raise OutOfSubset(f"contract of {c.qual} is used at a call site but declares no `returns` type")
    env = bind(E, fn, selfv, args, dict(kwargs), mod)
    for nm in st.vars:
        if nm.startswith("$"):
            env[nm] = st.vars[nm]
    saved_vars, saved_entry = st.vars, st.labels.get("entry")
    pre = Snapshot(st)
    pre.vars = dict(env)
    # requires
    st.vars = env
    st.labels["entry"] = pre
    saved_c = E.c
    try:
        E_opaque_merge(E, c)
        for j, r in enumerate(c.requires):
            z = E.spec(r)
            st.vars = saved_vars
            E.oblige("call-pre", z, f"{c.qual}/{j}@{getattr(node, 'lineno', 0) - E.fn.lineno}")
            st.vars = env
        # havoc
        mods = [E.ev_spec_value(x).z for x in c.modifies]
        # a callee with event externals appends to the ghost trace (default; `emits` overrides)
        emits_ = c.d.get("emits", any(isinstance(x, dict) and x.get("event") for x in c.externals.values()))
        havocked_ = bool(mods or c.d.get("allocates") or c.modifies == "*" or emits_)
        if havocked_:
            for m_ in mods:
                E.wframe(m_, f"call {c.qual}")
            if "$trace" in st.vars and emits_:
                mods.append(st.vars["$trace"].z)
            nentry_ = st.nref
            st.nref = fresh("nref")
            st.pc.append(st.nref >= pre.nref)
            only_ = [(E.ev_spec_value(objexpr).z, list(flds)) for objexpr, flds in c.d.get("only_fields", {}).items()]
            st.heap.havoc(nentry_, mods, st.nref, only_)  # field-granular frame of the callee (verified at the callee's exits)
            E.drain()
            E.trace_prefix_preserved(pre.heap)
        for gname in c.d.get("ghost_modifies", []):
            gty = c.d.get("ghost_state", {}).get(gname) or E.c.d.get("ghost_state", {}).get(gname)
            env[gname] = E.symbolic(gname.strip("$"), parse_type(gty))
            saved_vars[gname] = env[gname]
        outcomes = ["return"] + [k for k in c.raises]
        k = E.choose([z3.BoolVal(True)] * len(outcomes), check=False) if len(outcomes) > 1 else 0
        if k == 0:
            rty = c.returns
            res = E.symbolic("ret", rty) if rty is not None else NONE
            if res.ty != "none" and res.items is None and is_ref(res.ty) and c.d.get("fresh_result"):
                st.pc.append(res.z >= pre.nref)
            env2 = dict(env)
            env2["result"] = res
            st.vars = env2
            for post in c.ensures:
                st.pc.append(E.spec(post))
            for name, spec in c.raises.items():
                if isinstance(spec, dict) and spec.get("iff"):
                    st.pc.append(z3.Not(E.spec(spec["iff"], old=True)))
            return res
        name = outcomes[k]
        spec = c.raises[name]
        if isinstance(spec, str):
            spec = {"when": spec}
        if havocked_:
            # the exception object was created DURING the call: it lies in the allocation window of the call (so that the callee's
            # postcondition may relate it to what the call stored, e.g. a ghost event that records it)
            ecls = canon_class(E, name)
            exc = V(("obj", ecls), fresh("exc"))
            st.pc.append(z3.And(exc.z >= pre.nref, exc.z < st.nref))
            E.set_kind(exc.z, E.kind_name(("obj", ecls)))
        else:
            exc = opaque_exception(E, canon_class(E, name))
        env2 = dict(env)
        env2["exc"] = exc
        st.vars = env2
        for key in ("when", "iff"):
            if spec.get(key):
                st.pc.append(E.spec(spec[key], old=True))
        for post in spec.get("ensures", []):
            st.pc.append(E.spec(post))
        E.prune()
        raise RaiseEx(canon_class(E, name), exc, node)
    finally:
        st.vars = saved_vars
        if saved_entry is not None:
            st.labels["entry"] = saved_entry


def E_opaque_merge(E, c):
    for k, v in c.opaque.items():
        E.c.opaque.setdefault(k, v)


# ---- externals declared in the contract
def external_call(E, name, ext, e, recv=None, args=None, kwargs=None):
    """ext: dict(returns=type, event=kind|None, ensures=[...] over (a0..an,result), outcomes=[..] , pure=bool)"""
    st = E.st
    if args is None:
        args, kwargs = eval_args(E, e)
    if ext.get("drop"):
        return NONE
    if ext.get("recv_arg") and e is not None and isinstance(getattr(e, "func", None), ast.Attribute):
        args = [recv if recv is not None else E.ev(e.func.value)] + list(args)  # the receiver is the first argument of the spec function
    if ext.get("params"):
        # normalise positional/keyword/default arguments to a fixed positional list
        norm = []
        for k_, (pn, dflt) in enumerate(ext["params"]):
            if k_ < len(args):
                norm.append(args[k_])
            elif pn in kwargs:
                norm.append(kwargs.pop(pn))
            else:
                norm.append(E.ev(ast.Constant(dflt)))
        args = norm
    if st.spec and not ext.get("pure"):
        raise OutOfSubset(f"external {name} in spec")
    if st.pure and not ext.get("pure"):
        raise NeedFork()
    for k_, ty_ in ext.get("arg_types", {}).items():
        if k_ < len(args) and isinstance(args[k_].ty, tuple) and None in args[k_].ty:
            E.refine(args[k_], parse_type(ty_))  # e.g. an empty {} literal handed to a callee that fills it
    env = {f"a{k}": v for k, v in enumerate(args)}
    env.update({f"kw_{k}": v for k, v in kwargs.items()})
    if recv is not None:
        env["recv"] = recv
    env.update({k: v for k, v in st.vars.items() if k in ("self",)})
    for j, r in enumerate(ext.get("requires", [])):
        E.oblige("ext-pre", E.spec(r, extra=env), f"{name}/{j}")
    # ghost assertions of the contract at this call site (the caller's locals are in scope)
    for j, r in enumerate(E.c.d.get("at_call", {}).get(name, [])):
        E.oblige("at-call", E.spec(r, extra=env), f"{name}/{j}")
    if e is not None and id(e) in E.call_ord:
        site = f"{name}@{E.call_ord[id(e)]}"  # assertions for one particular call site (k-th call of this callee in source order)
        for j, r in enumerate(E.c.d.get("at_call", {}).get(site, [])):
            E.oblige("at-call", E.spec(r, extra=env), f"{site}/{j}")
    saved_entry_ext = None
    if ext.get("modifies_args"):
        # the external may change the listed argument objects: snapshot (for old(..) in its ensures), frame check, havoc
        pre = Snapshot(st)
        pre.vars = dict(st.vars, **env)
        mods = [args[k_].z for k_ in ext["modifies_args"] if k_ < len(args)]
        for m_ in mods:
            E.wframe(m_, f"external {name}")
        nentry_ = st.nref
        st.nref = fresh("nref")
        st.pc.append(st.nref >= nentry_)
        st.heap.havoc(nentry_, mods, st.nref)
        E.drain()
        saved_entry_ext = st.labels.get("entry")
        st.labels["entry"] = pre
    outcomes = ext.get("outcomes")
    if outcomes:
        k = E.choose([z3.BoolVal(True)] * len(outcomes), check=False)
        oc = outcomes[k]
    else:
        oc = {"returns": ext.get("returns", "none"), "ensures": ext.get("ensures", [])}
    if oc.get("finding"):
        E.path_tags.add(oc["finding"])
    if oc.get("tag"):
        st.vars["$tag:" + oc["tag"]] = vbool(True)
    ev_args = ([recv] if recv is not None and ext.get("event_recv") else []) + list(args) + [kwargs[k_] for k_ in ext.get("event_kwargs", []) if k_ in kwargs]
    if oc.get("raises"):
        cls = canon_class(E, oc["raises"])
        exc = opaque_exception(E, cls)
        if ext.get("event"):
            emit(E, ext["event"] + "!", [exc, V("str", atom("cls:" + cls))] + ev_args)
        env2 = dict(env)
        env2["exc"] = exc
        for r in oc.get("ensures", []):
            st.pc.append(E.spec(r, extra=env2))
        if oc.get("ensures"):
            E.prune()
        raise RaiseEx(cls, exc, e)
    if ext.get("kind") == "rec_get":
        # root[key] on a record with a CONSTANT key, as the repository's `_r(root, key, mandatory=..., default_value=...)` helper does it
        # (that helper is under contract itself; this is its contract instantiated for a record-typed root)
        root, key = args[0], args[1]
        if key.py is None or not (isinstance(root.ty, tuple) and root.ty[0] == "rec"):
            raise OutOfSubset(f"{name}: needs a record root and a constant key")
        mandatory = kwargs.get("mandatory", args[3] if len(args) > 3 else vbool(True))
        dflt = kwargs.get("default_value", args[4] if len(args) > 4 else NONE)
        fields_ = rec_fields(root.ty)
        present = z3.BoolVal(False)
        if key.py in fields_:
            present = E.hread(f"has.{key.py}", B, root.z) if key.py in rec_optional(root.ty) else z3.BoolVal(True)
        mand = z3.simplify(E.truthy(mandatory))
        if z3.is_false(mand) and key.py in fields_:
            # optional lookup: merged (no path split): the entry if present, else the default
            try:
                return E.merge(present, E.fld_read(root, key.py), dflt)
            except NeedFork:
                pass
        if E.branch(present):
            return E.fld_read(root, key.py)
        if E.branch(E.truthy(mandatory)):
            raise RaiseEx(canon_class(E, ext.get("raises", "KeyError")), opaque_exception(E, canon_class(E, ext.get("raises", "KeyError"))), e)
        return dflt
    if ext.get("ghost_get"):
        res = st.vars[ext["ghost_get"]]
        if ext.get("ghost_set"):
            gname, gexpr = ext["ghost_set"]
            st.vars[gname] = E.spec_value_env(gexpr, dict(env, result=res))
        return res
    if ext.get("ghost_set") and not ext.get("returns"):
        gname, gexpr = ext["ghost_set"]
        st.vars[gname] = E.spec_value_env(gexpr, env)
        return NONE
    if ext.get("new_dict"):
        # a constructor of an EMPTY mapping (collections.OrderedDict(), dict subclass): a freshly allocated dict, exactly like `{}` / dict()
        kty_, vty_ = ext["new_dict"]
        return new_dict(E, parse_type(kty_), parse_type(vty_))
    if ext.get("uf"):
        zs = []
        for a in args:
            if a.ty in ("int", "real", "bool"):
                if a.none is not None and not z3.is_false(z3.simplify(a.none)):
                    raise OutOfSubset(f"optional scalar passed to the uninterpreted external {name}")
                zs.append(a.z)  # plain arity: matches an `opaque` declaration of the same name
            else:
                zs.extend(flatten_z(E, a))
        rty = parse_type(oc.get("returns", "any"))
        f = z3.Function(ext["uf"], *([z.sort() for z in zs] + [sort_of(rty)]))
        res = V(strip_opt(rty), f(*zs))
        E.assume_wf(res, is_opt(rty))
    else:
        rty = parse_type(oc.get("returns", "none"))
        res = E.symbolic("x_" + name.replace(".", "_"), rty) if rty != "none" else NONE
    if ext.get("event"):
        emit(E, ext["event"], [res] + ev_args)
    env2 = dict(env)
    env2["result"] = res
    try:
        for r in oc.get("ensures", []):
            st.pc.append(E.spec(r, extra=env2))
        for gu in (ext.get("ghost_update"), oc.get("ghost_update")):  # external-wide and outcome-specific ghost updates
            if gu:
                for gname, gexpr in ([gu] if isinstance(gu[0], str) else gu):  # one (name, expr) pair or a list of pairs (evaluated in order)
                    st.vars[gname] = E.spec_value_env(gexpr, env2)
    finally:
        if saved_entry_ext is not None:
            st.labels["entry"] = saved_entry_ext
    if outcomes and oc.get("ensures"):
        E.prune()
    if oc.get("tag"):
        st.vars["$tag:" + oc["tag"]] = vbool(True)
    return res


# ---- ghost trace
def emit(E, kind, args):
    st = E.st
    if "$trace" not in st.vars:
        raise OutOfSubset("event emitted but trace disabled")
    ref = E.alloc()
    st.heap.store("k.kind.i", I, ref, atom(kind))
    for j, a in enumerate(args):
        if a is not None and a.ty == "fn" and a.items and a.items[0] == "class":
            st.heap.store(f"k.a{j}.i", I, ref, atom("cls:" + str(a.items[1])))  # a class passed as a value (e.g. createActor(Dispatcher))
            continue
        if a is None or a.ty == "fn" or (a.z is None and a.ty != "none"):
            continue
        if a.ty == "none":
            st.heap.store(f"k.a{j}.i", I, ref, z3.IntVal(0))
            continue
        st.heap.store(f"k.a{j}.{stag(a.ty)}", a.z.sort(), ref, a.z)
    tr = st.vars["$trace"]
    n = E.len_of(tr)
    arr = E.hread("el.p", z3.ArraySort(I, I), tr.z)
    # the trace is ghost: no frame obligation
    st.heap.store("el.p", z3.ArraySort(I, I), tr.z, z3.Store(arr, n, ref))
    st.heap.store("len", I, tr.z, n + 1)


# ---------------------------------------------------------------- python builtins
def py_builtin(E, name, e):
    st = E.st
    if name == "isinstance":
        v = E.ev(e.args[0])
        classes = e.args[1].elts if isinstance(e.args[1], ast.Tuple) else [e.args[1]]
        return vbool(z3.Or(*[isinstance_z(E, v, dotted(c)) for c in classes]))
    if name == "type" and len(e.args) == 1:
        v = E.ev(e.args[0])
        if isinstance(v.ty, tuple) and v.ty[0] == "obj" and "|" not in v.ty[1]:
            # the EXACT class of an object whose static class is exact (exception objects of external outcomes are created per listed class)
            return V("fn", None, items=("class", v.ty[1], None, E.cur_mod, None), py=v.ty[1])
        raise OutOfSubset("type() of a value whose exact class is not known")
    if name == "super":
        raise OutOfSubset("bare super()")
    args, kwargs = eval_args(E, e)
    if name == "len":
        v = args[0]
        t = E.full_ty(v)
        if t == "none" and st.spec:
            return vint(0)  # spec: len of a value that is None on this path (guard it with isnone)
        if isinstance(t, tuple) and t[0] == "tuple":
            return vint(len(t) - 1)
        if isinstance(t, tuple) and t[0] in ("list", "dict", "set"):
            return vint(E.len_of(v))
        if t == "str":
            f = z3.Function("str_len", I, I)
            if not st.bound:
                st.pc.append(f(v.z) >= 0)
            return vint(f(v.z))
        if t == "any":
            f = z3.Function("any_len", I, I)
            if not st.bound:
                st.pc.append(f(v.z) >= 0)
            return vint(f(v.z))
        raise OutOfSubset(f"len of {t}")
    if name in ("min", "max"):
        if "key" in kwargs or len(args) == 1:
            return minmax_list(E, name, args, kwargs, e)
        cur = args[0]
        for b in args[1:]:
            c = E.compare("LtE" if name == "min" else "GtE", cur, b)
            cur = E.merge(c, cur, b)
        return cur
    if name == "abs":
        v = args[0]
        return V(v.ty, z3.If(v.z >= 0, v.z, -v.z))
    if name == "float":
        v = args[0]
        if v.ty in ("int", "real", "bool"):
            return vreal(E.to_real(v))
        if v.ty in ("str", "any"):
            return vreal(z3.Function("parse_float", I, R)(v.z))
        raise OutOfSubset(f"float({v.ty})")
    if name == "int":
        v = args[0]
        if v.ty in ("int", "real", "bool") and v.none is not None:
            if E.c.safety and not st.spec:
                E.oblige("none-arith", z3.Not(v.none), U(e))  # int(None) raises TypeError
            v = V(v.ty, v.z)
        if v.ty == "int":
            return v
        if v.ty == "bool":
            return vint(E.to_int(v))
        if v.ty == "real":
            return vint(z3.If(v.z >= 0, z3.ToInt(v.z), -z3.ToInt(-v.z)))
        if v.ty in ("str", "any"):
            return vint(z3.Function("parse_int", I, I)(v.z))
        raise OutOfSubset(f"int({v.ty})")
    if name == "round":
        v = args[0]
        if len(args) > 1:
            raise OutOfSubset("round with ndigits")
        if v.ty == "int":
            return v
        return vint(E.rnd(v.z))
    if name == "bool":
        return vbool(E.truthy(args[0]))
    if name == "str":
        v = args[0]
        if v.ty == "str":
            return v
        return format_uf(E, "str({})", [v])
    if name == "repr":
        return format_uf(E, "repr({})", [args[0]])
    if name == "filter" and len(args) == 2 and args[0].ty == "none" and not st.spec:
        # filter(None, xs) as a value: a new list holding the truthy elements of xs, in order. Modelled by its length only: between 0 and len(xs),
        # equal to len(xs) iff every element is truthy, 0 iff none is; its elements are elements of xs.
        src = args[1]
        t = E.full_ty(src)
        if not (isinstance(t, tuple) and t[0] == "list"):
            raise OutOfSubset(f"filter(None, {t})")
        ety = E.elem_ty(src)
        n = E.len_of(src)
        out = E.alloc_list(ety)
        cnt = fresh("nfiltered")
        j = z3.Int(f"j!f{next(_cnt)}")
        st.bound.append(j)
        try:
            tz = E.truthy(E.list_get(src, j, check=False))
        finally:
            st.bound.pop()
        st.pc.append(z3.And(cnt >= 0, cnt <= n))
        st.pc.append((cnt == n) == z3.ForAll([j], z3.Implies(z3.And(0 <= j, j < n), tz)))
        st.pc.append((cnt == 0) == z3.ForAll([j], z3.Implies(z3.And(0 <= j, j < n), z3.Not(tz))))
        st.heap.store("len", I, out.z, cnt)
        return out
    if name == "list":
        if not args:
            return E.alloc_list(None)
        v = args[0]
        t = E.full_ty(v)
        if isinstance(t, tuple) and t[0] == "tuple":
            return E.list_from(E.tuple_items(v))
        if isinstance(t, tuple) and t[0] == "list":
            r = E.alloc_list(E.elem_ty(v))
            list_extend(E, r, v)
            return r
        raise OutOfSubset(f"list({t})")
    if name == "tuple":
        v = args[0]
        t = E.full_ty(v)
        if isinstance(t, tuple) and t[0] == "tuple":
            return v
        raise OutOfSubset(f"tuple({t})")
    if name == "dict":
        if not args and not kwargs:
            return new_dict(E, None, None)
        if len(args) == 1 and not kwargs and isinstance(E.full_ty(args[0]), tuple) and E.full_ty(args[0])[0] == "dict":
            src = args[0]
            kty, vty = dict_types(E, src)
            r = new_dict(E, kty, vty)
            dict_update(E, r, src)  # a shallow copy: same keys, same values
            return r
        if len(args) == 1 and not kwargs and isinstance(E.full_ty(args[0]), tuple) and E.full_ty(args[0])[0] == "rec" and not st.spec:
            # a shallow copy of a record (a dict with constant string keys): same keys present, same values, a new object
            src = args[0]
            rt = E.full_ty(src)
            if E.c.safety:
                E.oblige("none-attr", src.z != 0, "dict(" + U(e.args[0]) + ")")
            ref = E.alloc()
            E.set_kind(ref, E.kind_name(rt))
            out = V(rt, ref)
            for k_, ft in rt[1]:
                key = k_.lstrip("?")
                nm = E.fld_name(rt, key, ft)
                st.heap.store(nm, sort_of(ft), ref, E.hread(nm, sort_of(ft), src.z))
                if k_.startswith("?"):
                    st.heap.store(f"has.{key}", B, ref, E.hread(f"has.{key}", B, src.z))
            return out
        raise OutOfSubset("dict(...) with arguments")
    if name == "set":
        if not args:
            r = new_dict(E, None, "bool")
            return V(("set", None), r.z)
        raise OutOfSubset("set(...) with arguments")
    if name == "sum":
        return sum_list(E, args, e)
    if name == "sorted":
        return sorted_list(E, args, kwargs, e)
    if name in ("any", "all"):
        v = args[0]
        t = E.full_ty(v)
        if isinstance(t, tuple) and t[0] == "tuple" or v.items is not None:
            zs = [E.truthy(x) for x in E.tuple_items(v)]
            return vbool((z3.Or if name == "any" else z3.And)(*zs) if zs else z3.BoolVal(name == "all"))
        if isinstance(t, tuple) and t[0] == "list":
            ety = E.elem_ty(v)
            j = z3.Int(f"j!aa{next(_cnt)}")
            n = E.hread("len", I, v.z)
            st.bound.append(j)
            try:
                el = E.list_get(v, j, check=False)
                tz = E.truthy(el)
            finally:
                st.bound.pop()
            if name == "any":
                return vbool(z3.Exists([j], z3.And(0 <= j, j < n, tz)))
            return vbool(z3.ForAll([j], z3.Implies(z3.And(0 <= j, j < n), tz)))
        raise OutOfSubset(f"{name}({t})")
    if name == "type":
        v = args[0]
        if isinstance(v.ty, tuple) and v.ty[0] == "obj":
            return V("any", E.hread("cls", I, v.z))
        raise OutOfSubset("type()")
    if name == "hasattr":
        raise OutOfSubset("hasattr")
    if name == "next":
        raise OutOfSubset("next() on iterator (declare an external)")
    if name == "print":
        return NONE
    if name == "id":
        return vint(args[0].z)
    if name == "divmod":
        return E.new_tuple([E.binop("FloorDiv", args[0], args[1]), E.binop("Mod", args[0], args[1])])
    raise OutOfSubset(f"builtin {name}")


def isinstance_z(E, v, cname):
    if cname in ("dict",):
        t = E.full_ty(v)
        if t == "any":
            return z3.Function("any_is_dict", I, B)(v.z)
        return z3.BoolVal(isinstance(t, tuple) and t[0] in ("dict", "rec"))
    if cname in ("list", "tuple", "str", "int", "float", "bool", "bytes"):
        t = E.full_ty(v)
        if t == "any":
            return z3.Function(f"any_is_{cname}", I, B)(v.z)
        k = t[0] if isinstance(t, tuple) else t
        return z3.BoolVal({"list": "list", "tuple": "tuple", "str": "str", "int": "int", "float": "real", "bool": "bool", "bytes": "str"}[cname] == k or (cname == "int" and k == "bool"))
    t = v.ty
    if t == "none":
        return z3.BoolVal(False)
    if isinstance(t, tuple) and t[0] == "obj" and "|" in t[1]:
        # a union of unrelated classes: decided by the object's kind (root class), a fact that no heap write changes
        alts = [c_ for c_ in t[1].split("|") if is_subclass(E, c_, cname)]
        k = z3.Function("kind", I, I)(v.z)
        return z3.And(v.z != 0, z3.Or(*[k == atom("kind:" + E.kind_name(("obj", c_))) for c_ in alts])) if alts else z3.BoolVal(False)
    if isinstance(t, tuple) and t[0] == "obj":
        if is_subclass(E, t[1], cname):
            return v.z != 0
        if is_subclass(E, cname, t[1]) or t[1] == "object":
            ids = [atom_id("cls:" + s) for s in subclasses(E, canon_class(E, cname))]
            cz = E.hread("cls", I, v.z)
            return z3.And(v.z != 0, z3.Or(*[cz == i for i in ids]))
        return z3.BoolVal(False)
    if t == "any":
        return z3.Function("any_isinstance", I, I, B)(v.z, atom("cls:" + canon_class(E, cname)))
    return z3.BoolVal(False)


def subclasses(E, cname):
    out = [cname]
    for m in list(E.repo.mods.values()):
        for c in list(m.classes):
            if c != cname and cname in mro(E, c):
                out.append(c)
    return out


def minmax_list(E, name, args, kwargs, e):
    """min(list, key=f) / max(list): the result is an element that minimises/maximises the key"""
    st = E.st
    if len(args) != 1:
        raise OutOfSubset(f"{name} with key over several arguments")
    lst = args[0]
    t = E.full_ty(lst)
    if not (isinstance(t, tuple) and t[0] == "list"):
        raise OutOfSubset(f"{name} over {t}")
    ety = E.elem_ty(lst)
    if ety not in ("int", "real"):
        raise OutOfSubset(f"{name} over list of {ety}")
    n = E.len_of(lst)
    if E.c.safety and not st.spec:
        E.oblige("nonempty", n > 0, U(e))
    arr = E.hread(E.el_name(ety), z3.ArraySort(I, sort_of(ety)), lst.z)
    res = V(ety, fresh(name, sort_of(ety)))
    j = z3.Int(f"j!mm{next(_cnt)}")
    st.pc.append(z3.Exists([j], z3.And(0 <= j, j < n, arr[j] == res.z)))
    keyf = kwargs.get("key")

    def key(v):
        if keyf is None:
            return v
        return call_function(E, keyf, [v], {}, e)

    st.bound.append(j)
    st.pure += 1
    try:
        kr, kj = key(res), key(V(ety, arr[j]))
        cmp_ = E.compare("LtE" if name == "min" else "GtE", kr, kj)
    except NeedFork:
        raise OutOfSubset(f"{name}: key function needs a fork")
    finally:
        st.pure -= 1
        st.bound.pop()
    st.pc.append(z3.ForAll([j], z3.Implies(z3.And(0 <= j, j < n), cmp_)))
    return res


def sum_list(E, args, e):
    raise OutOfSubset("sum(...) (declare an external)")


def sorted_list(E, args, kwargs, e):
    raise OutOfSubset("sorted(...) (declare an external)")


# ---------------------------------------------------------------- container methods
def container_method(E, recv, name, e):
    st = E.st
    t = E.full_ty(recv)
    args, kwargs = eval_args(E, e)
    if isinstance(t, tuple) and t[0] == "list":
        if name == "append":
            E.list_append(recv, args[0])
            return NONE
        if name == "extend":
            list_extend(E, recv, args[0])
            return NONE
        if name == "pop" and not args:
            n = E.len_of(recv)
            if E.c.safety:
                E.oblige("index", n > 0, U(e))
            v = E.list_get(recv, n - 1, check=False)
            E.hwrite("len", I, recv.z, n - 1, "list-pop")
            return v
        if name == "clear":
            E.hwrite("len", I, recv.z, z3.IntVal(0), "list-clear")
            return NONE
        if name == "copy":
            r = E.alloc_list(E.elem_ty(recv))
            list_extend(E, r, recv)
            return r
        if name == "sort" and not args and not kwargs:
            # in-place sort: the new content is a sorted rearrangement (same length, same set of values)
            ety = E.elem_ty(recv)
            if ety not in ("int", "real"):
                raise OutOfSubset("sort of non-numeric list")
            s_ = sort_of(ety)
            n = E.len_of(recv)
            old = E.hread(E.el_name(ety), z3.ArraySort(I, s_), recv.z)
            new = fresh("sorted", z3.ArraySort(I, s_))
            a, b = z3.Int(f"a!s{next(_cnt)}"), z3.Int(f"b!s{next(_cnt)}")
            st.pc.append(z3.ForAll([a], z3.Implies(z3.And(0 <= a, a < n), z3.Exists([b], z3.And(0 <= b, b < n, new[a] == old[b])))))
            st.pc.append(z3.ForAll([a], z3.Implies(z3.And(0 <= a, a < n), z3.Exists([b], z3.And(0 <= b, b < n, old[a] == new[b])))))
            st.pc.append(z3.ForAll([a, b], z3.Implies(z3.And(0 <= a, a <= b, b < n), new[a] <= new[b])))
            E.hwrite(E.el_name(ety), z3.ArraySort(I, s_), recv.z, new, "list-sort")
            return NONE
        raise OutOfSubset(f"list.{name}")
    if isinstance(t, tuple) and t[0] == "dict":
        if name in ("get", "pop", "setdefault") and t[1] is None and args and not st.spec:
            # an empty {} whose types were never declared (a local the contract does not know, e.g. introduced by a code change): keys of the
            # type first used, untyped values
            kt_ = E.full_ty(args[0])
            E.refine(recv, ("dict", kt_ if kt_ != "none" else "any", "any"))
            t = E.full_ty(recv)
        if name == "get":
            has = dict_has(E, recv, args[0])
            val = dict_get(E, recv, args[0], check=False)
            dflt = args[1] if len(args) > 1 else NONE
            return E.merge(has, val, dflt)
        if name == "pop":
            has = dict_has(E, recv, args[0])
            val = dict_get(E, recv, args[0], check=False)
            if len(args) > 1:
                res = E.merge(has, val, args[1])
            else:
                if E.c.safety:
                    E.oblige("key", has, U(e))
                res = val
            dict_del(E, recv, args[0])
            return res
        if name == "clear":
            kty, vty = dict_types(E, recv)
            dn, vn, ks, vs = dict_names(kty, vty)
            E.hwrite("len", I, recv.z, z3.IntVal(0), "dict-clear")
            E.hwrite(dn, z3.ArraySort(ks, B), recv.z, z3.K(ks, z3.BoolVal(False)), "dict-clear")
            return NONE
        if name == "update" and len(args) == 1 and not kwargs:
            return dict_update(E, recv, args[0])
        if name == "setdefault":
            has = dict_has(E, recv, args[0])
            if E.branch(has):
                return dict_get(E, recv, args[0], check=False)
            dict_set(E, recv, args[0], args[1])
            return args[1]
        raise OutOfSubset(f"dict.{name}")
    if isinstance(t, tuple) and t[0] == "set":
        d = V(("dict", t[1], "bool"), recv.z)
        if name == "add":
            if t[1] is None:
                E.refine(recv, ("set", args[0].ty))
                d = V(("dict", args[0].ty, "bool"), recv.z)
            dict_set(E, d, args[0], vbool(True))
            return NONE
        raise OutOfSubset(f"set.{name}")
    if isinstance(t, tuple) and t[0] == "rec":
        if name == "get":
            k = args[0]
            if k.py is None:
                raise OutOfSubset("rec.get with non-constant key")
            dflt = args[1] if len(args) > 1 else NONE
            if k.py not in rec_fields(t):
                return dflt
            val = E.fld_read(recv, k.py)
            if k.py in rec_optional(t):
                return E.merge(E.hread(f"has.{k.py}", B, recv.z), val, dflt)
            return val
        if name == "pop":
            k = args[0]
            if k.py is None or k.py not in rec_fields(t):
                raise OutOfSubset("rec.pop key")
            val = E.fld_read(recv, k.py)
            has = E.hread(f"has.{k.py}", B, recv.z) if k.py in rec_optional(t) else z3.BoolVal(True)
            if len(args) > 1:
                res = E.merge(has, val, args[1])
            else:
                if E.c.safety:
                    E.oblige("key", has, U(e))
                res = val
            E.hwrite(f"has.{k.py}", B, recv.z, z3.BoolVal(False), f"pop {k.py}")
            return res
        raise OutOfSubset(f"record.{name}")
    if t == "str":
        return str_method(E, recv, name, args, e)
    if t == "any" and ("*." + name) in E.c.externals:
        return external_call(E, "*." + name, E.c.externals["*." + name], e, recv, args, kwargs)  # a method of an untyped object, declared by method name
    if t == "any" and name == "pop" and args:
        # d.pop(k, default) on an untyped mapping: the value (the removal itself is not tracked for untyped values)
        has = z3.And(recv.z != 0, z3.Function("any_has", I, I, B)(recv.z, args[0].z))
        val = any_item(E, recv, args[0])
        dflt = args[1] if len(args) > 1 else NONE
        if dflt.ty in ("none", "any", "str"):
            return V("any", z3.If(has, val.z, dflt.z if dflt.ty != "none" else z3.IntVal(0)))
        return V("any", z3.If(has, val.z, E.coerce(dflt, "any").z))
    if t == "any":
        if name == "get":
            has = z3.And(recv.z != atom("{}"), recv.z != 0, z3.Function("any_has", I, I, B)(recv.z, args[0].z))
            val = any_item(E, recv, args[0])
            dflt = args[1] if len(args) > 1 else NONE
            if isinstance(dflt.ty, tuple) and dflt.ty[0] == "dict" and dflt.ty[1] is None:
                dflt = V("any", atom("{}"))  # the empty dict literal as default: a distinguished value without keys
            if dflt.ty in ("none", "any", "str"):
                return V("any", z3.If(has, val.z, dflt.z if dflt.ty != "none" else z3.IntVal(0)))
            if dflt.ty == "bool":
                return V("any", z3.If(has, val.z, z3.If(dflt.z, atom("py:True"), atom("py:False"))))
            raise NeedFork() if st.pure else OutOfSubset("any.get with typed default")
        raise OutOfSubset(f"method {name} on any")
    raise OutOfSubset(f"method {name} on {t}")


def str_method(E, recv, name, args, e):
    if name in ("startswith", "endswith"):
        f = z3.Function("str_" + name, I, I, B)
        return vbool(f(recv.z, args[0].z))
    if name in ("lower", "upper", "strip", "rstrip", "lstrip"):
        if args:
            raise OutOfSubset(f"str.{name} with args")
        if recv.py is not None:
            return vstr(getattr(recv.py, name)())
        f = z3.Function("str_" + name, I, I)
        r = V("str", f(recv.z))
        if not E.st.bound:
            E.st.pc.append(r.z >= 1)
        return r
    if name == "format":
        return format_uf(E, "fmtm:" + (recv.py if recv.py is not None else "?"), [recv] + list(args))
    if name == "split" and len(args) == 1 and args[0].ty == "str" and not E.st.spec:
        # s.split(sep): a fresh list whose length and items are uninterpreted functions of (s, sep); at least one item
        n = z3.Function("str_split_len", I, I, I)(recv.z, args[0].z)
        arr = z3.Function("str_split_arr", I, I, z3.ArraySort(I, I))(recv.z, args[0].z)
        out = E.alloc_list("str")
        E.st.heap.store("len", I, out.z, n)
        E.st.heap.store(E.el_name("str"), z3.ArraySort(I, I), out.z, arr)
        E.st.pc.append(n >= 1)
        k_ = z3.Int("k!split")
        E.st.pc.append(z3.ForAll([k_], arr[k_] >= 1))
        return out
    if name == "join" and len(args) == 1:
        f = z3.Function("str_join", I, I, I)
        r = V("str", f(recv.z, args[0].z))
        if not E.st.bound:
            E.st.pc.append(r.z >= 1)
        return r
    raise OutOfSubset(f"str.{name}")


# ---------------------------------------------------------------- library functions with exact models
def lib_math_ceil(E, e, args=None):
    v = (args or [E.ev(a) for a in e.args])[0]
    if v.ty == "int":
        return v
    return vint(-z3.ToInt(-v.z))


def lib_math_floor(E, e, args=None):
    v = (args or [E.ev(a) for a in e.args])[0]
    if v.ty == "int":
        return v
    return vint(z3.ToInt(v.z))


LIB_FUNCS = {"math.ceil": lib_math_ceil, "math.floor": lib_math_floor}


# ---------------------------------------------------------------- spec vocabulary
def spec_old(E, e):
    return E.in_snapshot("entry", e.args[0])


def spec_at(E, e):
    return E.in_snapshot(e.args[0].value, e.args[1])


def spec_quant(kind, sort=I, vty=None):
    def f(E, e):
        lam = e.args[0]
        st = E.st
        names = [a.arg for a in lam.args.args]
        qs = []
        saved = {}
        for n in names:
            q = z3.Const(n, R if sort is R or n.startswith("r_") else I)
            qs.append(q)
            saved[n] = st.vars.get(n)
            st.vars[n] = V(vty or ("real" if q.sort() == R else "int"), q)
        st.bound.extend(qs)
        st.side.append([])
        try:
            body = E.truthy(E.ev(lam.body))
            side = st.side[-1]
            if side:
                # typed-heap facts about the values read under this binder, closed over every bound variable in scope
                fact = z3.ForAll(list(st.bound), z3.And(*side))
                if fact.get_id() not in st.side_seen:
                    st.side_seen.add(fact.get_id())
                    st.pc.append(fact)
        finally:
            st.side.pop()
            for _ in qs:
                st.bound.pop()
            for n in names:
                if saved[n] is None:
                    st.vars.pop(n, None)
                else:
                    st.vars[n] = saved[n]
        return vbool(z3.ForAll(qs, body) if kind == "forall" else z3.Exists(qs, body))

    return f


def spec_implies(E, e):
    a = E.truthy(E.ev(e.args[0]))
    if z3.is_false(z3.simplify(a)):
        return vbool(z3.BoolVal(True))  # the conclusion need not even be well-typed under a false premise (x is None on this path)
    b = E.truthy(E.ev(e.args[1]))
    return vbool(z3.Implies(a, b))


def spec_iff(E, e):
    return vbool(E.truthy(E.ev(e.args[0])) == E.truthy(E.ev(e.args[1])))


def spec_ite(E, e):
    c = E.truthy(E.ev(e.args[0]))
    return E.merge(c, E.ev(e.args[1]), E.ev(e.args[2]))


def spec_nref(E, e):
    return vint(E.st.nref)


def spec_nref0(E, e):
    return vint(E.st.nref0)


def spec_ref(E, e):
    """ref(x): the heap reference of x as an int (for freshness/aliasing facts)"""
    v = E.ev(e.args[0])
    return vint(v.z)


def spec_distinct(E, e):
    vs = [E.ev(a).z for a in e.args]
    return vbool(z3.Distinct(*vs))


def spec_isnone(E, e):
    return vbool(is_none_z(E.ev(e.args[0])))


def spec_real(E, e):
    return vreal(E.to_real(E.ev(e.args[0])))


def spec_floor(E, e):
    return vint(z3.ToInt(E.to_real(E.ev(e.args[0]))))


def spec_ceil(E, e):
    return vint(-z3.ToInt(-E.to_real(E.ev(e.args[0]))))


def spec_fl(E, e):
    v = E.ev(e.args[0])
    if E.c.float == "exact":
        return vreal(E.to_real(v))
    return vreal(E.fl(E.to_real(v)))


def spec_rnd(E, e):
    return vint(E.rnd(E.to_real(E.ev(e.args[0]))))


def spec_nev(E, e):
    tr = E.st.vars["$trace"]
    old = E.st.labels["entry"]
    n0 = old.heap.get("len", I).read(tr.z)
    return vint(E.hread("len", I, tr.z) - n0)


def _event_ref(E, k):
    tr = E.st.vars["$trace"]
    old = E.st.labels["entry"]
    n0 = old.heap.get("len", I).read(tr.z)
    return E.hread("el.p", z3.ArraySort(I, I), tr.z)[n0 + k]


def spec_evk(E, e):
    k = E.to_int(E.ev(e.args[0]))
    return V("str", E.hread("k.kind.i", I, _event_ref(E, k)))


def spec_eva(E, e):
    k = E.to_int(E.ev(e.args[0]))
    j = e.args[1].value
    ty = parse_type(e.args[2].value) if len(e.args) > 2 else "any"
    if isinstance(ty, tuple) and ty[0] == "obj":
        ty = ("obj", canon_class(E, ty[1]))
    z = E.hread(f"k.a{j}.{stag(ty)}", sort_of(ty), _event_ref(E, k))
    return V(strip_opt(ty), z)


def spec_split_item(E, e):
    """split_item(s, sep, k): the k-th item of s.split(sep)"""
    s_, sep, k = (E.ev(a) for a in e.args)
    arr = z3.Function("str_split_arr", I, I, z3.ArraySort(I, I))(s_.z, sep.z)
    return V("str", arr[E.to_int(k)])


def spec_split_len(E, e):
    s_, sep = (E.ev(a) for a in e.args)
    return vint(z3.Function("str_split_len", I, I, I)(s_.z, sep.z))


def spec_sel(E, e):
    base = E.ev(e.args[0])
    return get_item(E, base, E.ev(e.args[1]), None)


def spec_has(E, e):
    return vbool(contains(E, E.ev(e.args[0]), E.ev(e.args[1])))


def spec_lemma(E, e):
    """lemma('name', kw=expr, ...) -> the instance of a proved lemma (opaque form)"""
    name = e.args[0].value
    return vbool(lemma_instance(E, name, {k.arg: E.ev(k.value) for k in e.keywords}))


def lemma_instance(E, name, binding):
    lem = E.c.lemmas[name]
    st = E.st
    saved = st.vars
    st.vars = {}
    for vn, vt in lem["vars"].items():
        if vn not in binding:
            raise OutOfSubset(f"lemma {name}: variable {vn} not bound")
        st.vars[vn] = binding[vn]
    st.spec += 1
    try:
        return E.truthy(E.ev(parse_spec(lem["stmt"])))
    finally:
        st.spec -= 1
        st.vars = saved


def spec_clsname(E, e):
    """clsname('elasticsearch.exceptions.ConnectionTimeout') -> the class atom recorded in call! events (canonical name)"""
    return V("str", atom("cls:" + canon_class(E, e.args[0].value)))


def spec_clsof(E, e):
    """clsof(x): dynamic class atom of an object created by a constructor call (compare with clsname-style strings 'cls:Name')"""
    v = E.ev(e.args[0])
    return V("str", E.hread("cls", I, v.z))


def spec_cast(E, e):
    """cast(x, 'ClassName'): the same reference viewed at another static class (guard with clsof)"""
    v = E.ev(e.args[0])
    return V(("obj", e.args[1].value), v.z)


def spec_box(E, e):
    """box(x): the scalar x as an untyped value (what a list of mixed values stores)"""
    return E.coerce(E.ev(e.args[0]), "any")


def spec_tag(E, e):
    return E.st.vars.get("$tag:" + e.args[0].value, vbool(False))


SPEC_FUNCS = {
    "old": spec_old,
    "at": spec_at,
    "forall": spec_quant("forall"),
    "exists": spec_quant("exists"),
    "forall_real": spec_quant("forall", R),
    "forall_any": spec_quant("forall", I, "any"),
    "exists_any": spec_quant("exists", I, "any"),
    "forall_str": spec_quant("forall", I, "str"),
    "exists_str": spec_quant("exists", I, "str"),
    "implies": spec_implies,
    "iff": spec_iff,
    "ite": spec_ite,
    "NREF": spec_nref,
    "NREF0": spec_nref0,
    "ref": spec_ref,
    "distinct": spec_distinct,
    "isnone": spec_isnone,
    "real": spec_real,
    "floor": spec_floor,
    "ceil": spec_ceil,
    "fl": spec_fl,
    "rnd": spec_rnd,
    "nev": spec_nev,
    "evk": spec_evk,
    "eva": spec_eva,
    "sel": spec_sel,
    "split_item": spec_split_item,
    "split_len": spec_split_len,
    "has": spec_has,
    "lemma": spec_lemma,
    "tag": spec_tag,
    "clsname": spec_clsname,
    "clsof": spec_clsof,
    "cast": spec_cast,
    "box": spec_box,
}


def macro_call(E, name, args):
    spec = E.c.macros[name]
    st = E.st
    saved = st.vars
    st.vars = dict(zip(spec["names"], args))
    for k in saved:
        if k == "result" or k.startswith("$") or k in E._bound_names():
            st.vars.setdefault(k, saved[k])
    try:
        return E.ev(parse_spec(spec["body"]))
    finally:
        st.vars = saved


def opaque_call(E, name, args):
    spec = E.c.opaque[name]
    atys = [parse_type(t) for t in spec["args"]]
    rty = parse_type(spec["ret"])
    if E.reveal and spec.get("body"):
        st = E.st
        saved = st.vars
        st.vars = {n: E.coerce(a, t) for n, a, t in zip(spec["names"], args, atys)}
        st.spec += 1
        try:
            return E.coerce(E.ev(parse_spec(spec["body"])), rty)
        finally:
            st.spec -= 1
            st.vars = saved
    f = z3.Function(name, *([sort_of(t) for t in atys] + [sort_of(rty)]))
    zs = [E.coerce(a, t).z for a, t in zip(args, atys)]
    res = V(strip_opt(rty), f(*zs))
    if is_ref(rty):
        E.assume_wf(res, is_opt(rty))  # an uninterpreted function returning a reference returns an allocated object of that kind
    return res
