import argparse
import json
import os
import sys
import traceback


def main():
    ap = argparse.ArgumentParser()
    ap.add_argument("prop")
    ap.add_argument("--tier", default=os.environ.get("VERIF_TIER", "quick"))
    ap.add_argument("--repo")
    ap.add_argument("--replay")
    ap.add_argument("-v", "--verbose", action="store_true")
    a = ap.parse_args()
    if a.repo:
        os.environ["VERIF_REPO"] = a.repo
    from . import run

    if a.replay:
        ok, desc = run.run_replay(a.prop, a.replay)
        print(desc)
        sys.exit(1 if ok else 0)
    seed = int(os.environ.get("VERIF_SEED", "0") or 0)
    tier = a.tier if a.tier in ("quick", "thorough") else "quick"
    r = run.Runner(a.prop, tier, seed)
    try:
        ev = r.run()
        extra_rc = 0
        cm = r.cm
        if hasattr(cm, "extra_checks"):
            extra_rc = cm.extra_checks(r, ev)
    except Exception:
        traceback.print_exc()
        print(f"CHECKER-ERROR property={a.prop}")
        sys.exit(3)
    os.makedirs(os.path.join(run.VERIF, "evidence"), exist_ok=True)
    # evidence is only written for runs against the real tree; scratch runs (--repo) leave it alone
    ev_path = os.path.join(run.VERIF, "evidence", f"{a.prop}.json")
    if os.path.realpath(os.environ.get("VERIF_REPO", "/repo")) != "/repo" or os.environ.get("VERIF_ONLY"):
        ev_path = os.path.join(run.VERIF, "out", a.prop, "evidence-scratch.json")
        os.makedirs(os.path.dirname(ev_path), exist_ok=True)
    with open(ev_path, "w") as f:
        json.dump(ev, f, indent=1, default=str)
    cov = ev["coverage"]
    for line in r.lines:
        print(line)
    print(f"{a.prop}: {cov['discharged']}/{cov['obligations']} obligations discharged over {len(cov['functions_under_contract'])} functions; "
          f"solver {cov['solver_seconds']}s wall {ev['wall_s']}s; violations={ev['violations']} undecided={len(cov['undecided_now'])}")
    if a.verbose or cov["undecided_now"]:
        for p in cov["undecided_now"]:
            print("  UNDECIDED", json.dumps(p)[:600])
    if a.verbose:
        for o in cov["per_obligation"]:
            print(f"  {o['id']:80s} {o['status']:11s} {o['solver_s']:7.2f}s {','.join(o['backends'])}")
    if ev["violations"]:
        sys.exit(1)
    if extra_rc:
        sys.exit(extra_rc)
    if cov["undecided_now"]:
        sys.exit(2)
    sys.exit(0)


main()
