"""PyVC symbolic executor: walks the real AST of a repository function, path by path, cutting loops at the
sidecar invariants and calls at callee contracts; emits named obligations.

Exploration is by re-execution with a choice script (every fork is a `choose`), so the evaluator is plain
recursive Python operating on ONE mutable state; object-program control flow is mirrored by Python exceptions.
"""
import ast
import copy

import z3

from .types import (
    B,
    I,
    R,
    NONE,
    Heap,
    V,
    atom,
    atom_id,
    fresh,
    is_intlike_nullable,
    is_none_z,
    is_opt,
    is_ref,
    parse_type,
    rec_fields,
    rec_optional,
    sort_of,
    sort_tag,
    stag,
    strip_opt,
    vbool,
    vint,
    vreal,
    vstr,
)


class OutOfSubset(Exception):
    pass


class PathEnd(Exception):
    pass


class NeedFork(Exception):
    pass


class ReturnEx(Exception):
    def __init__(self, value):
        self.value = value


class RaiseEx(Exception):
    def __init__(self, cls, exc=None, node=None):
        self.cls, self.exc, self.node = cls, exc, node


class BreakEx(Exception):
    pass


class ContinueEx(Exception):
    pass


def U(x):
    return ast.unparse(x)


_SPEC_CACHE = {}


def parse_spec(text):
    if text not in _SPEC_CACHE:
        _SPEC_CACHE[text] = ast.parse(text.strip().replace("$", "GHOST_"), mode="eval").body
    return _SPEC_CACHE[text]


class Snapshot:
    def __init__(self, st):
        self.vars, self.heap, self.nref = dict(st.vars), st.heap.copy(), st.nref


class State:
    def __init__(self):
        self.vars = {}
        self.pc = []
        self.nref0 = z3.Int("nref0")
        self.heap = Heap(self.nref0)
        self.nref = self.nref0
        self.frames = []  # active loop frames (k, nentry, mods) for frame obligations
        self.idx = []  # loop index terms in scope
        self.guards = []  # guards of pure-mode sub-evaluations
        self.pure = 0
        self.spec = 0
        self.bound = []  # bound variables (z3 consts) of enclosing spec quantifiers
        self.side = []  # stack of side-fact lists of enclosing spec quantifiers
        self.side_seen = set()
        self.labels = {}
        self.dyn = {}  # z3 term id -> refined type for refs created with unknown element type
        self.pc.append(self.nref0 >= 1)


class Contract:
    def __init__(self, d):
        self.d = d
        self.target = d["target"]
        self.qual = self.target.split("::")[1]
        self.prop = d.get("prop", "")
        self.params = {k: parse_type(v) for k, v in d.get("params", {}).items()}
        self.self_type = parse_type(d["self_type"]) if d.get("self_type") else None
        self.fields = {k: parse_type(v) for k, v in d.get("fields", {}).items()}
        self.requires = list(d.get("requires", []))
        self.ensures = list(d.get("ensures", []))
        self.raises = d.get("raises", {})
        self.loops = d.get("loops", {})
        self.opaque = d.get("opaque", {})
        self.lemmas = d.get("lemmas", {})
        self.use = d.get("use", [])
        self.float = d.get("float", "exact")
        self.safety = d.get("safety", True)
        self.externals = d.get("externals", {})
        self.modifies = d.get("modifies", [])
        self.returns = parse_type(d["returns"]) if d.get("returns") else None
        self.locals = {k: parse_type(v) for k, v in d.get("locals", {}).items()}
        self.ghost = d.get("ghost", {})
        self.cover = d.get("cover", [])
        self.assumed = d.get("assumed", False)  # contract for an external/unverified function: never verified, only used
        self.inline = d.get("inline", [])
        self.macros = d.get("macros", {})
        self.noinline = set(d.get("noinline", []))


class Obligation:
    def __init__(self, oid, kind, pc, goal, idx, env, where=""):
        self.id, self.kind, self.pc, self.goal, self.idx, self.env, self.where = oid, kind, pc, goal, idx, env, where


class Engine:
    MAX_PATHS = 4000
    MAX_INLINE = 5

    def __init__(self, repo, contract, registry=None, builtins=None):
        self.repo = repo
        self.c = contract
        self.registry = registry or {}  # qualname -> Contract (for calls by contract)
        self.mod, self.fn = repo.locate(contract.target)
        for rel in contract.d.get("modules", []):
            repo.module(rel)  # classes of other repository modules the function works with (found by simple name)
        self.obligations = []
        self.paths = 0
        self.notes = []
        self.loop_ord = {}
        self.site_ord = {}
        self.call_ord = {}
        self._number(self.fn)
        from . import builtins as bi

        self.bi = bi
        self.fields = {}
        for k, v in contract.fields.items():
            c_, _, f_ = k.rpartition(".")
            self.fields[(bi.ALIAS.get(c_, c_) + "." + f_) if c_ else k] = v
        self.opaque_fns = {}
        self.fl = z3.Function("fl", R, R)
        self.rnd = z3.Function("rnd", R, I)
        self.cur_mod = self.mod
        self.inline_depth = 0
        self.covered = set()
        self.reveal = False
        self.events_enabled = True
        self.local_imports = {}
        self.branch_ids = set()
        self.cur_outcome = None

    def _number(self, fn):
        # loops are numbered in SOURCE order (line, column), the ordinal used by the sidecar contracts
        loops = [n for n in ast.walk(fn) if isinstance(n, (ast.For, ast.While, ast.AsyncFor))]
        for k, n in enumerate(sorted(loops, key=lambda n: (n.lineno, n.col_offset))):
            self.loop_ord[id(n)] = k
        # call sites of one callee are numbered in source order too: at_call assertions may be keyed "name@k" for the k-th site
        per_name = {}
        for n in sorted([n for n in ast.walk(fn) if isinstance(n, ast.Call)], key=lambda n: (n.lineno, n.col_offset)):
            try:
                d = ast.unparse(n.func)
            except Exception:  # noqa
                continue
            self.call_ord[id(n)] = per_name.get(d, 0)
            per_name[d] = per_name.get(d, 0) + 1

    # ================================================================== exploration
    def explore(self):
        stack = [[]]
        while stack:
            script = stack.pop()
            self.paths += 1
            if self.paths > self.MAX_PATHS:
                raise OutOfSubset(f"more than {self.MAX_PATHS} paths")
            self.script, self.pos, self.taken = script, 0, []
            self.trail = []
            self.path_tags = set()
            self.branch_ids = set()
            self.cur_outcome = None
            self.run_path()
            for j in range(len(script), len(self.taken)):
                for alt in self.taken[j][1]:
                    stack.append([t[0] for t in self.taken[:j]] + [alt])
        return self.obligations

    def fresh_territory(self):
        return self.pos >= len(self.script)

    def feasible(self, pc):
        s = z3.Solver()
        s.set("rlimit", 2000000)
        s.set("timeout", 3000)
        for h in pc:
            if not _has_quant(h):
                s.add(h)
        return s.check() != z3.unsat

    def choose(self, conds, check=True):
        st = self.st
        if st.pure or st.spec:
            raise NeedFork()
        if self.pos < len(self.script):
            k = self.script[self.pos]
            self.taken.append((k, []))
        else:
            feas = [k for k, c in enumerate(conds) if (not check) or self.feasible(st.pc + [c])]
            if not feas:
                raise PathEnd("infeasible")
            k = feas[0]
            self.taken.append((k, feas[1:]))
        self.pos += 1
        st.pc.append(conds[k])
        self.branch_ids.add(conds[k].get_id())  # a fact that stems from a control-flow choice (not an assumption): see the vacuity canaries
        self.trail.append(f"{getattr(getattr(self, 'cur_node', None), 'lineno', 0) - self.fn.lineno}:{k}")
        return k

    def branch(self, z):
        """fork on a z3 Bool; returns the Python bool of the branch taken"""
        z = z3.simplify(z)
        if z3.is_true(z):
            return True
        if z3.is_false(z):
            return False
        return self.choose([z, z3.Not(z)]) == 0

    # ================================================================== obligations
    def oblige(self, kind, goal, where=""):
        st = self.st
        if st.spec:
            return
        if not self.fresh_territory():
            return
        if st.guards:
            goal = z3.Implies(z3.And(*st.guards), goal)
        g = z3.simplify(goal)
        if z3.is_true(g):
            n = self.site_ord.setdefault((kind, where), len([1 for k in self.site_ord if k[0] == kind]))
            self.trivial = getattr(self, "trivial", 0) + 1
            self.trivial_ids = getattr(self, "trivial_ids", [])
            self.trivial_ids.append((f"{self.c.prop}/{self.c.qual}/{kind}#{n}", where))
            return
        n = self.site_ord.setdefault((kind, where), len([1 for k in self.site_ord if k[0] == kind]))
        oid = f"{self.c.prop}/{self.c.qual}/{kind}#{n}"
        env = {"vars": dict(st.vars), "heap": st.heap.copy(), "nref": st.nref, "labels": dict(st.labels), "idx": list(st.idx), "trail": list(self.trail), "tags": sorted(self.path_tags),
               "branch_ids": set(self.branch_ids), "outcome": getattr(self, "cur_outcome", None)}
        self.obligations.append(Obligation(oid, kind, list(st.pc), goal, list(st.idx), env, where))

    def prune(self):
        """end the path if the assumptions just added (an outcome's conditions) contradict the path condition"""
        if not self.feasible(self.st.pc):
            raise PathEnd("infeasible outcome")

    def assume(self, z):
        if self.st.bound:
            return
        self.st.pc.append(z)

    # ================================================================== running one path
    def init_state(self):
        st = self.st = State()
        c = self.c
        args = self.fn.args
        names = [a.arg for a in args.posonlyargs + args.args + args.kwonlyargs]
        if args.vararg:
            names.append(args.vararg.arg)
        if args.kwarg:
            names.append(args.kwarg.arg)
        for nm in names:
            if nm == "self" and c.self_type:
                ty = c.self_type
            elif nm in c.params:
                ty = c.params[nm]
            elif nm in ("self", "cls"):
                ty = ("obj", c.qual.rsplit(".", 1)[0]) if "." in c.qual else "any"
            else:
                raise OutOfSubset(f"parameter {nm} has no declared type")
            st.vars[nm] = self.symbolic(nm, ty, inp=True)
        for nm, spec in c.ghost.items():
            st.vars[nm] = self.symbolic(nm, parse_type(spec), inp=True)
        for nm, spec in c.d.get("closure", {}).items():
            st.vars[nm] = self.symbolic(nm, parse_type(spec), inp=True)  # free variables of a nested function (its closure)
        for nm, spec in c.d.get("ghost_state", {}).items():
            st.vars[nm] = self.symbolic(nm, parse_type(spec), inp=True)
        if self.events_enabled:
            # the ghost trace lives at the reserved reference -1: it can alias no program object
            st.vars["$trace"] = V(("list", ("rec", (("kind", "str"),))), z3.IntVal(-1))
        if c.d.get("yields"):
            st.vars["$yields"] = V(("list", parse_type(c.d["yields"])), z3.IntVal(-2))
            st.pc.append(self.hread("len", I, z3.IntVal(-2)) == 0)
        self.params = {nm: st.vars[nm] for nm in st.vars}
        for nm, v in self.params.items():
            self.input_closure(v, v.ty, [], [], 0)
        st.labels["entry"] = Snapshot(st)
        for r in c.d.get("axioms", []):
            st.pc.append(self.spec(r))
        for r in c.requires:
            st.pc.append(self.spec(r))
        st.labels["entry"] = Snapshot(st)

    def symbolic(self, name, ty, inp=False):
        """a fresh symbolic value of the given type; input references are allocated (1 <= r < nref0)"""
        opt = is_opt(ty)
        t = strip_opt(ty)
        st = self.st
        if t in ("int", "real", "bool"):
            z = z3.Const(name if inp else f"{name}!{next_id()}", sort_of(t))
            none = z3.Const((name if inp else f"{name}!{next_id()}") + "?none", B) if opt else None
            return V(t, z, none)
        if t == "none":
            return NONE
        if isinstance(t, tuple) and t[0] == "ufn":
            f = z3.Function(name if inp else f"{name}!{next_id()}", *[sort_of(parse_type(x)) for x in t[1]], sort_of(parse_type(t[2])))
            return V("fn", None, items=("uf", f, t[1], t[2], None), py=name)
        z = z3.Const(name if inp else f"{name}!{next_id()}", I)
        v = V(t, z)
        self.assume_wf(v, opt)
        return v

    def input_closure(self, v, ty, qs, guards, depth):
        """the input heap is closed: every reference reachable from a parameter is an input object (1 <= r < nref0).
        Emitted as (quantified) hypotheses for lists of references / records with reference fields, two levels deep."""
        st = self.st
        ty = strip_opt(ty)
        if depth > 3 or not isinstance(ty, tuple) or v.z is None:
            return

        def emit(fact):
            body = z3.Implies(z3.And(*guards), fact) if guards else fact
            st.pc.append(z3.ForAll(qs, body) if qs else body)

        if ty[0] == "list" and ty[1] is not None:
            ety = ty[1]
            n = self.hread("len", I, v.z)
            emit(n >= 0)
            if is_ref(ety) or strip_opt(ety) in ("str", "any"):
                j = z3.Int(f"jc{depth}!{next_id()}")
                s = sort_of(ety)
                el = self.hread(self.el_name(ety), z3.ArraySort(I, s), v.z)[j]
                qs2, g2 = qs + [j], guards + [0 <= j, j < n]
                lo = 0 if is_opt(ety) else 1
                body = z3.And(el >= lo, el < st.nref0) if is_ref(ety) else el >= lo
                st.pc.append(z3.ForAll(qs2, z3.Implies(z3.And(*g2), body)))
                if is_ref(ety):
                    self.input_closure(V(strip_opt(ety), el), ety, qs2, g2 + ([el != 0] if is_opt(ety) else []), depth + 1)
        elif ty[0] in ("rec", "tuple", "obj"):
            if ty[0] == "rec":
                fs = rec_fields(ty).items()
            elif ty[0] == "tuple":
                fs = [(f"_{k}", t) for k, t in enumerate(ty[1:])]
            else:
                fs = [(k.split(".", 1)[1], t) for k, t in self.fields.items() if "." in k and k.split(".")[0] in self.bi.mro(self, ty[1])]
            for fname, ft in fs:
                if is_ref(ft):
                    name = self.fld_name(ty, fname, ft)
                    z = self.hread(name, sort_of(ft), v.z)
                    emit(z3.And(z >= (0 if is_opt(ft) else 1), z < st.nref0))
                    self.input_closure(V(strip_opt(ft), z), ft, qs, guards + ([z != 0] if is_opt(ft) else []), depth + 1)

    def assume_wf(self, v, opt=False):
        """well-formedness of a value read from the heap. Under a spec quantifier the facts (they mention the bound variables) are
        collected in st.side and added by the quantifier as a separate, universally closed hypothesis (sound: they are true of every heap)."""
        st = self.st
        if v.z is None:
            return
        sink = st.pc
        if st.bound:
            if not st.side:
                return
            sink = st.side[-1]
        if v.ty == "any":
            sink.append(v.z >= 0)  # the untyped universe includes None (0)
        elif v.ty == "str":
            sink.append(v.z >= (0 if opt else 1))
        elif is_ref(v.ty):
            sink.append(z3.And(v.z >= (0 if opt else 1), v.z < st.nref))
            # typed heap: a list is never an object, a dict never a tuple, ... (kinds of different container types do not alias)
            k = z3.Function("kind", I, I)(v.z)
            if v.ty[0] == "obj" and "|" in v.ty[1]:
                alts = [k == atom("kind:" + self.kind_name(("obj", c_))) for c_ in v.ty[1].split("|")]  # union of unrelated classes
                sink.append(z3.Or(*([v.z == 0] if opt else []), *alts))
            else:
                kn = atom("kind:" + self.kind_name(v.ty))
                sink.append(z3.Or(v.z == 0, k == kn) if opt else k == kn)

    def assume_provenance(self, r, name, sort, owner):
        """a reference read from an object that is unchanged since an earlier point is older than that point"""
        st = self.st
        if st.bound or not is_ref(r.ty):
            return
        for cond, bound in st.heap.get(name, sort).guards(owner):
            b = bound if bound is not None else st.nref0
            c = z3.simplify(cond)
            if z3.is_false(c):
                continue
            st.pc.append(z3.Implies(c, r.z < b))

    def run_path(self):
        c = self.c
        try:
            self.init_state()
            try:
                self.block(self.fn.body)
                outcome = ("return", NONE)
            except ReturnEx as r:
                outcome = ("return", r.value)
            except RaiseEx as r:
                outcome = ("raise", r)
            self.finish(outcome)
        except PathEnd:
            return

    def finish(self, outcome):
        c, st = self.c, self.st
        self.cur_outcome = "return" if outcome[0] == "return" else "raise:" + outcome[1].cls
        # in postconditions a parameter name denotes the ARGUMENT (entry value), even if the body re-assigned the local
        for nm, v in self.params.items():
            if not nm.startswith("$"):
                st.vars[nm] = v
        # field-granular frame: every field of the listed objects other than the declared ones is unchanged at every exit
        snap = st.labels["entry"]
        for objexpr, flds in c.d.get("only_fields", {}).items():
            ref_ = self.in_snapshot("entry", parse_spec(objexpr)).z if True else None
            st.spec += 1
            st.spec -= 1
            for hname in sorted(st.heap.m):
                if hname.startswith("f.") and hname.split(".")[1] not in flds:
                    self.oblige("frame-field", st.heap.m[hname].read(ref_) == snap.heap.get(hname, st.heap.sorts[hname]).read(ref_), f"{objexpr}.{hname.split('.')[1]}")
        if outcome[0] == "return":
            st.vars["result"] = outcome[1]
            self.covered.add("return")
            for j, post in enumerate(c.ensures):
                self.oblige("ensures", self.spec(post), f"{j}")
            for name, spec in c.raises.items():
                if isinstance(spec, dict) and spec.get("iff"):
                    # the function returned normally: the raise-condition (over entry state) must be false
                    self.oblige("raises-iff", z3.Not(self.spec(spec["iff"], old=True)), name)
        else:
            r = outcome[1]
            self.covered.add("raise:" + r.cls)
            spec = self.lookup_raise_spec(r.cls)
            if spec is None:
                self.oblige("no-raise", z3.BoolVal(False), f"{r.cls}@{getattr(r.node, 'lineno', 0) - self.fn.lineno if r.node is not None else ''}")
                return
            if isinstance(spec, str):
                spec = {"when": spec}
            st.vars["exc"] = r.exc if r.exc is not None else NONE
            if spec.get("when"):
                self.oblige("raises-when", self.spec(spec["when"], old=True), r.cls)
            if spec.get("iff"):
                self.oblige("raises-when", self.spec(spec["iff"], old=True), r.cls)
            for j, post in enumerate(spec.get("ensures", [])):
                self.oblige("raises-ensures", self.spec(post), f"{r.cls}/{j}")

    def lookup_raise_spec(self, cls):
        for name, spec in self.c.raises.items():
            if name == cls or self.bi.is_subclass(self, cls, name):
                return spec
        return None

    # ================================================================== spec language
    def spec(self, text, old=False, extra=None):
        st = self.st
        node = parse_spec(text) if isinstance(text, str) else text
        saved = st.vars
        if extra:
            st.vars = dict(st.vars)
            st.vars.update(extra)
        st.spec += 1
        try:
            if old:
                return self.truthy(self.in_snapshot("entry", node))
            return self.truthy(self.ev(node))
        finally:
            st.spec -= 1
            st.vars = saved

    def in_snapshot(self, label, node):
        st = self.st
        snap = st.labels[label]
        saved = (st.vars, st.heap, st.nref)
        # keep spec-only bindings (bound variables, result) visible
        merged = dict(snap.vars)
        for k, v in st.vars.items():
            if k not in merged or k.startswith("_") or k in ("result", "exc") or k in self._bound_names():
                merged[k] = v
        st.vars, st.heap, st.nref = merged, snap.heap.copy(), snap.nref
        try:
            return self.ev(node)
        finally:
            st.vars, st.heap, st.nref = saved

    def _bound_names(self):
        return {str(b) for b in self.st.bound}

    # ================================================================== truthiness / coercions
    def truthy(self, v):
        if v.ty == "bool":
            z = v.z
            return z if v.none is None else z3.And(z3.Not(v.none), z)
        if v.ty == "none":
            return z3.BoolVal(False)
        if v.ty == "int":
            z = v.z != 0
            return z if v.none is None else z3.And(z3.Not(v.none), z)
        if v.ty == "real":
            z = v.z != 0
            return z if v.none is None else z3.And(z3.Not(v.none), z)
        if v.ty == "str":
            return z3.And(v.z != 0, v.z != 1)
        if v.ty == "fn":
            return z3.BoolVal(True)
        if v.ty == "any":
            # boxed booleans are distinguished atoms; None is 0; everything else through an uninterpreted predicate
            return z3.If(v.z == atom("py:True"), z3.BoolVal(True), z3.And(v.z != 0, v.z != atom("py:False"), z3.Function("any_truthy", I, B)(v.z)))
        t = v.ty
        if t[0] == "dict" and not self.st.bound:
            ft = self.full_ty(v)
            if ft[1] is not None:
                # a dict is empty iff it has no key (ties the size used for truthiness to the domain array)
                ks = sort_of(ft[1])
                dom = self.hread("dom." + sort_tag(ks), z3.ArraySort(ks, B), v.z)
                self.st.pc.append((self.hread("len", I, v.z) == 0) == (dom == z3.K(ks, z3.BoolVal(False))))
        if t[0] in ("list", "dict", "set"):
            return z3.And(v.z != 0, self.len_of(v) != 0)
        if t[0] == "tuple":
            return z3.BoolVal(len(t) > 1)
        if t[0] == "obj":
            r = self.bi.obj_truthy(self, v)
            return r if r is not None else v.z != 0
        if t[0] == "rec":
            return v.z != 0
        raise OutOfSubset(f"truthiness of {v.ty}")

    def to_real(self, v):
        if v.ty == "real":
            return v.z
        if v.ty == "int":
            return z3.ToReal(v.z)
        if v.ty == "bool":
            return z3.If(v.z, z3.RealVal(1), z3.RealVal(0))
        raise OutOfSubset(f"cannot use {v.ty} as a number")

    def to_int(self, v):
        if v.ty == "int":
            return v.z
        if v.ty == "bool":
            return z3.If(v.z, 1, 0)
        raise OutOfSubset(f"cannot use {v.ty} as int")

    def coerce(self, v, ty):
        """value as stored under declared type ty (z term of sort_of(ty), none flag)"""
        t = strip_opt(ty) if ty is not None else v.ty
        if t == "any" and v.ty in ("int", "real", "bool") and v.none is None:
            # boxing a scalar into the untyped universe (injective uninterpreted embeddings; booleans are the distinguished atoms)
            if v.ty == "bool":
                return V("any", z3.If(v.z, atom("py:True"), atom("py:False")))
            return V("any", z3.Function("any_of_" + v.ty, sort_of(v.ty), I)(v.z))
        if t == "real" and v.ty in ("int", "bool"):
            return V("real", self.to_real(v), v.none)
        if t == "int" and v.ty == "bool":
            return V("int", self.to_int(v), v.none)
        if v.ty == "none":
            if t in ("int", "real", "bool"):
                return V(t, z3.IntVal(0) if t == "int" else (z3.RealVal(0) if t == "real" else z3.BoolVal(False)), z3.BoolVal(True))
            return V(t, z3.IntVal(0))
        return v

    # ================================================================== heap primitives
    def alloc(self):
        st = self.st
        if st.spec:
            raise OutOfSubset("allocation inside a spec expression")
        if st.pure:
            raise NeedFork()
        ref = st.nref
        st.nref = st.nref + 1
        self.last_alloc = ref
        return ref

    def kind_name(self, ty):
        """heap kind of a reference type: container constructor, or the root repository class of an object type
        (objects of unrelated classes never alias)"""
        if ty[0] == "set":
            return "dict"
        if ty[0] != "obj":
            return ty[0]
        root = ty[1]
        for c in self.bi.mro(self, ty[1]):
            if c in ("object", "Exception", "BaseException") or self.bi.find_class(self, c)[0] is None:
                break
            root = c
        return "obj:" + root.split(".")[-1]

    def set_kind(self, ref, kind):
        self.st.pc.append(z3.Function("kind", I, I)(ref) == atom("kind:" + kind))

    def wframe(self, ref, what, field=None):
        st = self.st
        if st.pure:
            raise NeedFork()
        for fr in st.frames:
            k, nentry, mods = fr[0], fr[1], fr[2]
            only = fr[3] if len(fr) > 3 else []
            self.oblige("frame", z3.Or(ref >= nentry, *[ref == m for m in mods]), f"L{k}:{what}")
            for m, allowed in only:
                if field is not None and field not in allowed:
                    # the loop declares that of this object only `allowed` fields change
                    self.oblige("frame", ref != m, f"L{k}:{what} (field not in the loop's only_fields)")

    def trace_prefix_preserved(self, pre_heap):
        """the ghost trace only grows: after a havoc that includes it (loop, call), its old prefix is unchanged"""
        st = self.st
        if "$trace" not in st.vars:
            return
        t = st.vars["$trace"].z
        n0 = pre_heap.get("len", I).read(t)
        n1 = st.heap.get("len", I).read(t)
        a0 = pre_heap.get("el.p", z3.ArraySort(I, I)).read(t)
        a1 = st.heap.get("el.p", z3.ArraySort(I, I)).read(t)
        k = z3.Int("k!tr")
        st.pc.append(n1 >= n0)
        st.pc.append(z3.ForAll([k], z3.Implies(z3.And(0 <= k, k < n0), a1[k] == a0[k])))
        self.drain()

    def drain(self):
        st = self.st
        if st.heap.pending:
            st.pc.extend(st.heap.pending)
            del st.heap.pending[:]

    def hread(self, name, sort, ref):
        v = self.st.heap.get(name, sort).read(ref)
        self.drain()
        return v

    def hwrite(self, name, sort, ref, val, what="", field=None):
        self.wframe(ref, what or name, field)
        self.st.heap.store(name, sort, ref, val)
        self.drain()

    def full_ty(self, v):
        t = v.ty
        if isinstance(t, tuple) and None in t and v.z is not None:
            return self.st.dyn.get(v.z.get_id(), t)
        return t

    def refine(self, v, ty):
        self.st.dyn[v.z.get_id()] = ty
        v.ty = ty

    # ---- lists
    def alloc_list(self, elem_ty):
        ref = self.alloc()
        self.set_kind(ref, "list")
        self.st.heap.store("len", I, ref, z3.IntVal(0))
        return V(("list", elem_ty), ref)

    def len_of(self, v):
        n = self.hread("len", I, v.z)
        if not self.st.bound:
            self.st.pc.append(n >= 0)
        return n

    def elem_ty(self, v):
        t = self.full_ty(v)
        if t[1] is None:
            if self.st.spec:
                return "any"
            raise OutOfSubset("list element type unknown (declare it under locals)")
        v.ty = t
        return t[1]

    def el_name(self, ety):
        return "el." + stag(ety)

    def list_get(self, v, idx, check=True, what=""):
        ety = self.elem_ty(v)
        s = sort_of(ety)
        n = self.hread("len", I, v.z)
        if check and self.c.safety:
            self.oblige("index", z3.And(0 <= idx, idx < n), what)
        z = self.hread(self.el_name(ety), z3.ArraySort(I, s), v.z)[idx]
        r = V(strip_opt(ety), z)
        self.assume_wf(r, is_opt(ety))
        self.assume_provenance(r, self.el_name(ety), z3.ArraySort(I, s), v.z)
        return r

    def list_set(self, v, idx, val, what=""):
        ety = self.elem_ty(v)
        s = sort_of(ety)
        n = self.hread("len", I, v.z)
        if self.c.safety:
            self.oblige("index", z3.And(0 <= idx, idx < n), what)
        val = self.coerce(val, ety)
        name = self.el_name(ety)
        arr = self.hread(name, z3.ArraySort(I, s), v.z)
        self.hwrite(name, z3.ArraySort(I, s), v.z, z3.Store(arr, idx, val.z), "list-setitem")

    def list_append(self, v, val):
        t = self.full_ty(v)
        if t[1] is None:
            self.refine(v, ("list", val.ty))
        ety = self.elem_ty(v)
        s = sort_of(ety)
        val = self.coerce(val, ety)
        if val.none is not None and not z3.is_false(z3.simplify(val.none)):
            if is_opt(ety):
                raise OutOfSubset("optional scalar stored in a list of optionals")
            self.oblige("none-store", z3.Not(val.none), "list-append")  # the element type is not optional: None must be impossible here
        name = self.el_name(ety)
        n = self.len_of(v)
        arr = self.hread(name, z3.ArraySort(I, s), v.z)
        self.hwrite(name, z3.ArraySort(I, s), v.z, z3.Store(arr, n, val.z), "list-append")
        self.hwrite("len", I, v.z, n + 1, "list-append")

    def list_from(self, items, ety=None):
        if ety is None and items:
            ety = items[0].ty
        r = self.alloc_list(ety)
        for it in items:
            self.list_append(r, it)
        return r

    def list_repeat(self, val, n):
        was_none = val.ty == "none"
        if was_none:
            val = V("any", z3.IntVal(0))  # [None] * n: a list of untyped slots
        r = self.alloc_list(val.ty)
        s = sort_of(val.ty)
        self.st.heap.store(self.el_name(val.ty), z3.ArraySort(I, s), r.z, z3.K(I, val.z))
        self.st.heap.store("len", I, r.z, z3.If(n >= 0, n, 0))
        if was_none:
            r.py = "none-repeat"  # assigned to a local with a declared element type: the slots are None of that type (see assign)
        return r

    # ---- object / record fields
    def field_type(self, owner_ty, fname):
        if owner_ty[0] == "rec":
            f = rec_fields(owner_ty)
            if fname in f:
                return f[fname]
            raise OutOfSubset(f"record has no key {fname!r}: {owner_ty}")
        if owner_ty[0] == "tuple":
            return owner_ty[1 + int(fname[1:])]
        for cls in owner_ty[1].split("|"):
            cls = self.bi.ALIAS.get(cls, cls)
            for c in self.bi.mro(self, cls):
                if f"{c}.{fname}" in self.fields:
                    return self.fields[f"{c}.{fname}"]
        if fname in self.fields:
            return self.fields[fname]
        return None

    def fld_name(self, owner_ty, fname, ty):
        pre = {"rec": "k", "tuple": "t", "obj": "f"}[owner_ty[0]]
        return f"{pre}.{fname}.{stag(ty)}"

    def fld_read(self, obj, fname, what=""):
        oty = obj.ty
        ty = self.field_type(oty, fname)
        if ty is None:
            raise OutOfSubset(f"undeclared field {oty[1] if oty[0] == 'obj' else oty}.{fname}")
        if oty[0] == "tuple" and obj.items is not None:
            return obj.items[int(fname[1:])]
        name = self.fld_name(oty, fname, ty)
        z = self.hread(name, sort_of(ty), obj.z)
        t = strip_opt(ty)
        none = None
        if is_opt(ty) and t in ("int", "real", "bool"):
            none = self.hread(name + "?", B, obj.z)
        r = V(t, z, none)
        self.assume_wf(r, is_opt(ty))
        self.assume_provenance(r, name, sort_of(ty), obj.z)
        return r

    def fld_write(self, obj, fname, val, what=""):
        oty = obj.ty
        ty = self.field_type(oty, fname)
        if ty is None:
            ty = val.ty if val.none is None else ("opt", val.ty)
            if val.ty == "none":
                raise OutOfSubset(f"undeclared field {oty}.{fname} first assigned None")
            self.fields[f"{oty[1]}.{fname}" if oty[0] == "obj" else fname] = ty
        val = self.coerce(val, ty)
        tdecl = strip_opt(ty)
        if val.ty != "none" and (is_ref(tdecl) != is_ref(val.ty) or (is_ref(tdecl) and tdecl[0] != val.ty[0])) and tdecl != "any" and val.ty != "any":
            # e.g. a str stored where the contract declares a list: the declared shape of the field is part of the contract
            self.oblige("field-type", z3.BoolVal(False), f"{fname}: declared {tdecl if not isinstance(tdecl, tuple) else tdecl[0]}, stored {val.ty if not isinstance(val.ty, tuple) else val.ty[0]}")
        name = self.fld_name(oty, fname, ty)
        self.hwrite(name, sort_of(ty), obj.z, val.z, f"{fname}", field=fname if oty[0] == "obj" else None)
        if is_opt(ty) and strip_opt(ty) in ("int", "real", "bool"):
            self.hwrite(name + "?", B, obj.z, val.none if val.none is not None else z3.BoolVal(False), f"{fname}")
        elif val.none is not None and not z3.is_false(z3.simplify(val.none)):
            if self.c.safety:
                self.oblige("none-store", z3.Not(val.none), fname)

    def new_rec(self, pairs):
        """pairs: list of (key, V)"""
        fs = [(k, self.fields.get("rec." + k) or (("opt", v.ty) if v.none is not None else v.ty)) for k, v in pairs]
        # keys that the function may add later to this literal (declared in the contract): optional keys of the record type
        for trigger, extra in self.c.d.get("rec_extra", {}).items():
            if any(k == trigger for k, _ in pairs):
                fs += [("?" + ek, parse_type(et)) for ek, et in extra.items()]
        ty = ("rec", tuple(fs))
        ref = self.alloc()
        self.set_kind(ref, "rec")
        r = V(ty, ref)
        for k, v in pairs:
            self.fld_write(r, k, v)
            self.st.heap.store(f"has.{k}", B, ref, z3.BoolVal(True))
        for k, _ in fs[len(pairs):]:
            self.st.heap.store(f"has.{k[1:]}", B, ref, z3.BoolVal(False))
        return r

    def new_tuple(self, items):
        items = list(items)
        if self.st.spec or self.st.pure:
            return V(("tuple",) + tuple(i.ty if i.none is None else ("opt", i.ty) for i in items), None, items=items)
        ty = ("tuple",) + tuple((("opt", i.ty) if i.none is not None else i.ty) for i in items)
        ref = self.alloc()
        self.set_kind(ref, "tuple")
        r = V(ty, ref, items=items)
        for k, v in enumerate(items):
            if v.ty == "fn" or v.z is None and v.ty != "none":
                continue
            vv = self.coerce(v, ty[1 + k]) if v.ty == "none" else v
            name = self.fld_name(ty, f"_{k}", ty[1 + k])
            self.st.heap.store(name, sort_of(ty[1 + k]), ref, vv.z)
            if vv.none is not None:
                self.st.heap.store(name + "?", B, ref, vv.none)
        self.st.heap.store("len", I, ref, z3.IntVal(len(items)))
        return r

    def tuple_items(self, v):
        if v.items is not None:
            return v.items
        return [self.fld_read(v, f"_{k}") for k in range(len(v.ty) - 1)]

    # ================================================================== expression evaluation
    def ev(self, e):
        m = getattr(self, "ev_" + type(e).__name__, None)
        if m is None:
            raise OutOfSubset(f"expression {type(e).__name__}: {U(e)[:80]}")
        return m(e)

    def ev_Constant(self, e):
        v = e.value
        if isinstance(v, bool):
            return vbool(v)
        if isinstance(v, int):
            return vint(v)
        if isinstance(v, float):
            from fractions import Fraction

            fr = Fraction(v)
            return V("real", z3.RealVal(f"{fr.numerator}/{fr.denominator}"), py=v)
        if isinstance(v, str):
            return vstr(v)
        if v is None:
            return NONE
        if isinstance(v, bytes):
            return V("str", atom("b:" + v.decode("latin1")), py=v)
        raise OutOfSubset(f"constant {v!r}")

    def ev_Name(self, e):
        st = self.st
        if e.id in st.vars:
            return st.vars[e.id]
        if e.id.startswith("GHOST_") and "$" + e.id[6:] in st.vars:
            return st.vars["$" + e.id[6:]]
        r = self.bi.global_name(self, e.id)
        if r is not None:
            return r
        raise OutOfSubset(f"unbound name {e.id}")

    def ev_NamedExpr(self, e):
        v = self.ev(e.value)
        self.st.vars[e.target.id] = v
        return v

    def ev_Await(self, e):
        return self.ev(e.value)

    def ev_Yield(self, e):
        """a generator's yield appends the value to the ghost sequence $yields (reserved reference -2); the consumer is not modelled here"""
        st = self.st
        if st.spec or st.pure:
            raise NeedFork()
        v = self.ev(e.value) if e.value is not None else NONE
        ys = st.vars.get("$yields")
        if ys is None:
            raise OutOfSubset("yield outside a generator contract (declare yields=<type>)")
        vv = self.coerce(v, ys.ty[1])
        n = self.len_of(ys)
        name = self.el_name(ys.ty[1])
        s_ = sort_of(ys.ty[1])
        arr = self.hread(name, z3.ArraySort(I, s_), ys.z)
        st.heap.store(name, z3.ArraySort(I, s_), ys.z, z3.Store(arr, n, vv.z))
        st.heap.store("len", I, ys.z, n + 1)
        return NONE

    def ev_Tuple(self, e):
        return self.new_tuple([self.ev(x) for x in e.elts])

    def ev_List(self, e):
        elts = []
        for x in e.elts:
            # [429, *range(500, 505)]: a starred range with literal bounds is the list of its members
            if (isinstance(x, ast.Starred) and isinstance(x.value, ast.Call) and isinstance(x.value.func, ast.Name) and x.value.func.id == "range" and not x.value.keywords
                    and 1 <= len(x.value.args) <= 2 and all(isinstance(a, ast.Constant) and isinstance(a.value, int) for a in x.value.args)
                    and len(range(*[a.value for a in x.value.args])) <= 64):
                elts.extend(ast.Constant(v) for v in range(*[a.value for a in x.value.args]))
            else:
                elts.append(x)
        items = [self.ev(x) for x in elts]
        if self.st.spec:
            return self.new_tuple(items)
        if items and all(i.ty in ("int", "real") and i.none is None for i in items) and any(i.ty == "real" for i in items):
            # numeric literal mixing ints and floats ([50, 99.9, 100]): a list of numbers
            return self.list_from([self.coerce(i, "real") for i in items], "real")
        if items and any(i.ty != items[0].ty or i.none is not None for i in items):
            # fixed-shape heterogeneous list literal (e.g. a report row): modelled as an immutable tuple
            self.notes.append("heterogeneous list literal modelled as tuple: " + U(e)[:60])
            return self.new_tuple(items)
        return self.list_from(items, items[0].ty if items else None)

    def ev_Dict(self, e):
        if e.keys and all(isinstance(k, ast.Constant) and isinstance(k.value, str) for k in e.keys):
            return self.new_rec([(k.value, self.ev(v)) for k, v in zip(e.keys, e.values)])
        if any(k is None for k in e.keys) and not (self.st.spec or self.st.pure):
            # {**a, "k": v, ..}: a new dict filled left to right (later entries win)
            d_ = self.bi.new_dict(self, None, None)
            for k, v in zip(e.keys, e.values):
                if k is None:
                    self.bi.dict_update(self, d_, self.ev(v))
                else:
                    kv, vv = self.ev(k), self.ev(v)
                    t_ = self.full_ty(d_)
                    if t_[1] is not None and t_[2] == "any" and vv.ty == "str":
                        vv = V("any", vv.z)
                    elif t_[1] is not None:
                        vv = self.coerce(vv, t_[2])
                    self.bi.dict_set(self, d_, kv, vv)
            return d_
        if not e.keys:
            if self.st.spec or self.st.pure:
                return V("any", atom("{}"))  # the empty dict as a value (no keys); see any.get
            return self.bi.new_dict(self, None, None)
        raise OutOfSubset("dict literal with non-constant keys")

    def ev_JoinedStr(self, e):
        return self.bi.fstring(self, e)

    def ev_Lambda(self, e):
        return V("fn", None, items=("lambda", e, self.st.vars, self.cur_mod, None))

    def ev_IfExp(self, e):
        c = self.truthy(self.ev(e.test))
        cs = z3.simplify(c)
        if z3.is_true(cs):
            return self.ev(e.body)
        if z3.is_false(cs):
            return self.ev(e.orelse)
        st = self.st
        try:
            a = self.guarded(c, e.body)
            b = self.guarded(z3.Not(c), e.orelse)
            return self.merge(c, a, b)
        except NeedFork:
            if st.spec or st.pure:
                raise
        if self.branch(c):
            return self.ev(e.body)
        return self.ev(e.orelse)

    def guarded(self, g, node):
        st = self.st
        st.guards.append(g)
        st.pure += 1
        try:
            return self.ev(node)
        finally:
            st.pure -= 1
            st.guards.pop()

    def merge(self, c, a, b):
        if a.ty == "none" and b.ty == "none":
            return NONE
        if a.ty == "none":
            a = self.coerce(a, b.ty)
        if b.ty == "none":
            b = self.coerce(b, a.ty)
        if a.ty != b.ty and "any" in (a.ty, b.ty) and {a.ty, b.ty} - {"any"} <= {"int", "real", "bool", "str"}:
            # an untyped value merged with a scalar / string (d.pop(k, 1), d.get(k, "x")): box the scalar into the untyped universe
            other = b if a.ty == "any" else a
            if other.ty == "str" or other.none is None:
                boxed = V("any", other.z) if other.ty == "str" else self.coerce(other, "any")  # strings and untyped values share one representation
                if a.ty == "any":
                    b = boxed
                else:
                    a = boxed
        if a.ty != b.ty:
            if {a.ty, b.ty} <= {"int", "real", "bool"}:
                if "real" in (a.ty, b.ty):
                    a, b = V("real", self.to_real(a), a.none), V("real", self.to_real(b), b.none)
                else:
                    a, b = V("int", self.to_int(a), a.none), V("int", self.to_int(b), b.none)
            elif isinstance(a.ty, tuple) and isinstance(b.ty, tuple) and a.ty[0] == b.ty[0]:
                pass
            else:
                raise NeedFork()
        if a.ty == "fn" or (a.z is None):
            raise NeedFork()
        none = None
        if a.none is not None or b.none is not None:
            none = z3.If(c, a.none if a.none is not None else z3.BoolVal(False), b.none if b.none is not None else z3.BoolVal(False))
        return V(a.ty, z3.If(c, a.z, b.z), none)

    def ev_BoolOp(self, e):
        st = self.st
        is_and = isinstance(e.op, ast.And)
        if st.spec:
            zs = [self.truthy(self.ev(v)) for v in e.values]
            return vbool(z3.And(*zs) if is_and else z3.Or(*zs))
        # value semantics: result is the first operand that decides
        cur = self.ev(e.values[0])
        for nxt in e.values[1:]:
            t = self.truthy(cur)
            ts = z3.simplify(t)
            go_on = t if is_and else z3.Not(t)
            if z3.is_true(ts):
                if is_and:
                    cur = self.ev(nxt)
                    continue
                return cur
            if z3.is_false(ts):
                if is_and:
                    return cur
                cur = self.ev(nxt)
                continue
            try:
                b = self.guarded(go_on, nxt)
                if cur.ty == "bool" and b.ty == "bool" and cur.none is None and b.none is None:
                    cur = vbool(z3.And(cur.z, b.z) if is_and else z3.Or(cur.z, b.z))
                else:
                    cur = self.merge(go_on, b, cur)
                continue
            except NeedFork:
                if st.pure:
                    raise
            if self.branch(go_on):
                cur = self.ev(nxt)
            else:
                return cur
        return cur

    def ev_UnaryOp(self, e):
        v = self.ev(e.operand)
        if isinstance(e.op, ast.Not):
            return vbool(z3.Not(self.truthy(v)))
        if isinstance(e.op, ast.USub):
            if v.py is not None and isinstance(v.py, (int, float)):
                return self.ev_Constant(ast.Constant(-v.py))
            return V(v.ty, -v.z)
        if isinstance(e.op, ast.UAdd):
            return v
        raise OutOfSubset("unary " + type(e.op).__name__)

    def ev_BinOp(self, e):
        op = type(e.op).__name__
        if op == "Mult" and isinstance(e.left, ast.List) and len(e.left.elts) == 1:
            return self.list_repeat(self.ev(e.left.elts[0]), self.to_int(self.ev(e.right)))
        if op == "Mod" and isinstance(e.left, ast.Constant) and isinstance(e.left.value, str):
            return self.bi.percent_format(self, e)
        a, b = self.ev(e.left), self.ev(e.right)
        if op == "Mod" and a.ty == "str" and b.ty in ("str", "any"):
            # template % value with a template that is not a literal: an uninterpreted function of (template, value)
            r = V("str", z3.Function("str_mod", I, I, I)(a.z, b.z))
            if not self.st.bound:
                self.st.pc.append(r.z >= 1)
            return r
        return self.binop(op, a, b, e)

    def binop(self, op, a, b, e=None):
        st = self.st
        if a.ty == "str" or b.ty == "str":
            if op == "Add":
                return self.bi.str_concat(self, a, b)
            raise OutOfSubset(f"string operator {op}")
        if isinstance(a.ty, tuple) and a.ty[0] == "list" and op == "Add":
            return self.bi.list_concat(self, a, b)
        if st.spec and (a.ty == "none" or b.ty == "none"):
            return vint(fresh("none_arith"))  # spec: arithmetic on a value that is None on this path is unconstrained (guard it with isnone)
        for x in (a, b):
            if x.ty not in ("int", "real", "bool"):
                raise OutOfSubset(f"operator {op} on {x.ty}: {U(e) if e is not None else ''}")
            if x.none is not None and self.c.safety and not st.spec:
                self.oblige("none-arith", z3.Not(x.none), U(e) if e is not None else op)
        if op == "Pow":
            if a.py is not None and b.py is not None:
                return self.ev_Constant(ast.Constant(a.py**b.py))
            if b.py is not None and isinstance(b.py, int) and 0 <= b.py <= 4:
                z = z3.IntVal(1) if a.ty != "real" else z3.RealVal(1)
                for _ in range(b.py):
                    z = z * a.z
                return V(a.ty if a.ty != "bool" else "int", z)
            return self.bi.pow(self, a, b)
        real = a.ty == "real" or b.ty == "real" or op == "Div"
        if real:
            x, y = self.to_real(a), self.to_real(b)
            if op in ("Div",):
                if not st.spec and self.c.safety:
                    self.oblige("div-zero", y != 0, U(e) if e is not None else "")
                return self.flop(x / y)
            if op == "Add":
                return self.flop(x + y, exact_if_int=(a, b))
            if op == "Sub":
                return self.flop(x - y, exact_if_int=(a, b))
            if op == "Mult":
                return self.flop(x * y, exact_if_int=(a, b))
            if op == "FloorDiv":
                if not st.spec and self.c.safety:
                    self.oblige("div-zero", y != 0, U(e) if e is not None else "")
                return vreal(z3.ToReal(z3.ToInt(x / y)))
            raise OutOfSubset(f"real operator {op}")
        x, y = self.to_int(a), self.to_int(b)
        if op == "Add":
            return vint(x + y)
        if op == "Sub":
            return vint(x - y)
        if op == "Mult":
            return vint(x * y)
        if op in ("FloorDiv", "Mod"):
            if not st.spec and self.c.safety:
                self.oblige("div-zero", y != 0, U(e) if e is not None else "")
            # Python floor semantics; z3 div/mod are euclidean: identical for y > 0; for y < 0 adjust
            ys = z3.simplify(y)
            if z3.is_int_value(ys) and ys.as_long() > 0 or st.spec:
                return vint(x / y if op == "FloorDiv" else x % y)
            if not st.pure and self.branch(y > 0):
                return vint(x / y if op == "FloorDiv" else x % y)
            q = z3.If(y > 0, x / y, (-x) / (-y))
            m = z3.If(y > 0, x % y, -((-x) % (-y)))
            return vint(q if op == "FloorDiv" else m)
        raise OutOfSubset(f"int operator {op}")

    def flop(self, z, exact_if_int=None):
        """result of a float operation under the contract's float model"""
        if self.c.float == "exact" or self.st.spec:
            return vreal(z)  # spec arithmetic is exact; the float model is applied to code only (spec writes fl()/rnd() explicitly)
        return vreal(self.fl(z))

    def reveal_float(self):
        return self.c.float == "round"

    def ev_Compare(self, e):
        left = self.ev(e.left)
        parts = []
        for op, r in zip(e.ops, e.comparators):
            right = self.ev(r)
            parts.append(self.compare(type(op).__name__, left, right, e))
            left = right
        return vbool(z3.And(*parts) if len(parts) > 1 else parts[0])

    def compare(self, o, a, b, e=None):
        if o in ("Is", "IsNot"):
            if b.ty == "none":
                z = is_none_z(a)
            elif a.ty == "none":
                z = is_none_z(b)
            elif a.ty == "bool" and b.ty == "bool":
                z = a.z == b.z
            else:
                z = self.eq(a, b)
            return z if o == "Is" else z3.Not(z)
        if o in ("In", "NotIn"):
            z = self.bi.contains(self, b, a)
            return z if o == "In" else z3.Not(z)
        if o == "Eq":
            return self.eq(a, b)
        if o == "NotEq":
            return z3.Not(self.eq(a, b))
        # ordering
        if isinstance(a.ty, tuple) and a.ty[0] == "tuple" and isinstance(b.ty, tuple) and b.ty[0] == "tuple":
            return self.bi.tuple_order(self, o, a, b)
        if a.ty == "str" and b.ty == "str":
            lt = z3.Function("str_lt", I, I, B)
            return {"Lt": lt(a.z, b.z), "Gt": lt(b.z, a.z), "LtE": z3.Not(lt(b.z, a.z)), "GtE": z3.Not(lt(a.z, b.z))}[o]
        if self.st.spec and (a.ty == "none" or b.ty == "none"):
            return z3.BoolVal(False)  # spec: an ordering against None is false (guard it with isnone)
        if (a.ty == "any") != (b.ty == "any") and (a.ty in ("int", "real", "bool") or b.ty in ("int", "real", "bool")):
            # a JSON value compared with a number: unboxed through the (assumed total) numeric view of untyped values (A-JSON-NUM)
            def unbox(x, other):
                if x.ty != "any":
                    return x
                if other.ty == "real":
                    return V("real", z3.Function("any_real", I, R)(x.z))
                return V("int", z3.Function("any_int", I, I)(x.z))

            a, b = unbox(a, b), unbox(b, a)
        for x in (a, b):
            if x.ty not in ("int", "real", "bool"):
                raise OutOfSubset(f"ordering on {x.ty}: {U(e) if e is not None else ''}")
            if x.none is not None and self.c.safety and not self.st.spec:
                self.oblige("none-compare", z3.Not(x.none), U(e) if e is not None else o)
        if a.ty == "real" or b.ty == "real":
            x, y = self.to_real(a), self.to_real(b)
        else:
            x, y = self.to_int(a), self.to_int(b)
        return {"Lt": x < y, "LtE": x <= y, "Gt": x > y, "GtE": x >= y}[o]

    def eq(self, a, b):
        if a.ty == "none" or b.ty == "none":
            return is_none_z(a if b.ty == "none" else b)
        num = ("int", "real", "bool")
        if a.ty in num and b.ty in num:
            if a.ty == "real" or b.ty == "real":
                z = self.to_real(a) == self.to_real(b)
            elif a.ty == "bool" and b.ty == "bool":
                z = a.z == b.z
            else:
                z = self.to_int(a) == self.to_int(b)
            an = a.none if a.none is not None else z3.BoolVal(False)
            bn = b.none if b.none is not None else z3.BoolVal(False)
            if a.none is None and b.none is None:
                return z
            return z3.Or(z3.And(an, bn), z3.And(z3.Not(an), z3.Not(bn), z))
        if (a.ty in num) != (b.ty in num):
            other = b if a.ty in num else a
            if other.ty == "any":
                # an untyped value equals a number iff it is that boxed number (injective embeddings any_of_int / any_of_real / py:True|False)
                numv = a if a.ty in num else b
                boxed = other.z == self.coerce(V(numv.ty, numv.z), "any").z
                if numv.none is None:
                    return boxed
                if self.st.spec:
                    return z3.Or(z3.And(numv.none, other.z == 0), z3.And(z3.Not(numv.none), boxed))
                return z3.BoolVal(False)
            return z3.BoolVal(False)
        if isinstance(a.ty, tuple) and a.ty[0] == "tuple" and isinstance(b.ty, tuple) and b.ty[0] == "tuple":
            ai, bi_ = self.tuple_items(a), self.tuple_items(b)
            if len(ai) != len(bi_):
                return z3.BoolVal(False)
            return z3.And(*[self.eq(x, y) for x, y in zip(ai, bi_)]) if ai else z3.BoolVal(True)
        if a.ty == "fn" and b.ty == "fn" and a.items and b.items and a.items[0] in ("class", "module") and b.items[0] in ("class", "module") and "class" in (a.items[0], b.items[0]):
            # two classes (type(e) is SomeError): the same class iff the canonical names agree
            return z3.BoolVal(self.bi.canon_class(self, str(a.items[1])) == self.bi.canon_class(self, str(b.items[1])))
        if (a.ty == "fn") != (b.ty == "fn"):
            f_, o_ = (a, b) if a.ty == "fn" else (b, a)
            if o_.ty == "any" and f_.items and f_.items[0] in ("module", "class", "def") and (f_.py or f_.items[1]):
                # an untyped value compared with a named function / class: it is that function iff it is the atom standing for it
                return o_.z == atom("fn:" + str(f_.py or f_.items[1]))
        if a.ty == "fn" or b.ty == "fn":
            raise OutOfSubset("comparison of functions")
        if isinstance(a.ty, tuple) and a.ty[0] == "obj":
            r = self.bi.obj_eq(self, a, b)
            if r is not None:
                return r
        return a.z == b.z

    def ev_Attribute(self, e):
        return self.bi.attribute(self, e)

    def ev_Subscript(self, e):
        return self.bi.subscript(self, e)

    def ev_Call(self, e):
        return self.bi.call(self, e)

    def ev_ListComp(self, e):
        return self.bi.listcomp(self, e)

    def ev_GeneratorExp(self, e):
        return self.bi.listcomp(self, e)

    def ev_Starred(self, e):
        raise OutOfSubset("starred expression")

    # ================================================================== statements
    def block(self, stmts):
        for s in stmts:
            self.stmt(s)

    def stmt(self, n):
        m = getattr(self, "st_" + type(n).__name__, None)
        if m is None:
            raise OutOfSubset(f"statement {type(n).__name__}")
        self.cur_node = n
        return m(n)

    def st_Pass(self, n):
        pass

    def st_Import(self, n):
        # function-local imports only bind names; recorded so that class names in raise/except resolve
        for a in n.names:
            self.local_imports[a.asname or a.name.split(".")[0]] = a.name if a.asname else a.name.split(".")[0]

    def st_ImportFrom(self, n):
        for a in n.names:
            self.local_imports[a.asname or a.name] = (n.module or "") + "." + a.name

    def st_Global(self, n):
        raise OutOfSubset("global statement")

    def st_Expr(self, n):
        if isinstance(n.value, ast.Constant):
            return
        self.ev(n.value)

    def st_Assign(self, n):
        v = self.ev(n.value)
        for t in n.targets:
            self.assign(t, v)

    def st_AnnAssign(self, n):
        if n.value is not None:
            self.assign(n.target, self.ev(n.value))

    def st_AugAssign(self, n):
        cur = self.ev(n.target)
        d = self.ev(n.value)
        self.assign(n.target, self.binop(type(n.op).__name__, cur, d, n))

    def assign(self, tgt, val):
        st = self.st
        if isinstance(tgt, ast.Name):
            if tgt.id in self.c.locals and val.ty != "none":
                want = self.c.locals[tgt.id]
                if isinstance(val.ty, tuple) and None in val.ty:
                    wt_ = strip_opt(parse_type(want))
                    self.refine(val, wt_)
                    if isinstance(wt_, tuple) and wt_[0] == "rec" and val.ty[0] == "rec" and not st.spec:
                        # an empty {} declared as a record with optional keys: none of them is present yet
                        for k_ in rec_optional(wt_):
                            st.heap.store(f"has.{k_}", B, val.z, z3.BoolVal(False))
                elif isinstance(val.ty, tuple) and val.ty[0] == "rec" and isinstance(parse_type(want), tuple) and strip_opt(parse_type(want))[0] == "dict" and not st.spec:
                    # a dict literal with constant keys assigned to a local declared as a (growing) dict: build the dict key by key
                    wt = strip_opt(parse_type(want))
                    d_ = self.bi.new_dict(self, wt[1], wt[2])
                    for k_, _t in val.ty[1]:
                        key = k_.lstrip("?")
                        fv = self.fld_read(val, key)
                        if wt[2] == "any" and fv.ty == "str":
                            fv = V("any", fv.z)
                        self.bi.dict_set(self, d_, self.bi.vstr(key) if hasattr(self.bi, "vstr") else vstr(key), self.coerce(fv, wt[2]))
                    val = d_
                elif val.py == "none-repeat" and isinstance(strip_opt(want), tuple) and strip_opt(want)[0] == "list" and strip_opt(want)[1] != "any":
                    # [None] * n declared as list[T]: n slots holding None of type T
                    ety = strip_opt(want)[1]
                    zero = z3.BoolVal(False) if sort_of(ety) == B else (z3.RealVal(0) if sort_of(ety) == R else z3.IntVal(0))
                    st.heap.store(self.el_name(ety), z3.ArraySort(I, sort_of(ety)), val.z, z3.K(I, zero))
                    val = V(strip_opt(want), val.z)
            st.vars[tgt.id] = val
        elif isinstance(tgt, (ast.Tuple, ast.List)):
            items = self.bi.unpack(self, val, len(tgt.elts))
            for t, v in zip(tgt.elts, items):
                self.assign(t, v)
        elif isinstance(tgt, ast.Attribute):
            obj = self.ev(tgt.value)
            self.bi.set_attribute(self, obj, tgt.attr, val, tgt)
        elif isinstance(tgt, ast.Subscript):
            self.bi.set_subscript(self, tgt, val)
        else:
            raise OutOfSubset("assignment target " + U(tgt))

    def st_Assert(self, n):
        c = self.truthy(self.ev(n.test))
        if self.branch(c):
            return
        raise RaiseEx("AssertionError", None, n)

    def st_Return(self, n):
        raise ReturnEx(self.ev(n.value) if n.value is not None else NONE)

    def st_Break(self, n):
        raise BreakEx()

    def st_Continue(self, n):
        raise ContinueEx()

    def st_Delete(self, n):
        for t in n.targets:
            self.bi.delete(self, t)

    def st_FunctionDef(self, n):
        self.st.vars[n.name] = V("fn", None, items=("def", n, self.st.vars, self.cur_mod, None))

    st_AsyncFunctionDef = st_FunctionDef

    def st_If(self, n):
        c = self.truthy(self.ev(n.test))
        if self.branch(c):
            self.narrow(n.test, True)
            self.block(n.body)
        else:
            self.narrow(n.test, False)
            self.block(n.orelse)

    def narrow(self, test, taken):
        """type narrowing after a branch: a local known to be not None loses its `none` flag (the fact is in the path condition)"""
        st = self.st

        def drop(name):
            v = st.vars.get(name)
            if v is not None and v.none is not None:
                st.vars[name] = V(v.ty, v.z, None, v.items, v.py)

        if isinstance(test, ast.Name) and taken:
            drop(test.id)
        elif isinstance(test, ast.NamedExpr) and taken:
            drop(test.target.id)
        elif isinstance(test, ast.UnaryOp) and isinstance(test.op, ast.Not):
            self.narrow(test.operand, not taken)
        elif isinstance(test, ast.BoolOp):
            if isinstance(test.op, ast.And) and taken or isinstance(test.op, ast.Or) and not taken:
                for v in test.values:
                    self.narrow(v, taken)
        elif isinstance(test, ast.Compare) and len(test.ops) == 1 and isinstance(test.left, (ast.Name, ast.NamedExpr)):
            rhs = test.comparators[0]
            if isinstance(rhs, ast.Constant) and rhs.value is None:
                if isinstance(test.ops[0], ast.IsNot) and taken or isinstance(test.ops[0], ast.Is) and not taken:
                    drop(test.left.id if isinstance(test.left, ast.Name) else test.left.target.id)

    def st_Raise(self, n):
        if n.exc is None:
            cur = getattr(self, "handling", None)
            if cur is None:
                raise OutOfSubset("bare raise outside handler")
            raise RaiseEx(cur.cls, cur.exc, n)
        cls, exc = self.bi.make_exception(self, n.exc)
        raise RaiseEx(cls, exc, n)

    def st_Try(self, n):
        try:
            try:
                self.block(n.body)
            except RaiseEx as r:
                handled = False
                for h in n.handlers:
                    if self.bi.handler_matches(self, h, r):
                        handled = True
                        if h.name:
                            self.st.vars[h.name] = r.exc if r.exc is not None else self.bi.opaque_exception(self, r.cls)
                        saved = getattr(self, "handling", None)
                        self.handling = r
                        try:
                            self.block(h.body)
                        finally:
                            self.handling = saved
                        break
                if not handled:
                    raise
            else:
                self.block(n.orelse)
        except (RaiseEx, ReturnEx, BreakEx, ContinueEx) as ex:
            if n.finalbody:
                self.block(n.finalbody)
            raise ex
        else:
            if n.finalbody:
                self.block(n.finalbody)

    def st_With(self, n):
        self.bi.with_stmt(self, n)

    st_AsyncWith = st_With

    # ---- loops
    def assigned_names(self, nodes):
        out = []
        for root in nodes:
            for x in ast.walk(root):
                if isinstance(x, ast.Name) and isinstance(x.ctx, ast.Store) and x.id not in out:
                    out.append(x.id)
                elif isinstance(x, ast.ExceptHandler) and x.name and x.name not in out:
                    out.append(x.name)
        return out

    def ghost_updated_in(self, nodes):
        """names of the contract's ghost state variables that executing these statements may update (conservative, syntactic)"""
        all_g = list(self.c.d.get("ghost_state", {}))
        if not all_g:
            return []
        out = []

        def names_of(gu):
            if not gu:
                return []
            return [gu[0]] if isinstance(gu[0], str) else [g[0] for g in gu]

        for root in nodes:
            for x in ast.walk(root):
                if not isinstance(x, ast.Call):
                    continue
                d = self.bi.dotted(x.func)
                if d is None:
                    if isinstance(x.func, ast.Attribute) and x.func.attr in ("append", "extend", "get", "pop", "items", "keys", "values", "add", "update", "sort", "join", "format", "startswith", "endswith", "lower", "upper", "strip", "split"):
                        continue
                    return all_g
                if d in self.c.externals:
                    ext = self.c.externals[d]
                    for g in names_of(ext.get("ghost_update")) + names_of(ext.get("ghost_set") and [ext["ghost_set"]]):
                        out.append(g)
                    for oc in ext.get("outcomes", []) or []:
                        out.extend(names_of(oc.get("ghost_update")))
                    continue
                if d.startswith(self.bi.LOG_SINK_PREFIXES) or d in self.bi.LOG_SINK_NAMES:
                    continue
                if d in self.bi.PY_BUILTINS or d in self.bi.LIB_FUNCS or d in self.bi.SPEC_FUNCS:
                    continue
                last = d.rsplit(".", 1)[-1]
                if last in ("append", "extend", "get", "pop", "items", "keys", "values", "add", "update", "sort", "join", "format", "startswith", "endswith", "lower", "upper", "strip", "split"):
                    continue
                if d in self.cur_mod.classes or self.bi.find_class(self, d)[0] is not None or d.split(".")[-1][:1].isupper():
                    continue
                byc = [c_ for q_, c_ in self.registry.items() if q_.rsplit(".", 1)[-1] == last]
                if byc and d.split(".")[0] in ("self", "cls") and d.count(".") == 1:
                    for c_ in byc:  # a method used BY CONTRACT: only what its contract declares
                        out.extend(c_.d.get("ghost_modifies", []))
                    continue
                return all_g  # a repository function/method (inlined): may update any ghost variable through its own externals
        return [g for g in all_g if g in out]

    def may_emit(self, nodes):
        """conservative syntactic test: can executing these statements append to the ghost trace?"""
        for root in nodes:
            for x in ast.walk(root):
                if not isinstance(x, ast.Call):
                    continue
                d = self.bi.dotted(x.func)
                if d is None:
                    if isinstance(x.func, ast.Attribute) and x.func.attr in ("append", "extend", "get", "pop", "items", "keys", "values", "add", "update", "sort", "join", "format", "startswith", "endswith", "lower", "upper", "strip", "split"):
                        continue
                    return True
                if d not in self.c.externals and (d.startswith(self.bi.LOG_SINK_PREFIXES) or d in self.bi.LOG_SINK_NAMES):
                    continue
                if d in self.c.externals:
                    if self.c.externals[d].get("event"):
                        return True
                    continue
                if d in self.bi.PY_BUILTINS or d in self.bi.LIB_FUNCS or d in self.bi.SPEC_FUNCS:
                    continue
                head = d.split(".")[0]
                if head == "self" or (isinstance(x.func, ast.Name) and d not in self.cur_mod.classes):
                    return True  # a repository method/function: may emit through its own externals
                last = d.rsplit(".", 1)[-1]
                if last in ("append", "extend", "get", "pop", "items", "keys", "values", "add", "update", "sort", "join", "format", "startswith", "endswith", "lower", "upper", "strip", "split"):
                    continue
                if d in self.cur_mod.classes or self.bi.find_class(self, d)[0] is not None or d.split(".")[-1][:1].isupper():
                    continue  # constructor of a class (exceptions, records)
                return True
        return False

    def loop_spec(self, n):
        k = self.loop_ord.get(id(n))
        if k is None:
            return None, None
        spec = self.c.loops.get(k)
        return k, spec

    def st_For(self, n):
        k, spec = self.loop_spec(n)
        if spec is None:
            return self.bi.unroll_for(self, n)
        st = self.st
        self.loop_prefilter = False
        it_node = n.iter
        if isinstance(it_node, ast.Call) and self.bi.dotted(it_node.func) == "filter" and len(it_node.args) == 2 and isinstance(it_node.args[0], ast.Constant) and it_node.args[0].value is None:
            # for x in filter(None, xs): iterate xs and skip falsy elements
            it_node = it_node.args[1]
            self.loop_prefilter = True
        it = self.bi.iterator(self, it_node)  # (lo, hi, elem(i)->V)
        lo, hi, elem = it
        st.vars[f"_lo{k}"], st.vars[f"_hi{k}"] = vint(lo), vint(hi)
        st.labels[f"L{k}"] = Snapshot(st)
        self.loop_common(n, k, spec, lo, hi, elem)

    st_AsyncFor = st_For

    def st_While(self, n):
        k, spec = self.loop_spec(n)
        if spec is None:
            raise OutOfSubset(f"while loop #{k} without invariant")
        st = self.st
        st.labels[f"L{k}"] = Snapshot(st)
        self.loop_common(n, k, spec, z3.IntVal(0), None, None)

    def loop_inv(self, k, spec, i):
        st = self.st
        extra = {"_i": vint(i), f"_i{k}": vint(i)}
        zs = [self.spec(x, extra=extra) for x in spec.get("inv", [])]
        return zs

    def loop_common(self, n, k, spec, lo, hi, elem):
        st = self.st
        is_for = hi is not None
        st.vars[f"_nentry{k}"] = vint(st.nref)
        # 1. invariant on entry
        for j, z in enumerate(self.loop_inv(k, spec, lo)):
            self.oblige("inv-entry", z, f"L{k}/{j}")
        # 2. havoc
        mods = [self.ev_spec_value(x).z for x in spec.get("modifies_objs", [])]
        if "$trace" in st.vars and spec.get("emits", self.may_emit(n.body)):
            mods.append(st.vars["$trace"].z)  # the ghost trace may grow in this loop
        if "$yields" in st.vars and any(isinstance(x, (ast.Yield, ast.YieldFrom)) for b in n.body for x in ast.walk(b)):
            mods.append(st.vars["$yields"].z)
        nentry = st.nref
        # modifies_fresh: the loop may change ANY object allocated by this call so far (e.g. all rows of a matrix built earlier), not only the
        # listed ones; whatever is needed about those objects has to be in the invariant. Caller-visible (older) objects stay framed.
        havoc_from = st.nref0 if spec.get("modifies_fresh") else nentry
        names = self.assigned_names(n.body + ([n.target] if is_for else []))
        for nm in names:
            if nm in st.vars:
                old = st.vars[nm]
                if old.ty == "fn" or (old.z is None and old.ty != "none"):
                    continue
                ty = spec.get("locals", {}).get(nm) or self.c.locals.get(nm)
                if ty is not None:
                    ty = parse_type(ty)
                elif old.ty == "none":
                    raise OutOfSubset(f"loop L{k} reassigns {nm} (None before the loop): declare its type under locals")
                else:
                    ty = self.full_ty(old) if old.none is None else ("opt", old.ty)
                st.vars[nm] = self.symbolic(nm, ty)
            elif nm in spec.get("locals", {}) or nm in self.c.locals:
                st.vars[nm] = self.symbolic(nm, parse_type(spec.get("locals", {}).get(nm) or self.c.locals[nm]))
        # ghost state variables that an external (or callee) of the loop body may update are havocked as well: whatever is needed about them
        # has to be in the invariant (without this only the first iteration would be checked against their entry values)
        for gname in self.ghost_updated_in(n.body + ([n.test] if not is_for else [])):
            gty_ = self.c.d.get("ghost_state", {}).get(gname)
            if gname in st.vars and gty_ is not None:
                st.vars[gname] = self.symbolic(gname.strip("$"), parse_type(gty_))
        st.nref = fresh("nref")
        st.pc.append(st.nref >= nentry)
        pre_heap = st.heap.copy()
        # field-granular loop frame: of the listed objects only the named fields change in the loop (each write is checked)
        only = []
        for objexpr, flds in spec.get("only_fields", {}).items():
            only.append((self.ev_spec_value(objexpr).z, list(flds)))
        st.heap.havoc(havoc_from, mods, st.nref, only)
        self.drain()
        self.trace_prefix_preserved(pre_heap)
        self.loop_only = only
        i = fresh(f"i{k}")
        st.vars[f"_i{k}"] = vint(i)
        st.vars[f"_nentry{k}"] = vint(nentry)
        st.pc.append(lo <= i)
        if is_for:
            st.pc.append(z3.Or(i <= hi, hi < lo))
        st.pc.extend(self.loop_inv(k, spec, i))
        # 3. body or exit
        if is_for:
            enter = self.branch(i < hi)
        else:
            enter = self.branch(self.truthy(self.ev(n.test)))
        if not enter:
            st.vars["_i"] = vint(i)
            if is_for:
                # on exit the index equals the upper bound: state the invariant at the bound term itself as well (same fact, but
                # syntactically aligned with postconditions that speak about len(..) / the range's end)
                st.pc.append(z3.Or(i == hi, hi < lo))
                try:
                    at_hi = self.loop_inv(k, spec, hi)
                except OutOfSubset:
                    at_hi = []
                st.pc.append(z3.Implies(hi >= lo, z3.And(*at_hi)) if at_hi else z3.BoolVal(True))
            if n.orelse:
                self.block(n.orelse)
            return
        st.frames.append((k, havoc_from, mods, getattr(self, "loop_only", [])))
        st.idx.append(i)
        prefilter = is_for and getattr(self, "loop_prefilter", False)
        self.loop_prefilter = False
        if is_for:
            self.assign(n.target, elem(i))
        try:
            try:
                if not prefilter or self.branch(self.truthy(self.ev(n.target))):
                    self.block(n.body)
            except ContinueEx:
                pass
        except BreakEx:
            st.frames.pop()
            st.idx.pop()
            return
        except (RaiseEx, ReturnEx):
            # control leaves the loop: later writes are no longer subject to this loop's frame
            st.frames.pop()
            st.idx.pop()
            raise
        for j, z in enumerate(self.loop_inv(k, spec, i + 1)):
            self.oblige("inv-preserved", z, f"L{k}/{j}")
        raise PathEnd("back edge")

    def spec_value_env(self, text, env):
        st = self.st
        saved = st.vars
        st.vars = dict(st.vars)
        st.vars.update(env)
        st.spec += 1
        try:
            return self.ev(parse_spec(text))
        finally:
            st.spec -= 1
            st.vars = saved

    def ev_spec_value(self, text):
        st = self.st
        st.spec += 1
        try:
            return self.ev(parse_spec(text))
        finally:
            st.spec -= 1


_ids = __import__("itertools").count()


def next_id():
    return next(_ids)


def _has_quant(e):
    seen = set()
    stack = [e]
    while stack:
        x = stack.pop()
        if x.get_id() in seen:
            continue
        seen.add(x.get_id())
        if z3.is_quantifier(x):
            return True
        stack.extend(x.children())
    return False
