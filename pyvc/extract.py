"""Extraction: locate the real functions in the current working tree of the repository ($VERIF_REPO, default /repo).

Nothing is copied or translated: the FunctionDef nodes of the parsed files are what the symbolic executor walks.
What the executor ignores (the `dropped` list in evidence): docstrings, comments, type annotations, logging/console
calls (arguments not evaluated), function-local imports, decorators other than property/staticmethod/classmethod.
"""
import ast
import hashlib
import os


def repo_root():
    return os.environ.get("VERIF_REPO", "/repo")


class ModuleIndex:
    def __init__(self, relpath, root=None):
        self.relpath = relpath
        self.path = os.path.join(root or repo_root(), relpath)
        with open(self.path, encoding="utf-8") as f:
            self.source = f.read()
        self.tree = ast.parse(self.source)
        self.functions = {}  # name -> FunctionDef
        self.classes = {}  # name -> ClassDef
        self.methods = {}  # (cls, name) -> FunctionDef
        self.bases = {}  # cls -> [base names]
        self.imports = {}  # alias -> dotted module or module.attr
        self.assigns = {}  # module-level NAME = <expr>
        self.nested = {}  # Outer.Inner -> Inner
        for n in self.tree.body:
            if isinstance(n, (ast.FunctionDef, ast.AsyncFunctionDef)):
                self.functions[n.name] = n
            elif isinstance(n, ast.ClassDef):
                self.classes[n.name] = n
                self.bases[n.name] = [ast.unparse(b) for b in n.bases]
                # nested classes are indexed under their simple name and as Outer.Inner
                for inner in n.body:
                    if isinstance(inner, ast.ClassDef):
                        self.classes[inner.name] = inner
                        self.classes[f"{n.name}.{inner.name}"] = inner
                        self.bases[inner.name] = self.bases[f"{n.name}.{inner.name}"] = [ast.unparse(b) for b in inner.bases]
                        self.nested[f"{n.name}.{inner.name}"] = inner.name
                        for m in inner.body:
                            if isinstance(m, (ast.FunctionDef, ast.AsyncFunctionDef)):
                                self.methods[(inner.name, m.name)] = m
                                self.methods[(f"{n.name}.{inner.name}", m.name)] = m
                for m in n.body:
                    if isinstance(m, (ast.FunctionDef, ast.AsyncFunctionDef)):
                        # property setters etc. overwrite: keep the first (getter) unless it's a setter
                        decos = [ast.unparse(d) for d in m.decorator_list]
                        if any(d.endswith(".setter") for d in decos):
                            self.methods[(n.name, m.name + ".setter")] = m
                        else:
                            self.methods[(n.name, m.name)] = m
                    elif isinstance(m, ast.Assign) and len(m.targets) == 1 and isinstance(m.targets[0], ast.Name):
                        self.assigns[n.name + "." + m.targets[0].id] = m.value
            elif isinstance(n, ast.Import):
                for a in n.names:
                    self.imports[a.asname or a.name.split(".")[0]] = a.name if a.asname else a.name.split(".")[0]
            elif isinstance(n, ast.ImportFrom):
                for a in n.names:
                    self.imports[a.asname or a.name] = (n.module or "") + "." + a.name
            elif isinstance(n, ast.Assign) and len(n.targets) == 1 and isinstance(n.targets[0], ast.Name):
                self.assigns[n.targets[0].id] = n.value

    def find(self, qualname):
        if "." in qualname:
            cls, name = qualname.rsplit(".", 1)
            m = self.methods.get((cls, name)) or self.methods.get((cls.split(".")[-1], name))
            if m is not None:
                return m
            # a function nested in a function or method: outer.inner
            outer = self.find(cls) if cls in self.functions or "." in cls else self.functions.get(cls)
            if outer is not None:
                for n in ast.walk(outer):
                    if isinstance(n, (ast.FunctionDef, ast.AsyncFunctionDef)) and n.name == name and n is not outer:
                        return n
            return None
        return self.functions.get(qualname)

    def segment(self, node):
        return ast.get_source_segment(self.source, node) or ""


class RepoIndex:
    """Lazily parsed set of repository modules."""

    def __init__(self, root=None):
        self.root = root or repo_root()
        self.mods = {}

    def module(self, relpath):
        if relpath not in self.mods:
            self.mods[relpath] = ModuleIndex(relpath, self.root)
        return self.mods[relpath]

    def module_by_dotted(self, dotted):
        rel = dotted.replace(".", "/") + ".py"
        if os.path.exists(os.path.join(self.root, rel)):
            return self.module(rel)
        rel = dotted.replace(".", "/") + "/__init__.py"
        if os.path.exists(os.path.join(self.root, rel)):
            return self.module(rel)
        return None

    def locate(self, target):
        """'esrally/x.py::Class.method' -> (ModuleIndex, FunctionDef)"""
        relpath, qual = target.split("::")
        m = self.module(relpath)
        fn = m.find(qual)
        if fn is None:
            raise KeyError(f"{target}: not found in the current tree")
        return m, fn

    def resolve_method(self, mod, cls, name):
        """method lookup through base classes (by simple name, across already known modules)"""
        seen = set()
        work = [(mod, cls)]
        while work:
            m, c = work.pop(0)
            if (m.relpath, c) in seen:
                continue
            seen.add((m.relpath, c))
            if (c, name) in m.methods:
                return m, c, m.methods[(c, name)]
            for b in m.bases.get(c, []):
                bm, bc = self.resolve_class(m, b)
                if bm is not None:
                    work.append((bm, bc))
        return None

    def resolve_class(self, mod, name):
        """class name as written in module `mod` (possibly dotted through an import alias) -> (ModuleIndex, clsname)"""
        if name in mod.classes:
            return mod, name
        head, _, rest = name.partition(".")
        if head in mod.imports:
            dotted = mod.imports[head]
            if rest:
                m = self.module_by_dotted(dotted)
                if m and rest in m.classes:
                    return m, rest
            else:
                modname, _, attr = dotted.rpartition(".")
                m = self.module_by_dotted(modname)
                if m and attr in m.classes:
                    return m, attr
        return None, None

    def find_class(self, name):
        for m in self.mods.values():
            if name in m.classes:
                return m, name
        return None, None


def fn_hash(mod, fn):
    return hashlib.sha256(mod.segment(fn).encode()).hexdigest()[:16]


DROPPED = [
    "docstrings, comments, type annotations",
    "logging/console calls (self.logger.*, logging.getLogger(..).*, console.info/println/warn/error): arguments not evaluated (A-LOG)",
    "function-local import statements",
    "decorators other than property/staticmethod/classmethod",
]
