"""Run under /venv/bin/python: dump the ancestor lists of the library exception classes that PyVC matches in except clauses."""
import json, sys, socket
out = {}
alias = {}
def add(name, cls):
    alias[name] = f"{cls.__module__}.{cls.__qualname__}" if cls.__module__ != "builtins" else cls.__qualname__
    out[name] = [f"{b.__module__}.{b.__qualname__}" if b.__module__ != "builtins" else b.__qualname__ for b in cls.__mro__[1:]]
try:
    import elasticsearch, elastic_transport
    for modname, mod in (("elasticsearch", elasticsearch), ("elastic_transport", elastic_transport)):
        for n in dir(mod):
            c = getattr(mod, n)
            if isinstance(c, type) and issubclass(c, BaseException):
                add(f"{modname}.{n}", c)
                canon = f"{c.__module__}.{c.__qualname__}"
                add(canon, c)
    import elasticsearch.helpers, elasticsearch.exceptions
    add("elasticsearch.helpers.BulkIndexError", elasticsearch.helpers.BulkIndexError)
    for n in dir(elasticsearch.exceptions):
        c = getattr(elasticsearch.exceptions, n)
        if isinstance(c, type) and issubclass(c, BaseException):
            add(f"elasticsearch.exceptions.{n}", c)
except Exception as ex:
    out["_error_es"] = [repr(ex)]
try:
    import urllib3.exceptions as ue
    for n in dir(ue):
        c = getattr(ue, n)
        if isinstance(c, type) and issubclass(c, BaseException):
            add(f"urllib3.exceptions.{n}", c)
except Exception as ex:
    out["_error_urllib3"] = [repr(ex)]
add("socket.timeout", socket.timeout)
import urllib.error
add("urllib.error.HTTPError", urllib.error.HTTPError); add("urllib.error.URLError", urllib.error.URLError)
import json as _j
add("json.JSONDecodeError", _j.JSONDecodeError)
# normalise ancestors: map canonical module paths back to public aliases too
out["_alias"] = alias
json.dump(out, open(sys.argv[1], "w"), indent=0)
