"""Minimal fork-per-item scheduler with a hard wall-clock kill (z3's own timeout is not always honoured inside
nonlinear arithmetic). Children inherit the parent's z3 terms; results come back pickled over a pipe."""
import os
import pickle
import select
import signal
import time


def run_forked(n_items, fn, max_par=16, hard_timeout_s=120, should_stop=None):
    results = [None] * n_items
    running = {}  # fd -> [idx, pid, start, bytearray]
    nxt = 0
    stopped = False
    while (nxt < n_items and not stopped) or running:
        if should_stop is not None and not stopped and should_stop(results):
            stopped = True  # no further items are started (their results stay None); running ones finish
        while nxt < n_items and len(running) < max_par and not stopped:
            r, w = os.pipe()
            pid = os.fork()
            if pid == 0:
                os.close(r)
                try:
                    data = pickle.dumps(fn(nxt))
                except BaseException as ex:  # noqa
                    data = pickle.dumps({"error": f"worker crashed: {ex!r}"})
                with os.fdopen(w, "wb") as f:
                    f.write(data)
                os._exit(0)
            os.close(w)
            running[r] = [nxt, pid, time.time(), bytearray()]
            nxt += 1
        ready, _, _ = select.select(list(running), [], [], 0.25)
        for fd in ready:
            chunk = os.read(fd, 1 << 16)
            ent = running[fd]
            if chunk:
                ent[3] += chunk
                continue
            os.close(fd)
            os.waitpid(ent[1], 0)
            try:
                results[ent[0]] = pickle.loads(bytes(ent[3]))
            except Exception:  # noqa
                results[ent[0]] = {"error": "worker died without a result"}
            del running[fd]
        now = time.time()
        for fd, ent in list(running.items()):
            if now - ent[2] > hard_timeout_s:
                try:
                    os.kill(ent[1], signal.SIGKILL)
                except ProcessLookupError:
                    pass
                os.close(fd)
                os.waitpid(ent[1], 0)
                results[ent[0]] = {"killed": True, "secs": round(now - ent[2], 1)}
                del running[fd]
    return results
