"""Run all contracts of one property: generate obligations from the current tree, discharge, replay refutations,
write evidence. Exit 0 held / 1 violation / 2 undecided / 3 checker error."""
import importlib
import json
import multiprocessing as mp
import os
import subprocess
import sys
import time
import traceback

import z3

from . import builtins as bi
from . import smt
from .engine import Contract, Engine, OutOfSubset, State, parse_spec
from .extract import DROPPED, RepoIndex, fn_hash, repo_root
from .types import B, I, R, V, atom_name, is_ref, parse_type, rec_fields, sort_of, sort_tag, stag, strip_opt, vint

VERIF = os.path.dirname(os.path.dirname(os.path.abspath(__file__)))

TIERS = {
    # budgets are sized for a machine that is several times slower / busier than the one the checks were developed on: the slowest obligation
    # takes ~30 s here (a verdict must not flip to "unknown" under load); easy obligations finish in the first 5 % slice either way
    # z3's rlimit (a deterministic amount of work) is what bounds a query; the wall-clock timeouts are only a safety net and deliberately far
    # above what the rlimit allows on this machine, so that verdicts do not depend on the speed or load of the machine
    # (slowest obligation of the unchanged tree: ~80 s of solver time here; an obligation that is FALSE on a changed tree uses its whole budget,
    # which is what ob_s caps)
    "quick": dict(rlimit=200_000_000, timeout_ms=900_000, cvc5=True, ob_s=1500),
    "thorough": dict(rlimit=1_000_000_000, timeout_ms=1_800_000, cvc5=True, ob_s=3600, confirm=True),
}


def load_contracts(prop):
    sys.path.insert(0, VERIF)
    mod = importlib.import_module(f"contracts.{prop}")
    return mod


def load_facts():
    """issubclass facts for library exception classes, dumped from the installed libraries under /venv on every run"""
    out = os.path.join(VERIF, "out", "facts.json")
    os.makedirs(os.path.dirname(out), exist_ok=True)
    script = os.path.join(VERIF, "pyvc", "facts_dump.py")
    try:
        subprocess.run(["/venv/bin/python", script, out], check=True, capture_output=True, timeout=120)
        with open(out) as f:
            bi.load_facts(json.load(f))
        return True
    except Exception as ex:  # noqa
        return False


# ---------------------------------------------------------------- counterexample templates
def cex_template(E, ob):
    """JSON-shaped template of the inputs (entry state) with placeholders, and the placeholder -> z3 term map"""
    snap = ob.env["labels"]["entry"]
    terms = {}
    cnt = [0]

    def ph(term):
        name = f"cex!{cnt[0]}"
        cnt[0] += 1
        terms[name] = term
        return name

    def tmpl(v, ty, depth):
        ty = strip_opt(ty) if ty is not None else v.ty
        if v.ty == "none":
            return None
        if v.ty in ("int", "real", "bool"):
            d = {"$": v.ty, "v": ph(v.z)}
            if v.none is not None:
                d["none"] = ph(v.none)
            return d
        if v.ty in ("str", "any"):
            return {"$": v.ty, "v": ph(v.z)}
        if v.ty == "fn" or v.z is None:
            return {"$": "opaque"}
        t = v.ty
        if depth <= 0:
            return {"$": "ref", "v": ph(v.z)}
        if t[0] == "list" and t[1] is not None:
            ln = snap.heap.get("len", I).read(v.z)
            s = sort_of(t[1])
            arr = snap.heap.get("el." + stag(t[1]), z3.ArraySort(I, s)).read(v.z)
            items = [tmpl(V(strip_opt(t[1]), arr[k]), t[1], depth - 1) for k in range(5)]
            return {"$": "list", "ref": ph(v.z), "len": ph(ln), "items": items}
        if t[0] == "rec":
            return {"$": "rec", "ref": ph(v.z), "fields": {k: tmpl(read_field(v, "k", k, ft), ft, depth - 1) for k, ft in rec_fields(t).items()}}
        if t[0] == "tuple":
            return {"$": "tuple", "items": [tmpl(read_field(v, "t", f"_{k}", ft), ft, depth - 1) for k, ft in enumerate(t[1:])]}
        if t[0] == "obj":
            fs = {}
            for key, ft in E.fields.items():
                if "." in key and key.split(".")[0] in bi.mro(E, t[1]):
                    fname = key.split(".", 1)[1]
                    fs[fname] = tmpl(read_field(v, "f", fname, ft), ft, depth - 1)
            return {"$": "obj", "cls": t[1], "ref": ph(v.z), "fields": fs}
        return {"$": "ref", "v": ph(v.z)}

    def read_field(v, pre, fname, ft):
        s = sort_of(ft)
        name = f"{pre}.{fname}.{stag(ft)}"
        z = snap.heap.get(name, s).read(v.z)
        none = None
        if isinstance(ft, tuple) and ft[0] == "opt" and strip_opt(ft) in ("int", "real", "bool"):
            none = snap.heap.get(name + "?", B).read(v.z)
        return V(strip_opt(ft), z, none)

    out = {}
    for nm, v in E.params.items():
        if nm.startswith("$"):
            continue
        try:
            out[nm] = tmpl(v, None, 3)
        except Exception as ex:  # noqa
            out[nm] = {"$": "error", "msg": str(ex)[:80]}
    return out, terms


def fill(template, model):
    def val(x):
        if isinstance(x, str) and x.startswith("cex!"):
            s = model.get(x)
            if s is None:
                return None
            return parse_value(s)
        return x

    def go(t):
        if isinstance(t, dict):
            return {k: go(v) for k, v in t.items()}
        if isinstance(t, list):
            return [go(x) for x in t]
        return val(t)

    return go(template)


def parse_value(s):
    s = s.strip()
    if s in ("True", "False"):
        return s == "True"
    try:
        return int(s)
    except ValueError:
        pass
    if "/" in s:
        try:
            a, b = s.split("/")
            return {"num": int(a), "den": int(b), "float": int(a) / int(b)}
        except Exception:  # noqa
            return s
    try:
        return float(s.rstrip("?"))
    except ValueError:
        return s


# ---------------------------------------------------------------- main
class Runner:
    def __init__(self, prop, tier="quick", seed=0):
        self.prop, self.tier, self.seed = prop, tier, seed
        self.budget = TIERS[tier]
        self.t0 = time.time()
        self.results = []
        self.functions = []
        self.problems = []  # undecided / checker errors
        self.violations = []
        self.trivial = []
        self.canaries = 0
        self.dead_paths = []
        self.live_outcomes = set()
        self.dead_outcomes = set()
        self.known_hits = []

    def hints_for(self, E, ob):
        """lemma instances requested by the contract's `use` entries whose scope matches the obligation"""

        def make(sk):
            st = E.st = State()
            st.vars = dict(ob.env["vars"])
            st.heap = ob.env["heap"].copy()
            st.nref = ob.env["nref"]
            st.labels = dict(ob.env["labels"])
            for c in sk:
                nm = str(c).split("!")[1]
                st.vars[nm] = V("real" if c.sort() == R else "int", c)
            if ob.idx:
                st.vars["_i"] = vint(ob.idx[-1])
            out = []
            for entry in E.c.use if ob.kind != "lemma" else []:
                scope, lname = entry[0], entry[1]
                binding = entry[2] if len(entry) > 2 else None
                if scope and scope not in ob.id and scope not in ob.where:
                    continue
                try:
                    if binding is None:
                        lem = E.c.lemmas[lname]
                        qs = []
                        env = {}
                        for vn, vt in lem["vars"].items():
                            q = z3.Const(vn, sort_of(parse_type(vt)))
                            qs.append(q)
                            env[vn] = V(parse_type(vt), q)
                        st.bound.extend(qs)
                        try:
                            body = bi.lemma_instance(E, lname, env)
                        finally:
                            del st.bound[-len(qs):]
                        out.append(z3.ForAll(qs, body))
                    else:
                        st.spec += 1
                        try:
                            b = {k: E.ev(parse_spec(v)) for k, v in binding.items()}
                        finally:
                            st.spec -= 1
                        out.append(bi.lemma_instance(E, lname, b))
                except (OutOfSubset, KeyError) as ex:
                    # a hint that does not bind in this state is skipped (hints are optional help, never needed for soundness)
                    if os.environ.get("PYVC_DEBUG"):
                        print("hint skipped", ob.id, ob.where, entry[:2], repr(ex)[:200])
                    continue
            return out

        return make

    def lemma_obligations(self, E):
        """each lemma is proved once from the revealed definitions of the opaque functions"""
        from .engine import Obligation

        obs = []
        for name, lem in E.c.lemmas.items():
            if lem.get("axiom"):
                continue
            st = E.st = State()
            st.vars = {}
            for vn, vt in lem["vars"].items():
                st.vars[vn] = E.symbolic(vn, parse_type(vt), inp=True)
            E.reveal = True
            st.spec += 1
            try:
                goal = E.truthy(E.ev(parse_spec(lem["stmt"])))
                hyps = []
                for other in lem.get("using", []):
                    ol = E.c.lemmas[other]
                    for bnd in lem.get("using_at", {}).get(other, []):
                        E.reveal = False
                        hyps.append(bi.lemma_instance(E, other, {k: E.ev(parse_spec(v)) for k, v in bnd.items()}))
                        E.reveal = True
            finally:
                st.spec -= 1
                E.reveal = False
            obs.append(Obligation(f"{E.c.prop}/{E.c.qual}/lemma#{name}", "lemma", hyps, goal, [], {"vars": {}, "heap": st.heap, "nref": st.nref, "labels": {}, "idx": []}, name))
        return obs

    def run(self):
        prop = self.prop
        cm = load_contracts(prop)
        have_facts = load_facts()
        repo = RepoIndex()
        contracts = [Contract(d) for d in cm.CONTRACTS]
        registry = {c.qual: c for c in contracts}
        global WORK
        WORK = []
        meta = {}
        only = os.environ.get("VERIF_ONLY")  # development aid: restrict to contracts whose qualified name contains this text (evidence goes to out/)
        for c in contracts:
            if c.assumed or (only and only not in c.qual):
                continue
            t1 = time.time()
            try:
                E = Engine(repo, c, registry)
                obs = E.explore()
                obs += self.lemma_obligations(E)
            except OutOfSubset as ex:
                self.problems.append({"function": c.qual, "kind": "out-of-subset", "detail": str(ex)})
                continue
            except KeyError as ex:
                self.problems.append({"function": c.qual, "kind": "contract-does-not-bind", "detail": "KeyError " + str(ex)})
                continue
            self.functions.append(
                {
                    "target": c.target,
                    "sha256_16": fn_hash(E.mod, E.fn),
                    "paths": E.paths,
                    "obligations": len(obs),
                    "trivially_true_sites": getattr(E, "trivial", 0),
                    "outcomes_reached": sorted(E.covered),
                    "gen_s": round(time.time() - t1, 2),
                    "float_mode": c.float,
                }
            )
            if not obs and not getattr(E, "trivial_ids", []):
                self.problems.append({"function": c.qual, "kind": "vacuity", "detail": "zero obligations generated"})
            for want in c.cover:
                if want not in E.covered:
                    self.problems.append({"function": c.qual, "kind": "vacuity", "detail": f"outcome {want} not reachable"})
            for ob in obs:
                WORK.append(("ob", self, E, ob))
            for oid, where in getattr(E, "trivial_ids", []):
                self.trivial.append({"id": oid, "where": where, "status": "discharged", "subgoals": 1, "backends": ["z3/simplifier"], "solver_s": 0.0})
            # vacuity canary: the final path condition of EVERY explored path must not be refutable (an invariant that
            # contradicts the frame, or a contradictory precondition, would make everything after it vacuously true)
            last = {}
            for ob in obs:
                if ob.kind != "lemma":
                    last[tuple(ob.env.get("trail", []))] = ob
            for ob in last.values():
                WORK.append(("canary", self, E, ob))
        # workers are forked AFTER generation: they inherit the z3 terms and build + solve their obligations in-process
        from .forkpool import run_forked

        res = run_forked(len(WORK), work_item, min(16, os.cpu_count() or 4), self.budget["ob_s"] + 45) if WORK else []
        # second pass: sub-goals the first pass (small budget slices) left open are solved one per worker with the full budget, so that the hard
        # tail of one obligation runs in parallel instead of one after the other
        first_n = len(WORK)
        reopened = []
        for idx_, ((kind, _r, E_, ob_), r_) in enumerate(zip(list(WORK), res)):
            if kind != "ob" or not isinstance(r_, dict) or "subs" not in r_:
                continue
            for sr in r_["subs"]:
                if sr.get("verdict") == "open":
                    WORK.append(("ob", self, E_, ob_, sr["k"]))
                    reopened.append((idx_, sr["k"]))
        if len(WORK) > first_n:
            # a tree that violates the property typically fails MANY obligations, and each false one uses its whole budget: once a handful of
            # sub-goals have been refuted in this pass the verdict of the run is settled (exit 1) and the remaining open ones are not pursued
            def enough(results_):
                return sum(1 for r_ in results_ if isinstance(r_, dict) and r_.get("subs") and r_["subs"][0].get("verdict") in ("sat", "sat-qf")) >= 6

            res2 = run_forked(len(WORK) - first_n, lambda j: work_item(first_n + j), min(16, os.cpu_count() or 4), self.budget["ob_s"] + 45, should_stop=enough)
            for (idx_, k_), r2 in zip(reopened, res2):
                tgt = res[idx_]["subs"]
                pos = next(p_ for p_, sr in enumerate(tgt) if sr.get("k") == k_)
                if r2 is None:
                    tgt[pos] = {"verdict": "unknown", "backend": "", "model": None, "secs": 0, "goal": tgt[pos].get("goal", ""), "k": k_,
                                "detail": [("second-pass", "not pursued: six sub-goals of this run were already refuted", 0)]}
                elif isinstance(r2, dict) and r2.get("subs"):
                    tgt[pos] = r2["subs"][0]
                else:
                    tgt[pos] = {"verdict": "unknown", "backend": "", "model": None, "secs": (r2 or {}).get("secs", 0) if isinstance(r2, dict) else 0,
                                "detail": [("second-pass", "killed" if isinstance(r2, dict) and r2.get("killed") else str(r2)[:200], 0)], "goal": tgt[pos].get("goal", ""), "k": k_}
            del WORK[first_n:]
        obligations = []
        for (kind, _, E, ob), r in zip(WORK, res):
            if kind == "canary":
                self.canaries += 1
                if r.get("verdict") == "vacuous":
                    self.problems.append({"function": E.c.qual, "kind": "vacuity", "detail": f"canary: the ASSUMPTIONS on path {ob.env.get('trail')} (up to {ob.id} {ob.where}) are contradictory without any branch condition"})
                elif r.get("verdict") == "dead":
                    self.dead_paths.append({"function": E.c.qual, "path": ob.env.get("trail"), "up_to": f"{ob.id} {ob.where}"})
                    if r.get("outcome"):
                        self.dead_outcomes.add((E.c.qual, r["outcome"]))
                elif r.get("verdict") == "sat" and r.get("outcome"):
                    self.live_outcomes.add((E.c.qual, r["outcome"]))
                elif "error" in r or r.get("killed"):
                    self.problems.append({"function": E.c.qual, "kind": "checker-error", "detail": "canary failed: " + str(r)[:300]})
                continue
            if r.get("killed"):
                self.problems.append({"function": ob.id, "where": ob.where, "kind": "unknown", "detail": f"solver killed after {r['secs']}s (hard budget)"})
                obligations.append({"id": ob.id, "where": ob.where, "status": "unknown", "subgoals": 0, "backends": [], "solver_s": r["secs"]})
                continue
            if r.get("error"):
                self.problems.append({"function": ob.id, "kind": "checker-error", "detail": r["error"][-600:]})
                continue
            subs = r["subs"]
            worst = "discharged"
            for sr in subs:
                if sr["verdict"] == "unsat":
                    continue
                if sr["verdict"] in ("sat", "sat-qf"):
                    worst = "refuted"
                elif worst == "discharged":
                    worst = "unknown"
            obligations.append(
                {
                    "id": ob.id,
                    "where": ob.where,
                    "status": worst,
                    "subgoals": len(subs),
                    "backends": sorted({sr["backend"] for sr in subs if sr["backend"]}),
                    "solver_s": round(sum(sr["secs"] for sr in subs), 3),
                    **({"second_backend": sorted({sr.get("second") or "not-run" for sr in subs})} if any(sr.get("second") for sr in subs) else {}),
                }
            )
            if worst == "refuted":
                bad = [sr for sr in subs if sr["verdict"] in ("sat", "sat-qf")][0]
                self.violations.append({"oid": ob.id, "result": bad, "ob": ob, "E": E, "template": r["template"], "goal": bad["goal"]})
            elif worst == "unknown":
                bad = [sr for sr in subs if sr["verdict"] != "unsat"][0]
                self.problems.append({"function": ob.id, "where": ob.where, "kind": "unknown", "detail": json.dumps(bad["detail"])[:300], "goal": bad["goal"]})
            if os.environ.get("PYVC_DEBUG"):
                for sr in subs:
                    if sr["secs"] > 3:
                        print("SLOW", ob.id, ob.where, sr["secs"], sr["detail"])
        self.obligations = obligations + self.trivial
        # an outcome a contract lists under `cover` must be reached by at least one path whose condition is satisfiable
        for c in contracts:
            for want in c.cover:
                if (c.qual, want) in self.dead_outcomes and (c.qual, want) not in self.live_outcomes:
                    self.problems.append({"function": c.qual, "kind": "vacuity", "detail": f"outcome {want} is only reached on paths whose condition is contradictory"})
        self.cm = cm
        self.have_facts = have_facts
        return self.report()

    # ------------------------------------------------------------ reporting
    def report(self):
        cm, prop = self.cm, self.prop
        outdir = os.path.join(VERIF, "out", prop)
        os.makedirs(outdir, exist_ok=True)
        for old in os.listdir(outdir):
            if old.endswith(".json") and old != "evidence-scratch.json":
                os.unlink(os.path.join(outdir, old))
        known = load_known_findings(prop)
        lines = []
        nviol = 0
        seen_oids = set()
        # violations on paths that carry a known-finding tag are reported as that finding; an UNTAGGED refutation of the same obligation (another
        # path, another input class) is a violation of its own -- so untagged ones are looked at first and de-duplicated separately
        ordered = sorted(self.violations, key=lambda v_: 0 if match_known(known, v_["ob"].env.get("tags", [])) is None else 1)
        for v in ordered:
            oid = v["oid"]
            is_known = match_known(known, v["ob"].env.get("tags", [])) is not None
            if (oid, is_known) in seen_oids:
                continue
            seen_oids.add((oid, is_known))
            inputs = fill(v["template"], v["result"]["model"] or {})
            safe = oid.replace("/", "_").replace("#", "-").replace("<", "").replace(">", "") + ("_known" if is_known else "")
            path = os.path.join(outdir, safe + ".json")
            rec = {
                "property": prop,
                "obligation": oid,
                "kind": v["ob"].kind,
                "where": v["ob"].where,
                "target": v["E"].c.target,
                "solver": v["result"]["detail"],
                "verdict": v["result"]["verdict"],
                "failed_subgoal": v["goal"],
                "path_trail(line-offset:choice)": v["ob"].env.get("trail"),
                "inputs": inputs,
                "repo": repo_root(),
            }
            with open(path, "w") as f:
                json.dump(rec, f, indent=1, default=str)
            rec["path_tags"] = v["ob"].env.get("tags", [])
            if match_known(known, rec["path_tags"]) is None:
                reproduced, desc = run_replay(prop, path)
            else:
                reproduced, desc = False, "path carries a known-finding tag"
            rec["replay"] = {"reproduced": reproduced, "detail": desc}
            with open(path, "w") as f:
                json.dump(rec, f, indent=1, default=str)
            k = match_known(known, v["ob"].env.get("tags", []))
            if k is not None:
                if not k["seen"]:
                    # re-confirm the recorded failing input against the real code before reporting it as known
                    rep2, desc2 = run_replay(prop, os.path.join(VERIF, k["replay"])) if k["replay"] else (False, "")
                    lines.append(f"KNOWN-FINDING: property={prop} {k['what']}" + ("" if rep2 else " [recorded input did not reproduce this run]"))
                k["seen"] = True
                self.known_hits.append({"obligation": oid, "tag": k["tag"]})
                continue
            if v["ob"].kind == "frame" and not reproduced:
                # a write the contract's frame does not allow, but no failing input on the real code: new LOCAL state (a cache, a counter) trips a
                # frame without breaking the property -- reported as undecided (exit 2), never as a violation
                self.problems.append({"function": oid, "where": v["ob"].where, "kind": "frame-undecided",
                                      "detail": f"frame obligation failed and the replay probes found no failing input ({desc[:160]}); see {path}"})
                continue
            nviol += 1
            if reproduced:
                lines.append(f"VIOLATION property={prop} replay={path}")
            else:
                lines.append(f"VIOLATION property={prop} replay={path} no-failing-input-found")
        known_obl = {h["obligation"] for h in self.known_hits}
        excluded = [o for o in self.obligations if o["status"] != "discharged" and o["id"] in known_obl]
        n_ob = len(self.obligations) - len(excluded)
        n_dis = sum(1 for o in self.obligations if o["status"] == "discharged")
        undecided = [p for p in self.problems]
        ev = {
            "property_id": prop,
            "tier": self.tier,
            "seed": self.seed,
            "level": "proof",
            "coverage": {
                "obligations": n_ob,
                "discharged": n_dis,
                "checker_cmd": f"./check {prop} --tier {self.tier}",
                "trusted_base": list(getattr(cm, "TRUSTED", []))
                + ["PyVC symbolic executor (pyvc/*.py)", "z3 5.1 / cvc5 1.0.3", "python ast module", "issubclass facts dumped from /venv" if self.have_facts else "builtin exception table only"],
                "functions_under_contract": self.functions,
                "per_obligation": self.obligations,
                "solver_seconds": round(sum(o["solver_s"] for o in self.obligations), 2),
                "backends": sorted({b for o in self.obligations for b in o["backends"]}),
                "second_backend_confirmation": {
                    "sub_goal_sets_confirmed_unsat_by_cvc5": sum(1 for o in self.obligations if o.get("second_backend") == ["unsat"]),
                    "cvc5_unknown_or_mixed": sum(1 for o in self.obligations if o.get("second_backend") and o.get("second_backend") != ["unsat"]),
                } if self.budget.get("confirm") else None,
                "samples": [{"id": o["id"], "status": o["status"], "backends": o["backends"]} for o in self.obligations[:6]],
                "vacuity_canaries_checked": self.canaries,
                "dead_paths": self.dead_paths[:40],  # explored paths whose branch conditions cannot occur (e.g. the failing side of an assert)
                "dropped_by_extraction": DROPPED,
                "not_decided": list(getattr(cm, "NOT_DECIDED", [])),
                "bounded": list(getattr(cm, "BOUNDED", [])),
                "undecided_now": undecided,
                "known_findings_hit": self.known_hits,
                "obligations_excluded_by_known_findings": [o["id"] + " " + o.get("where", "") for o in excluded],
                "explanation": getattr(cm, "EXPLANATION", ""),
            },
            "assumptions": list(getattr(cm, "ASSUMPTIONS", [])) + [f"float model: {f['float_mode']} for {f['target'].split('::')[1]}" for f in self.functions if f["float_mode"] != "exact"],
            "wall_s": round(time.time() - self.t0, 2),
            "violations": nviol,
        }
        self.evidence = ev
        self.lines = lines
        return ev


WORK = []


def work_item(i):
    kind, runner, E, ob = WORK[i][:4]
    try:
        if kind == "canary":
            # can `False` be proved from the path condition with the SAME machinery that discharges obligations (instances of quantified
            # hypotheses, well-formedness instances, theory axioms, then the quantified query)? If so everything on this path is vacuous.
            hints = runner.hints_for(E, ob)([])
            stages = smt.build_stages(smt.flatten_hyps(ob.pc), z3.BoolVal(False), [], ob.idx, hints, E.c.float)
            def refutable(stages_):
                for label, asserts in stages_:
                    r, _ = smt.guarded_check(asserts, 5_000_000, 15_000, None)
                    if r == "unsat":
                        return True
                return False

            if not refutable(stages):
                return {"verdict": "sat", "outcome": ob.env.get("outcome")}
            # contradictory: a DEAD path (the branch conditions taken cannot occur together with what is known -- e.g. the failing side of an
            # assert, a division by zero the precondition excludes) is what a proof looks like; VACUOUS is when the assumptions alone
            # (preconditions, axioms, invariants assumed at loop heads, callee postconditions, heap facts) are contradictory without any
            # branch condition
            bids = ob.env.get("branch_ids", set())
            assumed = [h for h in ob.pc if h.get_id() not in bids]
            stages2 = smt.build_stages(smt.flatten_hyps(assumed), z3.BoolVal(False), [], ob.idx, hints, E.c.float)
            return {"verdict": "vacuous" if refutable(stages2) else "dead", "outcome": ob.env.get("outcome")}
        tmpl, terms = cex_template(E, ob) if ob.kind != "lemma" else ({}, {})
        hint_fn = runner.hints_for(E, ob)
        subs = smt.split_goal(smt.flatten_hyps(ob.pc), ob.goal, [])
        out = []
        deadline = time.time() + runner.budget["ob_s"]
        only = WORK[i][4] if len(WORK[i]) > 4 else None  # second pass: exactly one (still open) sub-goal, with the full budget, in its own worker
        for k, (pc2, g, sk) in enumerate(subs):
            if only is not None and k != only:
                continue
            hints = hint_fn(sk)
            stages = smt.build_stages(pc2, g, sk, ob.idx, hints, E.c.float)
            tagged_known = match_known(load_known_findings(runner.prop), ob.env.get("tags", [])) is not None
            r = smt.solve_stages(stages, runner.budget["rlimit"], runner.budget["timeout_ms"], runner.budget["cvc5"], terms, deadline, confirm=runner.budget.get("confirm", False), fast=only is None,
                                 early_cand=tagged_known)
            r["goal"] = str(g)[:400].replace("\n", " ")
            r["k"] = k
            out.append(r)
            if r["verdict"] in ("sat", "sat-qf"):
                break  # one refuted sub-goal refutes the obligation
        return {"subs": out, "template": tmpl}
    except Exception:  # noqa
        return {"error": traceback.format_exc()}


# ---------------------------------------------------------------- replay and known findings
def run_replay(prop, path):
    script = os.path.join(VERIF, "replay", f"{prop}.py")
    if not os.path.exists(script):
        return False, "no replay adapter"
    env = dict(os.environ)
    env["PYTHONPATH"] = repo_root() + os.pathsep + VERIF + os.pathsep + os.path.join(VERIF, "replay")
    try:
        p = subprocess.run(["/venv/bin/python", script, path], capture_output=True, text=True, timeout=600, env=env, cwd=VERIF)
    except subprocess.TimeoutExpired:
        return False, "replay timed out"
    out = (p.stdout + p.stderr).strip()
    last = out.splitlines()[-1] if out else ""
    if p.returncode == 1 and "REPRODUCED" in out:
        return True, last
    return False, last[:300]


def load_known_findings(prop):
    """known_findings.txt lines:  finding: property=Cxx tag=<path-tag> replay=<file under /verif/known/> :: <what fails>
    A finding suppresses ONLY refuted obligations on paths that carry its tag (a delegate outcome / input class named in the contract);
    every other refutation of the same property is still a violation. `fixed:` lines suppress nothing."""
    path = os.path.join(VERIF, "known_findings.txt")
    out = []
    if not os.path.exists(path):
        return out
    for line in open(path):
        line = line.strip()
        if not line.startswith("finding:"):
            continue
        head, _, what = line[len("finding:"):].partition("::")
        d = dict(kv.split("=", 1) for kv in head.split() if "=" in kv)
        if d.get("property") == prop:
            out.append({"tag": d.get("tag", ""), "replay": d.get("replay", ""), "what": what.strip(), "seen": False})
    return out


def match_known(known, tags):
    for k in known:
        if k["tag"] and k["tag"] in tags:
            return k
    return None


def bounded_check(ev, prop, script, name, target, timeout=1200):
    """run a BOUNDED stand-in script (bounded/<script>, under /venv/bin/python on the tree under check): it writes
    {bound, cases, violations:[case..]} and supports `--replay <violation.json>`. Reported under coverage.bounded, never counted as proved."""
    outdir = os.path.join(VERIF, "out", prop)
    os.makedirs(outdir, exist_ok=True)
    stem = os.path.splitext(script)[0]
    res_path = os.path.join(outdir, f"bounded_{stem}.json")
    if os.path.exists(res_path):
        os.remove(res_path)
    env = dict(os.environ, PYTHONPATH=repo_root() + os.pathsep + VERIF, VERIF_TIER=str(ev.get("tier", "quick")))  # thorough: the scripts enlarge their bounds
    p = subprocess.run(["/venv/bin/python", os.path.join(VERIF, "bounded", script), res_path], capture_output=True, text=True, env=env, timeout=timeout)
    cov = ev["coverage"]
    if p.returncode not in (0, 1) or not os.path.exists(res_path):
        cov["undecided_now"].append({"function": name + " (bounded)", "kind": "checker-error", "detail": (p.stdout + p.stderr)[-400:]})
        return 3
    r = json.load(open(res_path))
    cov.setdefault("bounded", []).append({"name": name, "bound": r["bound"], "cases": r["cases"], "violations": len(r["violations"]), "label": "bounded, not proved"})
    if not r["violations"]:
        return 0
    path = os.path.join(outdir, f"bounded_violation_{stem}.json")
    rec = {"property": prop, "obligation": f"{prop}/{stem}/bounded", "target": target, "case": r["violations"][0], "verifier": "bounded scenarios on the real code (stand-in, not a proof)"}
    json.dump(rec, open(path, "w"), indent=1, default=str)
    rp = subprocess.run(["/venv/bin/python", os.path.join(VERIF, "bounded", script), "--replay", path], capture_output=True, text=True, env=env, timeout=timeout)
    rec["replay"] = {"reproduced": rp.returncode == 1, "detail": (rp.stdout.strip().splitlines() or [""])[-1][:600]}
    json.dump(rec, open(path, "w"), indent=1, default=str)
    print(f"VIOLATION property={prop} replay={path}" + ("" if rec["replay"]["reproduced"] else " no-failing-input-found"))
    ev["violations"] += 1
    return 1
