"""Discharge of obligations: goal-directed splitting, instantiation of quantified hypotheses, staged queries,
z3 (rlimit-bounded) first and cvc5 for what z3 leaves unknown. Queries travel to the worker pool as SMT-LIB text."""
import itertools
import os
import subprocess
import tempfile
import time

import z3

from .types import B, I, R

_SK = itertools.count()


# ---------------------------------------------------------------- formula utilities
def split_goal(pc, goal, sk):
    if z3.is_and(goal):
        out = []
        for g in goal.children():
            out += split_goal(pc, g, sk)
        return out
    if z3.is_implies(goal):
        return split_goal(pc + [goal.arg(0)], goal.arg(1), sk)
    if z3.is_quantifier(goal) and goal.is_forall():
        cs = [z3.Const(f"sk!{goal.var_name(k)}!{next(_SK)}", goal.var_sort(k)) for k in range(goal.num_vars())]
        body = z3.substitute_vars(goal.body(), *reversed(cs))
        return split_goal(pc, body, sk + cs)
    if z3.is_not(goal):
        inner = goal.arg(0)
        if z3.is_quantifier(inner) and inner.is_exists():
            cs = [z3.Const(f"sk!{inner.var_name(k)}!{next(_SK)}", inner.var_sort(k)) for k in range(inner.num_vars())]
            body = z3.substitute_vars(inner.body(), *reversed(cs))
            return split_goal(pc, z3.Not(body), sk + cs)
        if z3.is_or(inner):
            out = []
            for g in inner.children():
                out += split_goal(pc, z3.Not(g), sk)
            return out
    if z3.is_app(goal) and goal.decl().kind() == z3.Z3_OP_ITE and goal.sort() == B:
        c, a, b = goal.children()
        return split_goal(pc + [c], a, sk) + split_goal(pc + [z3.Not(c)], b, sk)
    return [(pc, goal, sk)]


def flatten_hyps(pc):
    """conjunction-flatten; skolemise top-level existentials (sound: fresh constants)"""
    out = []
    work = list(pc)
    while work:
        h = work.pop(0)
        if z3.is_and(h):
            work = list(h.children()) + work
        elif z3.is_quantifier(h) and h.is_exists():
            cs = [z3.Const(f"ex!{h.var_name(k)}!{next(_SK)}", h.var_sort(k)) for k in range(h.num_vars())]
            work.insert(0, z3.substitute_vars(h.body(), *reversed(cs)))
        elif z3.is_not(h) and z3.is_quantifier(h.arg(0)) and h.arg(0).is_forall():
            q = h.arg(0)
            cs = [z3.Const(f"ex!{q.var_name(k)}!{next(_SK)}", q.var_sort(k)) for k in range(q.num_vars())]
            work.insert(0, z3.Not(z3.substitute_vars(q.body(), *reversed(cs))))
        else:
            out.append(h)
    return out


_HQ, _NL = {}, {}  # per-process memo tables keyed by (ast id, ast hash): hypotheses share huge sub-DAGs (heap read chains)


def _key(x):
    return (x.get_id(), x.hash())


def _memo(e, table, local):
    """bottom-up evaluation of a boolean attribute of a term DAG with a process-wide memo table; local(x, child_values) -> bool"""
    k0 = _key(e)
    if k0 in table:
        return table[k0]
    stack = [(e, False)]
    while stack:
        x, done = stack.pop()
        k = _key(x)
        if k in table:
            continue
        kids = [x.body()] if z3.is_quantifier(x) else x.children()
        if not done:
            stack.append((x, True))
            for c in kids:
                if _key(c) not in table:
                    stack.append((c, False))
        else:
            table[k] = local(x, [table[_key(c)] for c in kids])
    return table[k0]


def has_quant(e, cache=None):
    return _memo(e, _HQ, lambda x, kids: z3.is_quantifier(x) or any(kids))


def _nl_local(x, kids):
    if any(kids):
        return True
    if z3.is_app(x) and x.decl().kind() in (z3.Z3_OP_MUL, z3.Z3_OP_DIV, z3.Z3_OP_IDIV, z3.Z3_OP_MOD, z3.Z3_OP_REM):
        return sum(0 if z3.is_int_value(c) or z3.is_rational_value(c) else 1 for c in x.children()) > 1
    return False


def nonlinear(e):
    return _memo(e, _NL, _nl_local)


def collect_terms(fs, pred):
    out, seen = [], set()
    stack = list(fs)
    while stack:
        x = stack.pop()
        i = x.get_id()
        if i in seen:
            continue
        seen.add(i)
        if z3.is_quantifier(x):
            continue  # terms under binders contain bound variables
        if pred(x):
            out.append(x)
        stack.extend(x.children())
    return out


_WIT = itertools.count()


def index_terms(fs, cap=14):
    """ground Int terms used as array indices (select/store) in quantifier-free parts"""
    out, ids = [], set()
    for x in collect_terms(fs, lambda t: z3.is_app(t) and t.decl().kind() in (z3.Z3_OP_SELECT, z3.Z3_OP_STORE)):
        t = x.arg(1)
        if t.sort() == I and t.get_id() not in ids and not z3.is_int_value(t):
            ids.add(t.get_id())
            out.append(t)
    out.sort(key=lambda t: len(t.sexpr()))
    return out[:cap]


def instances(hyps, terms, depth=3):
    """instantiate universal hypotheses (1 or 2 Int variables) at the given ground terms; one level of nesting"""
    out = []
    ids = set()

    def add(f):
        if f.get_id() not in ids:
            ids.add(f.get_id())
            out.append(f)

    def visit(h, d):
        if z3.is_and(h):
            for c in h.children():
                visit(c, d)
        elif z3.is_implies(h) and d < depth and has_quant(h.arg(1)):
            # guard -> (... forall ...): instantiate under the guard
            for inst in inner(h.arg(1), d):
                add(z3.Implies(h.arg(0), inst))
        elif z3.is_quantifier(h) and h.is_forall():
            for inst in inner(h, d):
                add(inst)

    def inner(h, d):
        res = []
        if z3.is_and(h):
            for c in h.children():
                res += inner(c, d)
            return res
        if z3.is_implies(h) and has_quant(h.arg(1)):
            return [z3.Implies(h.arg(0), x) for x in inner(h.arg(1), d)]
        if z3.is_quantifier(h) and h.is_forall():
            nv = h.num_vars()
            cands = [[t for t in terms if t.sort() == h.var_sort(k)] for k in range(nv)]
            if nv > 2 or any(not c for c in cands):
                return []
            for combo in itertools.product(*cands):
                inst = z3.substitute_vars(h.body(), *reversed(combo))
                res.append(inst)
                if d + 1 < depth and has_quant(inst):
                    res += inner2(inst, d + 1)
            return res
        return []

    def inner2(inst, d):
        res = []
        if z3.is_implies(inst) and has_quant(inst.arg(1)):
            res += [z3.Implies(inst.arg(0), x) for x in inner(inst.arg(1), d)]
        elif z3.is_and(inst):
            for c in inst.children():
                res += inner2(c, d)
        elif z3.is_quantifier(inst):
            res += inner(inst, d)
        return res

    for h in hyps:
        visit(h, 0)
    return out


def wf_instances(quant, ground):
    """pattern-directed instantiation of the heap well-formedness facts (forall r[,k]: 0 <= A[r][k] < bound): one instance per
    ground occurrence of A[t] / A[t][u] in the quantifier-free part"""
    out = []
    wfs = []
    for h in quant:
        if z3.is_quantifier(h) and h.is_forall() and h.var_name(0) == "r!wf":
            body = h.body()
            # body = And(A[r][k] >= 0, A[r][k] < bound): find the array constant A
            arrs = collect_terms_q(body, lambda t: z3.is_const(t) and isinstance(t.sort(), z3.ArraySortRef) and t.decl().kind() == z3.Z3_OP_UNINTERPRETED)
            if arrs:
                wfs.append((h, arrs[0]))
    if not wfs:
        return out
    sels = collect_terms(ground, lambda t: z3.is_app(t) and t.decl().kind() == z3.Z3_OP_SELECT)
    seen = set()
    # element indices that occur anywhere (reads through store/ite chains are not syntactically A[r][k])
    kterms, kids = [], set()
    for t in sels:
        u = t.arg(1)
        if u.sort() == I and u.get_id() not in kids and not isinstance(t.arg(0).sort().range(), z3.ArraySortRef):
            kids.add(u.get_id())
            kterms.append(u)
    kterms.sort(key=lambda t: len(t.sexpr()))
    kterms = kterms[:6]
    for h, arr in wfs:
        nv = h.num_vars()
        if nv == 2:
            rs, rids = [], set()
            for t in sels:
                if z3.eq(t.arg(0), arr) and t.arg(1).get_id() not in rids:
                    rids.add(t.arg(1).get_id())
                    rs.append(t.arg(1))
            for r in rs[:4]:
                for k in kterms:
                    if k.sort() != h.var_sort(1):
                        continue
                    inst = z3.substitute_vars(h.body(), k, r)
                    if inst.get_id() not in seen:
                        seen.add(inst.get_id())
                        out.append(inst)
        for t in sels:
            inst = None
            if nv == 1 and z3.eq(t.arg(0), arr):
                inst = z3.substitute_vars(h.body(), t.arg(1))
            elif nv == 2 and z3.is_app(t.arg(0)) and t.arg(0).decl().kind() == z3.Z3_OP_SELECT and z3.eq(t.arg(0).arg(0), arr):
                inst = z3.substitute_vars(h.body(), t.arg(1), t.arg(0).arg(1))
            if inst is not None and inst.get_id() not in seen:
                seen.add(inst.get_id())
                out.append(inst)
    return out


def collect_terms_q(f, pred):
    out, seen, stack = [], set(), [f]
    while stack:
        x = stack.pop()
        if x.get_id() in seen:
            continue
        seen.add(x.get_id())
        if z3.is_quantifier(x):
            stack.append(x.body())
            continue
        if pred(x):
            out.append(x)
        stack.extend(x.children())
    return out


def strip_q(fs):
    out = []
    for h in fs:
        if z3.is_and(h):
            out += strip_q(h.children())
        elif not has_quant(h):
            out.append(h)
    return out


# ---------------------------------------------------------------- theory axioms instantiated at the terms that occur
def theory_axioms(fs, float_mode):
    """fl / rnd (float model), pow2 / pow10: ground instances for every application found"""
    ax = []
    U53 = z3.RealVal(f"1/{2**53}")
    apps = collect_terms(fs, lambda t: z3.is_app(t) and t.decl().name() in ("fl", "rnd", "pow2", "pow10") and t.num_args() == 1)
    fls = [a for a in apps if a.decl().name() == "fl"]
    rnds = [a for a in apps if a.decl().name() == "rnd"]
    for a in fls:
        x = a.arg(0)
        ab = z3.If(x >= 0, x, -x)
        ax.append(z3.And(a <= x + U53 * ab, a >= x - U53 * ab))
        # exact on integers of magnitude <= 2^53 (they are representable)
        ax.append(z3.Implies(z3.And(z3.IsInt(x), ab <= 2**53), a == x))
    for a, b in itertools.combinations(fls, 2):
        x, y = a.arg(0), b.arg(0)
        ax.append(z3.Implies(x <= y, a <= b))
        ax.append(z3.Implies(y <= x, b <= a))
    for a in rnds:
        x = a.arg(0)
        r = z3.ToReal(a)
        ax.append(z3.And(r - z3.RealVal("1/2") <= x, x <= r + z3.RealVal("1/2")))
        ax.append(z3.Implies(z3.Or(x == r + z3.RealVal("1/2"), x == r - z3.RealVal("1/2")), a % 2 == 0))
    for a, b in itertools.combinations(rnds, 2):
        x, y = a.arg(0), b.arg(0)
        ax.append(z3.Implies(x <= y, a <= b))
        ax.append(z3.Implies(y <= x, b <= a))
    for a in apps:
        n = a.decl().name()
        if n == "pow2":
            k = a.arg(0)
            ax.append(z3.Implies(k >= 0, a >= 1))
            ks = z3.simplify(k)
            if z3.is_int_value(ks) and 0 <= ks.as_long() <= 64:
                ax.append(a == 2 ** ks.as_long())
        if n == "pow10":
            ks = z3.simplify(a.arg(0))
            if z3.is_int_value(ks) and -12 <= ks.as_long() <= 12:
                v = ks.as_long()
                ax.append(a == (z3.RealVal(10**v) if v >= 0 else z3.RealVal(f"1/{10**-v}")))
            ax.append(a > 0)
    p2 = [a for a in apps if a.decl().name() == "pow2"]
    for a, b in itertools.combinations(p2, 2):
        x, y = a.arg(0), b.arg(0)
        ax.append(z3.Implies(z3.And(x >= 0, y == x + 1), b == 2 * a))
        ax.append(z3.Implies(z3.And(y >= 0, x == y + 1), a == 2 * b))
        ax.append(z3.Implies(z3.And(0 <= x, x <= y), a <= b))
        ax.append(z3.Implies(z3.And(0 <= y, y <= x), b <= a))
    return ax


# ---------------------------------------------------------------- staged queries of one obligation (built and solved in a forked worker)
def to_smt2(assertions, cex=None):
    s = z3.Solver()
    for a in assertions:
        s.add(a)
    if cex:
        for name, term in cex.items():
            s.add(z3.Const(name, term.sort()) == term)
    return s.to_smt2()


def build_stages(pc2, g, sk, idx, hints, float_mode):
    """assertion lists per stage for one sub-goal (goal negated). Dropping hypotheses is sound for proving:
    qf-lin = quantifier-free linear part; qf = quantifier-free incl. instances of quantified hypotheses; full = everything."""
    pc2 = flatten_hyps(pc2)
    qf = strip_q(pc2)
    quant = [h for h in pc2 if has_quant(h)]
    terms = list(sk) + list(idx)
    seen = {t.get_id() for t in terms}
    for t in index_terms([g], cap=4):
        if t.get_id() not in seen:
            seen.add(t.get_id())
            terms.append(t)
    if quant:
        # constant indices the goal reads at (string-literal dictionary keys are interned integers): instances of key-quantified hypotheses
        consts, cids = [], set()
        for x in collect_terms([g], lambda t: z3.is_app(t) and t.decl().kind() == z3.Z3_OP_SELECT):
            t = x.arg(1)
            if z3.is_int_value(t) and t.get_id() not in cids and t.get_id() not in seen:
                cids.add(t.get_id())
                consts.append(t)
        terms += consts[:3]
    inst = instances(quant, terms) if quant else []
    # an instance whose PREMISE is still universally quantified, (forall j. P(j)) -> R, is the hypothesis (exists j. not P(j)) or R:
    # name the witness (skolem constant) and instantiate the other universal hypotheses at it (e.g. an invariant "a key no element so far
    # defines is absent" against a postcondition premise "no element defines the key")
    sk_new, inst2 = [], []
    for f in inst:
        if z3.is_implies(f) and z3.is_quantifier(f.arg(0)) and f.arg(0).is_forall() and all(f.arg(0).var_sort(k_) == I for k_ in range(f.arg(0).num_vars())) and len(sk_new) < 6:
            q = f.arg(0)
            cs = [z3.Const(f"sk!w{next(_WIT)}", I) for _ in range(q.num_vars())]
            inst2.append(z3.Or(z3.Not(z3.substitute_vars(q.body(), *reversed(cs))), f.arg(1)))
            sk_new += cs
        else:
            inst2.append(f)
    if sk_new:
        inst = inst2 + instances(quant, sk_new)
    inst_qf = strip_q(inst)
    inst_qf += wf_instances(quant, qf + inst_qf + [g])
    neg = z3.Not(g)
    base = qf + inst_qf + list(hints)
    th = theory_axioms(base + [neg], float_mode)
    stages = []
    lin = [h for h in base if not nonlinear(h)]
    if len(lin) != len(base) or th:
        stages.append(("qf-lin", lin + [neg]))
    stages.append(("qf", base + th + [neg]))
    if quant or has_quant(g):
        th2 = theory_axioms(pc2 + inst + list(hints) + [neg], float_mode)
        stages.append(("full", pc2 + inst + list(hints) + th2 + [neg]))
    return stages


def solve_stages(stages, rlimit, timeout_ms, use_cvc5, cex_terms, deadline=None, confirm=False, fast=False, early_cand=False):
    """rounds of growing budget; first unsat wins. Only complete stages (qf when there is no full stage, full) give a
    definite counter-model; a qf model with an undecided full stage is a candidate ("sat-qf")."""
    t0 = time.time()
    verdict, backend, model, detail = "unknown", "", None, []
    cand = None
    order = {"qf-lin": 0, "full": 1, "qf": 2}
    stages = sorted(stages, key=lambda s: order[s[0]])
    has_full = any(l == "full" for l, _ in stages)
    done = set()

    def z3_round(frac):
        nonlocal verdict, backend, model, cand
        for label, asserts in stages:
            if label in done:
                continue
            tmo = int(timeout_ms * frac) + 1000
            if deadline is not None:
                left = int((deadline - time.time()) * 1000)
                if left < 500:
                    detail.append((label, "skipped:obligation-budget", 0))
                    continue
                tmo = min(tmo, left)
            t1 = time.time()
            r, mm = guarded_check(asserts, int(rlimit * frac), tmo, cex_terms if label in ("qf", "full") else None)
            detail.append((label, str(r), round(time.time() - t1, 3)))
            if r == "unsat":
                verdict, backend = "unsat", f"z3/{label}"
                return
            if r == "sat":
                done.add(label)
                if label in ("qf", "full"):
                    if label == "full" or not has_full:
                        verdict, backend, model = "sat", f"z3/{label}", mm
                        return
                    cand = mm

    def cvc5_round(tlimit):
        nonlocal verdict, backend, model, cand
        for label, asserts in [st for st in stages if st[0] in ("full", "qf") and ("cvc5/" + st[0]) not in done]:
            if deadline is not None:
                left = int(deadline - time.time())
                if left < 2:
                    continue
                tlimit = min(tlimit, left)
            r, secs, mm = run_cvc5(to_smt2(asserts, cex_terms), tlimit, list((cex_terms or {}).keys()))
            detail.append(("cvc5/" + label, r, secs))
            if r == "unsat":
                verdict, backend = "unsat", f"cvc5/{label}"
                return
            if r == "sat":
                done.add("cvc5/" + label)
                if label == "full" or not has_full:
                    verdict, backend, model = "sat", f"cvc5/{label}", mm
                    return
                if cand is None:
                    cand = mm

    z3_round(0.05)
    if verdict == "unknown" and not (early_cand and cand is not None):
        z3_round(0.3)  # many array/quantifier obligations need a little more than the first slice; cheaper than a cvc5 start
    if early_cand and verdict == "unknown" and cand is not None:
        # the path carries the tag of a RECORDED known finding (whose failing input is re-confirmed natively before it is reported as known):
        # the candidate model is enough, the full budget is not spent on re-refuting a listed defect on every run
        return {"verdict": "sat-qf", "backend": "z3/qf", "model": cand, "detail": detail, "secs": round(time.time() - t0, 3), "second": None}
    if fast and verdict == "unknown":
        # first pass over all sub-goals of an obligation: whatever is still open is rescheduled on its own with the full budget
        return {"verdict": "open", "backend": "", "model": None, "detail": detail, "secs": round(time.time() - t0, 3), "second": None}
    if verdict == "unknown" and use_cvc5:
        cvc5_round(8)
    if verdict == "unknown":
        z3_round(1.0)
    if verdict == "unknown" and use_cvc5:
        cvc5_round(min(90, max(10, timeout_ms // 2000)))
    cut = any(lbl in ("full", "cvc5/full") and (str(res_).startswith("unknown:killed") or str(res_).startswith("skipped")) for lbl, res_, _ in detail)
    if verdict == "unknown" and cand is not None and not cut:
        # a candidate model of the quantifier-free weakening while the complete query ran out of its (deterministic) rlimit. If the complete
        # query was cut by the WALL CLOCK instead (overloaded machine), the obligation stays undecided: never a violation because of load.
        verdict, backend, model = "sat-qf", "z3/qf", cand
    second = None
    if confirm and verdict == "unsat" and backend.startswith("z3/"):
        # thorough tier: the stage z3 refuted is handed to the second back end as well (agreement is recorded; a `sat` answer of cvc5 on the
        # same assertions is a disagreement between the back ends and makes the obligation undecided)
        label = backend.split("/", 1)[1]
        asserts = dict(stages)[label]
        r2, secs2, _ = run_cvc5(to_smt2(asserts, None), 10, [])
        second = r2 if r2 in ("unsat", "sat") else "unknown"
        detail.append(("cvc5-confirm/" + label, r2, secs2))
        if r2 == "sat":
            verdict, backend = "unknown", "z3-vs-cvc5-disagree"
    return {"verdict": verdict, "backend": backend, "model": model, "detail": detail, "secs": round(time.time() - t0, 3), "second": second}


def guarded_check(asserts, rlimit, tmo_ms, cex_terms):
    """one z3 check in a forked child with a hard kill (z3's timeout is not always honoured in nonlinear arithmetic)"""
    import pickle
    import select
    import signal

    r, w = os.pipe()
    pid = os.fork()
    if pid == 0:
        os.close(r)
        res = ("unknown", {})
        try:
            s = z3.Solver()
            s.set("rlimit", rlimit)
            s.set("timeout", tmo_ms)
            s.add(*asserts)
            c = s.check()
            mm = {}
            if c == z3.sat and cex_terms:
                m = s.model()
                for name, term in cex_terms.items():
                    try:
                        mm[name] = str(m.eval(term, model_completion=True))
                    except z3.Z3Exception:
                        pass
            res = (str(c), mm)
        except BaseException as ex:  # noqa
            res = ("error:" + repr(ex)[:80], {})
        try:
            with os.fdopen(w, "wb") as f:
                f.write(pickle.dumps(res))
        finally:
            os._exit(0)
    os.close(w)
    buf = bytearray()
    end = time.time() + tmo_ms / 1000.0 + 3.0
    killed = False
    while True:
        left = end - time.time()
        if left <= 0:
            try:
                os.kill(pid, signal.SIGKILL)
            except ProcessLookupError:
                pass
            killed = True
            break
        ready, _, _ = select.select([r], [], [], min(left, 0.5))
        if ready:
            chunk = os.read(r, 1 << 16)
            if not chunk:
                break
            buf += chunk
    os.close(r)
    os.waitpid(pid, 0)
    if killed or not buf:
        return "unknown:killed" if killed else "unknown:died", {}
    try:
        return pickle.loads(bytes(buf))
    except Exception:  # noqa
        return "unknown:garbled", {}


def run_cvc5(text, tlimit_s, cex_names=()):
    t0 = time.time()
    body = "\n".join(l for l in text.splitlines() if not l.startswith("(set-info"))
    if cex_names:
        body += "\n(get-value (" + " ".join(f"|{n}|" for n in cex_names) + "))\n"
    with tempfile.NamedTemporaryFile("w", suffix=".smt2", delete=False) as f:
        f.write("(set-option :produce-models true)\n(set-logic ALL)\n" + body)
        path = f.name
    mm = {}
    try:
        p = subprocess.run(["/usr/bin/cvc5", "--lang=smt2", f"--tlimit={tlimit_s * 1000}", path], capture_output=True, text=True, timeout=tlimit_s + 10)
        out = p.stdout.strip().splitlines()
        r = out[0] if out else "unknown"
        if r not in ("sat", "unsat", "unknown"):
            r = "error:" + (p.stdout + p.stderr)[:80].replace("\n", " ")
        if r == "sat" and len(out) > 1:
            mm = parse_get_value(" ".join(out[1:]))
    except subprocess.TimeoutExpired:
        r = "timeout"
    finally:
        os.unlink(path)
    return r, round(time.time() - t0, 3), mm


def parse_get_value(text):
    """((|cex!0| 5) (|cex!1| (- 3)) (|cex!2| (/ 1 3)) (|cex!3| true)) -> {name: value-string}"""
    toks = text.replace("(", " ( ").replace(")", " ) ").split()
    pos = [0]

    def sexp():
        t = toks[pos[0]]
        pos[0] += 1
        if t == "(":
            out = []
            while toks[pos[0]] != ")":
                out.append(sexp())
            pos[0] += 1
            return out
        return t

    def num(x):
        from fractions import Fraction

        if isinstance(x, str):
            if x in ("true", "false"):
                return x == "true"
            return Fraction(x)
        if x[0] == "-":
            return -num(x[1])
        if x[0] == "/":
            return num(x[1]) / num(x[2])
        raise ValueError(str(x))

    out = {}
    try:
        for name, val in sexp():
            try:
                v = num(val)
            except Exception:  # noqa
                continue
            if isinstance(v, bool):
                out[name.strip("|")] = "True" if v else "False"
            elif v.denominator == 1:
                out[name.strip("|")] = str(v.numerator)
            else:
                out[name.strip("|")] = f"{v.numerator}/{v.denominator}"
    except Exception:  # noqa
        pass
    return out
