"""Type descriptors, symbolic values and the layered field-array heap of PyVC.

Type descriptors (hashable):
  'int' 'real' 'bool' 'str' 'any' 'none' 'fn'
  ('list', T) ('dict', K, V) ('set', K) ('obj', ClassName) ('tuple', T1, ..) ('rec', ((key, T), ..)) ('opt', T)
Sorts: real -> Real, bool -> Bool, everything else -> Int (mathematical ints, heap references, string/any atoms).
None is the reference/atom 0 for every Int-sorted non-int type; int/real/bool carry an explicit `none` flag.
"""
import itertools
import re

import z3

I, R, B = z3.IntSort(), z3.RealSort(), z3.BoolSort()
_FRESH = itertools.count()


def fresh(name, sort=I):
    return z3.Const(f"{name}!{next(_FRESH)}", sort)


def reset_fresh():
    global _FRESH
    _FRESH = itertools.count()


# ---------------------------------------------------------------- type descriptor parsing
_TOK = re.compile(r"\s*([A-Za-z_][A-Za-z_0-9.|\-]*|[\[\]{}:,?])")


def parse_type(text):
    """'list[rec{host:str,cores:int}]' -> ('list', ('rec', (('host','str'),('cores','int'))))"""
    if not isinstance(text, str):
        return text
    toks = _TOK.findall(text)
    pos = [0]

    def peek():
        return toks[pos[0]] if pos[0] < len(toks) else None

    def eat(t=None):
        x = toks[pos[0]]
        assert t is None or x == t, f"type syntax: expected {t} got {x} in {text}"
        pos[0] += 1
        return x

    def ty():
        name = eat()
        if name in ("int", "real", "bool", "str", "any", "none", "fn"):
            return name
        if name == "float":
            return "real"
        if name in ("list", "set", "opt"):
            eat("[")
            t = ty()
            eat("]")
            return (name, t)
        if name == "dict":
            eat("[")
            k = ty()
            eat(",")
            v = ty()
            eat("]")
            return ("dict", k, v)
        if name == "tuple":
            eat("[")
            ts = [ty()]
            while peek() == ",":
                eat()
                ts.append(ty())
            eat("]")
            return ("tuple",) + tuple(ts)
        if name == "ufn":  # ufn[real,real]: uninterpreted function value (last type is the result)
            eat("[")
            ts = [ty()]
            while peek() == ",":
                eat()
                ts.append(ty())
            eat("]")
            return ("ufn", tuple(ts[:-1]), ts[-1])
        if name == "obj":
            eat("[")
            c = eat()
            eat("]")
            return ("obj", c)
        if name == "rec":
            eat("{")
            fs = []
            while peek() != "}":
                k = eat()
                if k == "?":
                    k = "?" + eat()
                elif peek() == "?":
                    eat()
                    k = "?" + k
                eat(":")
                fs.append((k, ty()))
                if peek() == ",":
                    eat()
            eat("}")
            return ("rec", tuple(fs))
        raise ValueError(f"unknown type {name} in {text}")

    r = ty()
    assert pos[0] == len(toks), f"trailing tokens in type {text}"
    return r


def sort_of(ty):
    if ty == "real":
        return R
    if ty == "bool":
        return B
    return I


def strip_opt(ty):
    return ty[1] if isinstance(ty, tuple) and ty[0] == "opt" else ty


def is_opt(ty):
    return isinstance(ty, tuple) and ty[0] == "opt"


def is_ref(ty):
    ty = strip_opt(ty)
    return isinstance(ty, tuple) and ty[0] in ("list", "dict", "set", "obj", "rec", "tuple")


def is_intlike_nullable(ty):
    """Int-sorted and None encoded as 0"""
    ty = strip_opt(ty)
    return ty in ("str", "any") or is_ref(ty)


def rec_fields(ty):
    assert ty[0] == "rec"
    return {k.lstrip("?"): t for k, t in ty[1]}


def rec_optional(ty):
    return {k[1:] for k, _ in ty[1] if k.startswith("?")}


# ---------------------------------------------------------------- interned atoms (strings, class ids, enum members)
_ATOMS = {"": 1}
_ATOM_NAMES = {1: ""}


def atom_id(s):
    if s not in _ATOMS:
        _ATOMS[s] = len(_ATOMS) + 1
        _ATOM_NAMES[_ATOMS[s]] = s
    return _ATOMS[s]


def atom(s):
    return z3.IntVal(atom_id(s))


def atom_name(i):
    return _ATOM_NAMES.get(i)


ATOM_LIMIT = 100000  # symbolic strings/any-values are assumed to be >= 1; literals occupy small ids


# ---------------------------------------------------------------- values
class V:
    __slots__ = ("ty", "z", "none", "items", "py")

    def __init__(self, ty, z=None, none=None, items=None, py=None):
        self.ty = ty  # descriptor WITHOUT the opt wrapper
        self.z = z
        self.none = none  # z3 Bool for int/real/bool that may be None; else None
        self.items = items  # tuple: list of V ; fn: closure tuple
        self.py = py  # python-level constant when statically known (str literals, ints) -- optimisation/dispatch aid

    def __repr__(self):
        return f"V({self.ty},{self.z if self.items is None else self.items})"


NONE = V("none")


def vint(z):
    return V("int", z3.IntVal(z) if isinstance(z, int) else z, py=z if isinstance(z, int) else None)


def vreal(z):
    return V("real", z)


def vbool(z):
    if isinstance(z, bool):
        return V("bool", z3.BoolVal(z), py=z)
    return V("bool", z)


def vstr(s):
    return V("str", atom(s), py=s)


def vtuple(items):
    return V(("tuple",) + tuple(i.ty for i in items), None, items=list(items))


def is_none_z(v):
    """z3 Bool: the value is None"""
    if v.ty == "none":
        return z3.BoolVal(True)
    if v.ty in ("int", "real", "bool"):
        return v.none if v.none is not None else z3.BoolVal(False)
    if v.ty == "fn" or v.items is not None:
        return z3.BoolVal(False)
    return v.z == 0


# ---------------------------------------------------------------- heap
class Lay:
    """One layer of a heap array Ref -> T; read-over-write and read-over-havoc are resolved syntactically."""

    __slots__ = ("kind", "arr", "below", "ref", "val", "nentry", "mods", "new")

    def __init__(self, kind, **kw):
        self.arr = self.below = self.ref = self.val = self.nentry = self.mods = self.new = None
        self.kind = kind
        for k, v in kw.items():
            setattr(self, k, v)

    def read(self, t):
        # iterative to keep Python recursion shallow
        stack = []
        lay = self
        while lay.kind != "base":
            stack.append(lay)
            lay = lay.below
        val = lay.arr[t]
        for lay in reversed(stack):
            if lay.kind == "store":
                if z3.eq(t, lay.ref):
                    val = lay.val
                else:
                    val = z3.If(t == lay.ref, lay.val, val)
            else:  # havoc: objects older than nentry and not in mods keep their value
                keep = z3.And(t < lay.nentry, *[t != m for m in lay.mods]) if lay.mods else t < lay.nentry
                val = z3.If(keep, val, lay.new[t])
        return val

    def guards(self, t):
        """[(cond, nref_bound)]: if cond holds the value read at t was already stored when the allocation counter was nref_bound
        (so a reference read from it is < nref_bound). One entry per havoc layer plus one for the base (function entry)."""
        out, conds = [], []
        lay = self
        while lay.kind != "base":
            if lay.kind == "store":
                if z3.eq(t, lay.ref):
                    return out
                conds.append(t != lay.ref)
            else:
                conds.append(z3.And(t < lay.nentry, *[t != m for m in lay.mods]) if lay.mods else t < lay.nentry)
                out.append((z3.And(*conds) if len(conds) > 1 else conds[0], lay.nentry))
            lay = lay.below
        out.append((z3.And(*conds) if len(conds) > 1 else (conds[0] if conds else z3.BoolVal(True)), None))
        return out


class Heap:
    """name -> layered array. Arrays whose name ends in '.p' hold references; for each of their base / havoc arrays the
    well-formedness fact 'every stored reference was allocated at that time' is queued in `pending` (drained into the pc)."""

    def __init__(self, nref0=None):
        self.m = {}
        self.sorts = {}
        self.epochs = []  # (eid, nentry, mods, nref_after)
        self.pending = []
        self.nref0 = nref0
        self.wf_done = set()

    def copy(self):
        h = Heap.__new__(Heap)
        h.m, h.sorts, h.epochs = dict(self.m), self.sorts, list(self.epochs)
        h.pending, h.nref0, h.wf_done = self.pending, self.nref0, self.wf_done
        return h

    _eid = itertools.count()

    def wf(self, name, arr, sort, bound):
        if not name.endswith(".p") or bound is None or arr.get_id() in self.wf_done:
            return
        self.wf_done.add(arr.get_id())
        r = z3.Int("r!wf")
        if sort == I:
            self.pending.append(z3.ForAll([r], z3.And(arr[r] >= 0, arr[r] < bound)))
        elif isinstance(sort, z3.ArraySortRef) and sort.range() == I:
            k = z3.Const("k!wf", sort.domain())
            self.pending.append(z3.ForAll([r, k], z3.And(arr[r][k] >= 0, arr[r][k] < bound)))

    def get(self, name, sort):
        if name not in self.m:
            self.sorts[name] = sort
            base = z3.Array("H." + name, I, sort)
            self.wf(name, base, sort, self.nref0)
            lay = Lay("base", arr=base)
            for eid, nentry, mods, nref_after, only in self.epochs:
                new = z3.Array(f"H.{name}@{eid}", I, sort)
                self.wf(name, new, sort, nref_after)
                lay = Lay("havoc", below=lay, nentry=nentry, mods=self.eff_mods(name, mods, only), new=new)
            self.m[name] = lay
        return self.m[name]

    @staticmethod
    def eff_mods(name, mods, only):
        """field-granular frames: for a field array f.<field>.*, an object whose `only` list does not name the field is not modified"""
        if not only or not name.startswith("f."):
            return mods
        field = name.split(".")[1]
        drop = [m for m, allowed in only if field not in allowed]
        return [m for m in mods if not any(z3.eq(m, d) for d in drop)]

    def store(self, name, sort, ref, val):
        self.m[name] = Lay("store", below=self.get(name, sort), ref=ref, val=val)

    def havoc(self, nentry, mods, nref_after=None, only=None):
        eid = next(Heap._eid)
        self.epochs.append((eid, nentry, mods, nref_after, only or []))
        for name in list(self.m):
            new = z3.Array(f"H.{name}@{eid}", I, self.sorts[name])
            self.wf(name, new, self.sorts[name], nref_after)
            self.m[name] = Lay("havoc", below=self.m[name], nentry=nentry, mods=self.eff_mods(name, mods, only or []), new=new)
        return eid


def arr_sort(elem_sort, key_sort=I):
    return z3.ArraySort(key_sort, elem_sort)


def sort_tag(sort):
    return {"Int": "i", "Real": "r", "Bool": "b"}[str(sort)]


def stag(ty):
    """storage tag of a type: r(eal) b(ool) p(ointer: heap reference) i(nt or atom)"""
    if ty == "real" or strip_opt(ty) == "real":
        return "r"
    if strip_opt(ty) == "bool":
        return "b"
    if is_ref(ty):
        return "p"
    return "i"
