"""Replay for C01: real Driver / Worker objects built with __new__, recording actor stubs, scripted allocation columns; probes of the
barrier, the completed-by broadcast and the worker's progress obligation (every drive() ends with a message sent or a wake-up armed)."""
import logging
import threading
import types

from common import done, load, probe_exception

logging.disable(logging.CRITICAL)


class Allocs:
    """columns: list of lists; an item 'JP' marks a join-point column"""

    def __init__(self, cols):
        self.cols = cols

    def is_joinpoint(self, i):
        return all(x == "JP" for x in self.cols[i])

    def tasks(self, i, remove_empty=True):
        return list(self.cols[i])


def mk_worker(cols, next_index, complete=False, sampler=None, future=None):
    from esrally.driver import driver

    w = driver.Worker.__new__(driver.Worker)
    w.logger = logging.getLogger("probe")
    w.sent, w.wakeups, w.submitted = [], [], []
    w.send = lambda t, m: w.sent.append((t, m))
    w.wakeupAfter = lambda *a, **k: w.wakeups.append(a)
    w.driver_actor, w.worker_id, w.config, w.track, w.client_contexts, w.on_error = "driver", 0, object(), None, None, None
    w.client_allocations = Allocs(cols)
    w.current_task_index, w.next_task_index = next_index - 1, next_index
    w.cancel, w.complete = threading.Event(), threading.Event()
    if complete:
        w.complete.set()
    w.executor_future, w.sampler, w.start_driving, w.wakeup_interval, w.sample_queue_size = future, sampler, False, 1, 100
    w.pool = types.SimpleNamespace(submit=lambda ex: (w.submitted.append(ex) or types.SimpleNamespace(done=lambda: False, result=lambda: None, running=lambda: True)))
    return w


def probe_worker_progress():
    from esrally.driver import driver

    real = driver.AsyncIoAdapter
    driver.AsyncIoAdapter = lambda *a, **k: ("executor", a[2])
    try:
        for complete in (False, True):
            for cols in ([["t0"], ["t1"], ["JP"]], [["t0"], [], ["t1"], ["JP"]], [["t0"], ["JP"]]):
                w = mk_worker(cols, 1, complete=complete)
                w.drive()
                jpr = [m for t, m in w.sent if isinstance(m, driver.JoinPointReached)]
                if not jpr and not (w.submitted and w.wakeups):
                    return (f"worker at column 0 of {cols} with CompleteCurrentTask {'set' if complete else 'not set'}: drive() returned having sent {w.sent}, armed {len(w.wakeups)} wake-ups and "
                            f"submitted {len(w.submitted)} executors -- the worker can never advance again (the race hangs)")
                if jpr and (w.submitted or len(jpr) != 1):
                    return f"drive() at a join point: {len(jpr)} JoinPointReached, {len(w.submitted)} executors"
    finally:
        driver.AsyncIoAdapter = real
    return None


def probe_sampler_handover():
    from esrally.driver import driver

    real = driver.AsyncIoAdapter
    driver.AsyncIoAdapter = lambda *a, **k: ("executor", a[2])
    try:
        s = driver.Sampler(start_timestamp=0)
        s.add("t0", 0, "normal", None, 0, 1.0, 0.1, 0.1, 0.1, None, 1, "ops", 1, 1.0)  # a sample stored after the wake-up's drain, before done()
        w = mk_worker([["t0"], ["t1"], ["JP"]], 1, sampler=s)
        w.drive()
        shipped = sum(len(m.samples) for t, m in w.sent if isinstance(m, driver.UpdateSamples))
        left = 0 if w.sampler is s else s.q.qsize()
        if shipped + (s.q.qsize() if w.sampler is s else 0) != 1:
            return f"a sample stored between the wake-up's drain and the done() check is lost at a task-to-task transition: shipped {shipped}, the old sampler (replaced) still holds {left}"
    except TypeError as ex:
        return None if "add()" in str(ex) else f"probe error {ex}"
    finally:
        driver.AsyncIoAdapter = real
    return None


def mk_driver(n_workers, steps=3):
    from esrally.driver import driver

    d = driver.Driver.__new__(driver.Driver)
    d.logger = logging.getLogger("probe")
    calls = []
    d.driver_actor = types.SimpleNamespace(
        drive_at=lambda w, ts: calls.append(("drive_at", w)), complete_current_task=lambda w: calls.append(("complete", w)),
        on_task_finished=lambda m, wp: calls.append(("task_finished",)), on_benchmark_complete=lambda m: calls.append(("benchmark_complete",)))
    d.workers = [f"w{k}" for k in range(n_workers)]
    d.currently_completed, d.workers_completed_current_step, d.current_step, d.number_of_steps = 0, {}, 0, steps
    d.complete_current_task_sent, d.most_recent_sample_per_client, d.raw_samples, d.quiet = False, {}, [], True
    d.metrics_store = types.SimpleNamespace(to_externalizable=lambda clear=False: "m", close=lambda: None)
    d.telemetry = types.SimpleNamespace(on_benchmark_stop=lambda: None)
    d.generated_api_key_ids, d.sample_post_processor = None, (lambda s: None)
    d.config = types.SimpleNamespace(opts=lambda *a, **k: True)
    d.calls = calls
    return d


def probe_barrier():
    from esrally.driver import driver

    for n in (1, 2, 3):
        d = mk_driver(n, steps=2)
        jp = [driver.ClientAllocation(0, driver.JoinPoint(1))]
        for step in range(2):
            for k in range(n):
                del d.calls[:]
                d.joinpoint_reached(k, 1.0, jp)
                drives = [c for c in d.calls if c[0] == "drive_at"]
                last = k == n - 1
                if not last and (drives or any(c[0] in ("task_finished", "benchmark_complete") for c in d.calls)):
                    return f"{n} workers, step {step}: after {k + 1} JoinPointReached the driver already issued {d.calls}"
                if last and step == 0 and [c[1] for c in drives] != d.workers:
                    return f"{n} workers: after the last JoinPointReached of step {step} Drive went to {[c[1] for c in drives]}"
                if last and step == 1 and (drives or [c[0] for c in d.calls].count("benchmark_complete") != 1):
                    return f"{n} workers: end of the race produced {d.calls}"
    return None


def probe_completed_by():
    from esrally.driver import driver

    # 2 workers, 4 clients (clients 0,1 on worker 0; 2,3 on worker 1); the completing task runs on client 2
    for completing_client, first_arrival, expect in ((2, 0, False), (2, 1, True), (0, 0, True), (1, 1, False)):
        d = mk_driver(2)
        d.clients_per_worker = {0: 0, 1: 0, 2: 1, 3: 1}
        jp = [driver.ClientAllocation(c, driver.JoinPoint(1, clients_executing_completing_task=[completing_client])) for c in (0, 1)]
        d.joinpoint_reached(first_arrival, 1.0, jp)
        sent = [c for c in d.calls if c[0] == "complete"]
        if bool(sent) != expect or (sent and [c[1] for c in sent] != d.workers):
            return (f"completed-by task runs on client {completing_client} (worker {d.clients_per_worker[completing_client]}); worker {first_arrival} reaches the join point first: "
                    f"CompleteCurrentTask sent to {[c[1] for c in sent]}, expected {'all workers' if expect else 'nobody yet'}")
    return None


def probe_completing_task_runs_to_its_end():
    """completed-by: a client of the task that completes its parent ignores the shared completion flag (a faster client of the same task on
    this worker may have set it) and runs until its own schedule / runner is done"""
    from C04 import run

    times, sts = [0, 0, 0, 0, 0], [0.01] * 5
    _, issued, samples = run(times, sts, complete_preset=True, completes_parent=True)
    if len(issued) != len(times):
        return f"a client of the completing task issued {len(issued)} of its {len(times)} requests because the shared completion flag was already set"
    _, issued, _ = run(times, sts, complete_preset=True, completes_parent=False)
    if len(issued) != 1:
        return f"a client of an ordinary task issued {len(issued)} requests although its parallel element was already completed (it should stop after the request in flight)"
    return None


def main(rec):
    for f in (probe_completing_task_runs_to_its_end, probe_barrier, probe_completed_by, probe_worker_progress, probe_sampler_handover):
        try:
            v = f()
        except Exception as ex:  # noqa
            v = probe_exception(f, ex)
        if v:
            done(True, v)
    done(False, "probes pass for " + rec.get("obligation", ""))


if __name__ == "__main__":
    main(load())
