"""Replay for C02: run the REAL functions on the counter-model's inputs (then a small bounded search around them)
and evaluate the property's postcondition concretely, independently of the symbolic contracts."""
import itertools
import random

from common import conv, done, load


def cwa_violation(host_configs, client_count):
    from esrally.driver import driver

    try:
        res = driver.calculate_worker_assignments(host_configs, client_count)
    except AssertionError as ex:
        return f"AssertionError {ex!r}"
    if len(res) != len(host_configs):
        return "one entry per host violated"
    flat = []
    for hc, a in zip(host_configs, res):
        if a["host"] != hc["host"]:
            return "host order changed"
        if len(a["workers"]) > hc["cores"]:
            return "more workers than cores"
        sizes = [len(w) for w in a["workers"]]
        if sizes and max(sizes) - min(sizes) > 1:
            return f"worker loads differ by more than one: {sizes}"
        for w in a["workers"]:
            if w != list(range(w[0], w[0] + len(w))) if w else False:
                return "worker range not contiguous"
            flat.extend(w)
    if flat != list(range(client_count)):
        return f"client ids are not exactly 0..{client_count - 1} in order: {flat[:20]}"
    return None


def replay_cwa(rec):
    inp = rec["inputs"]
    hosts = conv(inp.get("host_configs"), maxlen=64) or []
    cc = conv(inp.get("client_count"))
    cands = []
    if hosts and isinstance(cc, int) and 0 <= cc <= 10**6:
        hs = [{"host": f"h{k}", "cores": max(1, min(int(h.get("cores") or 1), 64))} for k, h in enumerate(hosts)]
        cands.append((hs, cc))
    rnd = random.Random(1)
    for nh in range(1, 5):
        for cores in itertools.product(range(1, 4), repeat=nh):
            for c in range(0, 14):
                cands.append(([{"host": f"h{k}", "cores": cr} for k, cr in enumerate(cores)], c))
    for _ in range(300):
        nh = rnd.randint(1, 6)
        cands.append(([{"host": f"h{k}", "cores": rnd.randint(1, 9)} for k in range(nh)], rnd.randint(0, 200)))
    for hs, c in cands:
        v = cwa_violation(hs, c)
        if v:
            done(True, f"calculate_worker_assignments({hs}, {c}): {v}")
    done(False, f"no failing input among {len(cands)} candidates for {rec['obligation']}")


if __name__ == "__main__":
    rec = load()
    if "calculate_worker_assignments" in rec["target"]:
        replay_cwa(rec)
    done(False, "no adapter for " + rec["target"])
