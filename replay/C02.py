"""Replay for C02: run the REAL functions on the counter-model's inputs (then a small bounded search around them)
and evaluate the property's postcondition concretely, independently of the symbolic contracts."""
import itertools
import random

from common import conv, done, load


def cwa_violation(host_configs, client_count):
    from esrally.driver import driver

    try:
        res = driver.calculate_worker_assignments(host_configs, client_count)
    except AssertionError as ex:
        return f"AssertionError {ex!r}"
    if len(res) != len(host_configs):
        return "one entry per host violated"
    flat = []
    for hc, a in zip(host_configs, res):
        if a["host"] != hc["host"]:
            return "host order changed"
        if len(a["workers"]) > hc["cores"]:
            return "more workers than cores"
        sizes = [len(w) for w in a["workers"]]
        if sizes and max(sizes) - min(sizes) > 1:
            return f"worker loads differ by more than one: {sizes}"
        for w in a["workers"]:
            if w != list(range(w[0], w[0] + len(w))) if w else False:
                return "worker range not contiguous"
            flat.extend(w)
    if flat != list(range(client_count)):
        return f"client ids are not exactly 0..{client_count - 1} in order: {flat[:20]}"
    return None


def replay_cwa(rec):
    inp = rec["inputs"]
    hosts = conv(inp.get("host_configs"), maxlen=64) or []
    cc = conv(inp.get("client_count"))
    cands = []
    if hosts and isinstance(cc, int) and 0 <= cc <= 10**6:
        hs = [{"host": f"h{k}", "cores": max(1, min(int(h.get("cores") or 1), 64))} for k, h in enumerate(hosts)]
        cands.append((hs, cc))
    rnd = random.Random(1)
    for nh in range(1, 5):
        for cores in itertools.product(range(1, 4), repeat=nh):
            for c in range(0, 14):
                cands.append(([{"host": f"h{k}", "cores": cr} for k, cr in enumerate(cores)], c))
    for _ in range(300):
        nh = rnd.randint(1, 6)
        cands.append(([{"host": f"h{k}", "cores": rnd.randint(1, 9)} for k in range(nh)], rnd.randint(0, 200)))
    for hs, c in cands:
        v = cwa_violation(hs, c)
        if v:
            done(True, f"calculate_worker_assignments({hs}, {c}): {v}")
    done(False, f"no failing input among {len(cands)} candidates for {rec['obligation']}")


def allocator_violation(spec):
    """spec: list of elements; an element is ('task', clients, completes, any_completes) or ('parallel', explicit_clients|None, [task specs])"""
    from esrally.driver import driver
    from esrally.track import track

    op = track.Operation("op", "bulk", {})
    cnt = [0]

    def mk(t):
        cnt[0] += 1
        return track.Task(f"t{cnt[0]}", op, clients=t[1], completes_parent=t[2], any_completes_parent=t[3])

    schedule, leaves = [], []
    for el in spec:
        if el[0] == "task":
            t = mk(el)
            schedule.append(t)
            leaves.append([t])
        else:
            ts = [mk(x) for x in el[2]]
            schedule.append(track.Parallel(ts, clients=el[1]))
            leaves.append(ts)
    a = driver.Allocator(schedule)
    m = a.allocations
    n = max([1] + [e.clients for e in schedule])
    if len(m) != n:
        return f"{len(m)} rows, widest element has {n} clients"
    if len({len(r) for r in m}) != 1:
        return f"matrix is not rectangular: row lengths {[len(r) for r in m]}"
    cols = list(zip(*m))
    jp_cols = [i for i, c in enumerate(cols) if any(isinstance(x, driver.JoinPoint) for x in c)]
    for i in jp_cols:
        if not all(x is cols[i][0] for x in cols[i]):
            return f"column {i} mixes a join point with other entries"
    if [cols[i][0].id for i in jp_cols] != list(range(len(schedule) + 1)):
        return f"join point ids {[cols[i][0].id for i in jp_cols]}, expected 0..{len(schedule)}"
    if jp_cols[0] != 0 or jp_cols[-1] != len(cols) - 1:
        return "the matrix does not start and end with a join point"
    for e, (el, ts) in enumerate(zip(schedule, leaves)):
        seen = {}
        completing, anyc = [], []
        for ci in range(jp_cols[e] + 1, jp_cols[e + 1]):
            for r, x in enumerate(cols[ci]):
                if x is None:
                    continue
                if not isinstance(x, driver.TaskAllocation) or not any(x.task is t for t in ts):
                    return f"element {e}: entry {x!r} between its join points is not an allocation of one of its tasks"
                seen.setdefault(id(x.task), []).append(x.client_index_in_task)
                if x.total_clients != el.clients:
                    return f"element {e}: allocation of {x.task.name} says total_clients={x.total_clients}, the element runs {el.clients} clients"
                if x.global_client_index % n != r:
                    return f"element {e}: allocation with global index {x.global_client_index} sits in row {r} of {n}"
                if x.task.completes_parent:
                    completing.append(r)
                elif x.task.any_completes_parent:
                    anyc.append(r)
        for t in ts:
            if sorted(seen.get(id(t), [])) != list(range(t.clients)):
                return f"element {e}: task {t.name} wants clients 0..{t.clients - 1}, allocated client indices {sorted(seen.get(id(t), []))}"
        jp = cols[jp_cols[e + 1]][0]
        if sorted(jp.clients_executing_completing_task) != sorted(completing) or sorted(jp.any_task_completes_parent) != sorted(anyc):
            return (f"join point {jp.id} lists completing clients {sorted(jp.clients_executing_completing_task)} / any-completing {sorted(jp.any_task_completes_parent)}; "
                    f"its own element has {sorted(completing)} / {sorted(anyc)}")
    steps = len(a.join_points) - 1
    nonempty = sum(1 for ts in leaves if any(t.clients > 0 for t in ts))
    if len(a.tasks_per_joinpoint) != nonempty:
        return f"{len(a.tasks_per_joinpoint)} task sets for {nonempty} non-empty schedule elements ({steps} steps)"
    return None


def replay_allocator(rec):
    rnd = random.Random(2)
    specs = []
    T = lambda c, cp=False, ac=False: ("task", c, cp, ac)  # noqa: E731
    specs += [[T(1)], [T(3)], [T(2), T(5), T(1)], [("parallel", None, [T(2), T(1)])], [("parallel", 2, [T(2), T(2), T(1)])], [("parallel", None, [T(1, True), T(3)]), T(2)],
              [T(2), ("parallel", 3, [T(2, False, True), T(2, True), T(3)]), ("parallel", None, [T(1), T(1, True)]), T(4)]]
    for _ in range(400):
        spec = []
        for _ in range(rnd.randint(1, 4)):
            if rnd.random() < 0.5:
                spec.append(T(rnd.randint(1, 5)))
            else:
                ts = [T(rnd.randint(1, 4), rnd.random() < 0.3, rnd.random() < 0.3) for _ in range(rnd.randint(1, 4))]
                spec.append(("parallel", rnd.choice([None, None, rnd.randint(1, 6)]), ts))
        specs.append(spec)
    for spec in specs:
        try:
            v = allocator_violation(spec)
        except Exception as ex:  # noqa
            v = f"raised {type(ex).__name__}: {ex}"
        if v:
            done(True, f"Allocator({spec}): {v}")
    done(False, f"no failing schedule among {len(specs)} candidates for {rec['obligation']}")


def replay_start_benchmark(rec):
    """the real Driver.start_benchmark with recording stubs: every worker is started with exactly the matrix rows of ITS clients"""
    import logging
    import types

    from esrally.driver import driver
    from esrally.track import track

    logging.disable(logging.CRITICAL)
    n = 0
    for hosts in ([("h0", 4)], [("h0", 2), ("h1", 3)], [("h0", 1)], [("h0", 8), ("h1", 8)]):
        for clients in (1, 3, 8, 16):
            n += 1
            op = track.Operation("op", "bulk", {})
            schedule = [track.Task("t1", op, clients=clients), track.Parallel([track.Task("t2", op, clients=max(1, clients // 2)), track.Task("t3", op, clients=1)])]
            d = driver.Driver.__new__(driver.Driver)
            d.logger = logging.getLogger("probe")
            started = []
            d.driver_actor = types.SimpleNamespace(create_client=lambda host, cfg, wid: ("worker", host, wid),
                                                   start_worker=lambda w, wid, cfg, trk, allocs, client_contexts=None: started.append((w, wid, allocs, client_contexts)))
            d.telemetry = types.SimpleNamespace(on_benchmark_start=lambda: None)
            d.reset_relative_time = lambda: None
            d.update_progress_message = lambda *a, **k: None
            d.challenge = types.SimpleNamespace(schedule=schedule)
            opts = types.SimpleNamespace(all_client_options={"default": {}})
            d.config = types.SimpleNamespace(opts=lambda *a, **k: opts)
            d.track, d.default_sync_es_client = None, None
            d.load_driver_hosts = [{"host": h, "cores": c} for h, c in hosts]
            d.clients_per_worker, d.client_contexts, d.workers = {}, {}, []
            d.start_benchmark()
            width = len(d.allocations)
            seen = []
            for w, wid, allocs, ctxs in started:
                ids = [a["client_id"] for a in allocs.allocations]
                if len(set(ids)) != len(ids):
                    done(True, f"hosts {hosts}, {clients} clients: worker {wid} was started with client ids {ids} (duplicates)")
                if sorted(ids) != sorted(ctxs):
                    done(True, f"hosts {hosts}, {clients} clients: worker {wid} was started with the allocations of clients {ids} but has contexts for {sorted(ctxs)}")
                for a in allocs.allocations:
                    if a["tasks"] is not d.allocations[a["client_id"]]:
                        done(True, f"worker {wid}: the tasks of client {a['client_id']} are not row {a['client_id']} of the allocation matrix")
                seen += ids
            if sorted(seen) != list(range(width)):
                done(True, f"hosts {hosts}, {clients} clients: workers were started with client ids {sorted(seen)}; the matrix has rows 0..{width - 1} (each client exactly once)")
            sizes = {}
            for w, wid, allocs, ctxs in started:
                sizes.setdefault(w[1], []).append(len(allocs.allocations))
            for h, ls in sizes.items():
                if max(ls) - min(ls) > 1:
                    done(True, f"hosts {hosts}, {clients} clients: worker loads on {h} are {ls} (differ by more than one client)")
    done(False, f"no failing configuration among {n} for {rec['obligation']}")


if __name__ == "__main__":
    rec = load()
    if "calculate_worker_assignments" in rec["target"]:
        replay_cwa(rec)
    if "start_benchmark" in rec["target"]:
        replay_start_benchmark(rec)
    if "Allocator" in rec["target"] or "TaskAllocation" in rec["target"]:
        replay_allocator(rec)
    done(False, "no adapter for " + rec["target"])
