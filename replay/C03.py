"""Replay for C03: bounds() — the slices of consecutive client ranges must tile [0, total) (every document exactly once)."""
import random

from common import conv, done, load


def bounds_violation(total, num, start, end, flag):
    from esrally.track import params

    L = 2 if flag else 1
    off, docs, lines = params.bounds(total, start, end, num, flag)
    if lines != docs * L or off % L:
        return f"lines/offset inconsistent: {(off, docs, lines)}"
    # independent statement: offset = documents of all clients before `start`; docs = documents of clients start..end; all clients cover total
    per = [params.bounds(total, i, i, num, flag) for i in range(num)]
    pos = 0
    for i, (o, d, l) in enumerate(per):
        if o != pos * L:
            return f"client {i} starts at line {o}, previous clients end at line {pos * L} (gap or overlap)"
        if d < 0:
            return f"client {i} gets {d} documents"
        pos += d
    if pos != total:
        return f"all clients together read {pos} of {total} documents"
    want_off = sum(d for _, d, _ in per[:start]) * L
    want_docs = sum(d for _, d, _ in per[start : end + 1])
    if off != want_off or docs != want_docs:
        return f"range [{start},{end}] of {num} clients over {total} docs: got offset {off} docs {docs}, the single-client slices give offset {want_off} docs {want_docs}"
    return None


def replay_bounds(rec):
    inp = rec["inputs"]
    t, n = conv(inp.get("total_docs")), conv(inp.get("num_clients"))
    s, e = conv(inp.get("start_client_index")), conv(inp.get("end_client_index"))
    flag = bool(conv(inp.get("includes_action_and_meta_data")))
    cands = []
    if all(isinstance(x, int) for x in (t, n, s, e)) and 1 <= n <= 5000 and 0 <= s <= e < n and 0 <= t <= 10**12:
        cands.append((t, n, s, e, flag))
    rnd = random.Random(7)
    for n_ in range(1, 9):
        for t_ in range(0, 40):
            for s_ in range(n_):
                for e_ in range(s_, n_):
                    cands.append((t_, n_, s_, e_, flag))
    for _ in range(400):
        n_ = rnd.randint(1, 64)
        s_ = rnd.randint(0, n_ - 1)
        cands.append((rnd.randint(0, 10**rnd.randint(1, 12)), n_, s_, rnd.randint(s_, n_ - 1), rnd.random() < 0.5))
    for c in cands:
        v = bounds_violation(*c)
        if v:
            done(True, f"bounds(total_docs={c[0]}, start={c[2]}, end={c[3]}, num_clients={c[1]}, meta={c[4]}): {v}")
    done(False, f"no failing input among {len(cands)} candidates for {rec['obligation']}")


def replay_action_meta_data(rec):
    """the real generator with scripted random sources: a simulated conflict must target an id that has already been handed out"""
    from esrally.track import params

    ids = [f"id-{k:03d}" for k in range(12)]
    n = 0
    for recency in (0, 0.5, 1.0):
        for expo in (0.0, 1e-9, 0.03, 0.5, 0.999, 1.0, 5.0):
            for on_conflict in ("index", "update"):
                script = iter([1.0, 1.0, 1.0] + [0.0, 1.0] * 40)  # three fresh ids first, then alternate conflict / fresh
                g = params.GenerateActionMetaData("idx", None, conflicting_ids=list(ids), conflict_probability=50, on_conflict=on_conflict, recency=recency,
                                                  rand=lambda: next(script), randint=lambda a, b: b, randexp=lambda lam: expo)
                used, fresh = [], []
                try:
                    for _ in range(30):
                        before = g.id_up_to
                        action, line = next(g)
                        n += 1
                        doc_id = line.split('"_id": "')[1].split('"')[0]
                        if g.id_up_to == before + 1:
                            if doc_id != ids[before] or action != "index":
                                done(True, f"fresh action #{before} uses id {doc_id} / action {action}, expected {ids[before]} / index")
                            fresh.append(doc_id)
                        else:
                            if doc_id not in ids[:before]:
                                done(True, f"simulated conflict (recency {recency}, exponential draw {expo}, {before} ids handed out so far) targets id {doc_id}, which has not been used yet")
                            if action != on_conflict:
                                done(True, f"simulated conflict uses action {action}, configured on-conflict is {on_conflict}")
                except StopIteration:
                    pass
                if fresh != ids[: len(fresh)]:
                    done(True, f"fresh ids handed out {fresh}")
    done(False, f"no failing draw among {n} generated actions for {rec['obligation']}")


if __name__ == "__main__":
    rec = load()
    if "GenerateActionMetaData" in rec["target"]:
        replay_action_meta_data(rec)
    if rec["target"].endswith("::bounds"):
        replay_bounds(rec)
    done(False, "no adapter for " + rec["target"])
