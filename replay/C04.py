"""Replay for C04: the real AsyncExecutor on a virtual clock (perf_counter / asyncio.sleep patched), scripted schedules and service times;
every recorded sample is checked against the documented meaning of latency / service time / processing time."""
import asyncio
import itertools
import logging
import threading
import types

from common import done, load

logging.disable(logging.CRITICAL)


class Clock:
    def __init__(self):
        self.t = 100.0

    def now(self):
        return self.t


def run(schedule_times, service_times, ramp=0.0, complete_preset=False, completes_parent=False):
    from esrally import metrics
    from esrally.client import context
    from esrally.driver import driver
    from esrally.track import track

    clk = Clock()
    issued = []
    holder = context.RequestContextHolder()

    class Runner:
        completed = None
        percent_completed = None

        async def __aenter__(self):
            return self

        async def __aexit__(self, *a):
            return False

        async def __call__(self, es, params):
            clk.t += 0.001  # client-side overhead before the wire request
            issued.append(clk.t)
            holder.on_request_start()
            clk.t += params["st"]
            holder.on_request_end()
            clk.t += 0.002
            return {"weight": 1, "unit": "ops"}

    r = Runner()

    class Handle:
        ramp_up_wait_time = ramp

        def start(self):
            pass

        def before_request(self, now):
            pass

        def after_request(self, *a):
            pass

        def __call__(self):
            async def gen():
                for k, (t, st) in enumerate(zip(schedule_times, service_times)):
                    yield t, metrics.SampleType.Normal, (k + 1) / len(schedule_times), r, {"st": st}

            return gen()

    async def fake_sleep(d):
        clk.t += max(d, 0)

    saved = (driver.time.perf_counter, driver.asyncio.sleep, context.time.perf_counter)
    task = track.Task("t", track.Operation("o", "search", {}), completes_parent=completes_parent)
    sampler = driver.Sampler(start_timestamp=clk.t)
    complete = threading.Event()
    if complete_preset:
        complete.set()
    ex = driver.AsyncExecutor(3, task, Handle(), {"default": holder}, sampler, threading.Event(), complete, "continue")
    start = clk.t
    try:
        driver.time.perf_counter = clk.now
        context.time.perf_counter = clk.now
        driver.asyncio.sleep = fake_sleep
        asyncio.run(ex())
    finally:
        driver.time.perf_counter, driver.asyncio.sleep, context.time.perf_counter = saved
    return start, issued, sampler.samples


def violation(schedule_times, service_times, **kw):
    start, issued, samples = run(schedule_times, service_times, **kw)
    if len(samples) != len(issued):
        return f"{len(issued)} requests executed but {len(samples)} samples recorded"
    ramp = kw.get("ramp", 0.0)
    for k, s in enumerate(samples):
        sched = schedule_times[k]
        throttled = sched > 0
        if s.service_time < 0 or abs(s.service_time - service_times[k]) > 1e-9:
            return f"request #{k}: service time {s.service_time}, the request took {service_times[k]}"
        if s.processing_time < s.service_time - 1e-12:
            return f"request #{k}: processing time {s.processing_time} < service time {s.service_time}"
        if throttled and issued[k] < start + sched - 1e-9:
            return f"request #{k} of a throttled task issued {start + sched - issued[k]:.4f}s before its scheduled time"
        want = (issued[k] + service_times[k]) - (start + sched) if throttled else s.service_time
        if abs(s.latency - want) > 1e-9:
            return f"request #{k} ({'throttled' if throttled else 'unthrottled'}, ramp-up wait {ramp}): latency {s.latency:.4f} but {'time from the scheduled time to the response' if throttled else 'service time'} is {want:.4f}"
        if s.latency < s.service_time - 1e-9:
            return f"request #{k}: latency {s.latency} < service time {s.service_time}"
        if s.client_id != 3 or s.task.name != "t":
            return f"request #{k}: sample carries client {s.client_id} task {s.task}"
    return None


def context_hooks_violation():
    """one logical request that puts several wire requests on the wire (scroll pages, retries): the recorded span is first start .. last end"""
    from unittest import mock

    from esrally.client import context

    holder = context.RequestContextHolder()
    for clock in ([1.0, 1.5, 2.0, 2.5, 3.0, 3.5], [10.0, 10.1, 10.2, 10.3], [5.0, 6.0]):
        it = iter(clock)
        with mock.patch("time.perf_counter", lambda: next(it)):
            with holder.new_request_context() as ctx:
                for _ in range(len(clock) // 2):
                    holder.on_request_start()
                    holder.on_request_end()
                got = (ctx.request_start, ctx.request_end)
        if got != (clock[0], clock[-1]):
            return f"wire requests at clock readings {clock} (start, end, start, end, ..): recorded span {got}, expected ({clock[0]}, {clock[-1]})"
    return None


def main(rec):
    n = 0
    v = context_hooks_violation()
    if v:
        done(True, v)
    for times in ([0, 0, 0, 0], [0, 0.1, 0.2, 0.3, 0.4], [0, 0.5, 1.0], [0, 0.01, 0.02, 0.03]):
        for sts in ([0.01] * 5, [0.3, 0.01, 0.01, 0.2, 0.01], [0.05, 0.6, 0.05, 0.05, 0.05]):
            for ramp, preset, cp in itertools.product((0.0, 0.25), (False, True), (False, True)):
                n += 1
                v = violation(times, sts[: len(times)], ramp=ramp, complete_preset=preset and cp, completes_parent=cp)
                if v:
                    done(True, f"schedule {times}, service times {sts[:len(times)]}, ramp-up wait {ramp}, complete flag preset {preset and cp}, completes-parent {cp}: {v}")
    done(False, f"no failing run among {n} for {rec.get('obligation', '')}")


if __name__ == "__main__":
    main(load())
