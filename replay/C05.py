"""Replay for C05: real schedule_for / loop controls / schedule generator / schedulers on enumerated task specs, checked against the
property statement (request counts, warm-up flags, progress, pacing, ramp-up, choice of loop control)."""
import asyncio
import itertools

from common import done, load, probe_exception


class Src:
    def __init__(self, infinite, n=None):
        self.infinite = infinite
        self.n = n
        self.k = 0

    def partition(self, i, n):
        return self

    def params(self):
        if self.n is not None and self.k >= self.n:
            raise StopIteration()
        self.k += 1
        return {}


def handle(task_kw, infinite, n=None):
    from esrally.driver import driver, runner
    from esrally.track import track

    class R:
        completed = None
        percent_completed = None

    real = runner.runner_for
    runner.runner_for = lambda t: R()
    try:
        t = track.Task("t", track.Operation("o", "search", {}), **task_kw)
        return driver.schedule_for(driver.TaskAllocation(t, 0, 0, 1), Src(infinite, n)), t
    finally:
        runner.runner_for = real


async def drain(h, limit=200):
    out = []
    h.start()
    async for item in h():
        out.append(item)
        if len(out) >= limit:
            break
    return out


def check_iterations():
    from esrally import metrics

    for w, n, inf, avail in itertools.product((None, 0, 2), (None, 1, 3), (True, False), (4, 50)):
        kw = {}
        if w is not None:
            kw["warmup_iterations"] = w
        if n is not None:
            kw["iterations"] = n
        if (w or 0) + (n or 0) == 0 and n is not None:
            continue
        if w is None and n is None and not inf:
            continue  # time-period control (finite source, nothing specified)
        h, _ = handle(kw, inf, None if inf else avail)
        items = asyncio.run(drain(h))
        W = w or 0
        want = W + (n if n else (1 if inf else None)) if (n or inf) else None
        if want is None:
            want = avail
        elif not inf:
            want = min(want, avail)
        if len(items) != want:
            return f"task with warmup-iterations={w}, iterations={n}, {'infinite' if inf else f'finite ({avail} parameter sets)'} parameter source: the client issues {len(items)} requests, expected {want}"
        for k, it in enumerate(items):
            st = metrics.SampleType.Warmup if k < W else metrics.SampleType.Normal
            if it[1] != st:
                return f"warmup-iterations={w}, iterations={n}: request #{k} flagged {it[1]}, expected {st}"
        prog = [it[2] for it in items if it[2] is not None]
        if any(b < a for a, b in zip(prog, prog[1:])) or any(not (0 <= p <= 1) for p in prog):
            return f"progress not monotone in [0,1]: {prog}"
        if n and want == W + n and prog and prog[-1] != 1:
            return f"progress ends at {prog[-1]}, expected 1"
        sched = [it[0] for it in items]
        if any(b < a for a, b in zip(sched, sched[1:])):
            return f"scheduled times decrease: {sched}"
    return None


def check_pacing():
    from esrally.driver import scheduler
    from esrally.track import track

    for clients, tput, weight in itertools.product((1, 4), (10, 200.0), (1, 50)):
        t = track.Task("t", track.Operation("o", "bulk", {}), clients=clients, params={"target-throughput": f"{tput} docs/s"})
        s = scheduler.UnitAwareScheduler(t, scheduler.DeterministicScheduler)
        s.after_request(0, weight, "docs", {})
        a = s.next(0)
        b = s.next(a)
        want = weight * clients / float(tput)
        if abs((b - a) - want) > 1e-9 or abs(a - want) > 1e-9:
            return f"deterministic schedule, {clients} clients, target {tput} docs/s, weight {weight}: consecutive requests {b - a}s apart, expected {want}s"
    return None


def check_rampup():
    from esrally.driver import driver
    from esrally.track import track

    for total, idx, ramp in itertools.product((1, 4), (0, 1, 3), (None, 0, 8.0)):
        if idx >= total:
            continue
        t = track.Task("t", track.Operation("o", "search", {}), ramp_up_time_period=ramp, warmup_time_period=10 if ramp else None, time_period=10 if ramp else None)
        h = driver.ScheduleHandle(driver.TaskAllocation(t, idx, idx, total), None, None, None, None)
        want = ramp * idx / total if ramp else 0
        if abs(h.ramp_up_wait_time - want) > 1e-12:
            return f"ramp-up {ramp}s, client {idx} of {total}: wait {h.ramp_up_wait_time}, expected {want}"
    return None


def main(rec):
    for f in (check_iterations, check_pacing, check_rampup):
        try:
            v = f()
        except Exception as ex:  # noqa
            v = probe_exception(f, ex)
        if v:
            done(True, v)
    done(False, "no failing task spec found for " + rec.get("obligation", ""))


if __name__ == "__main__":
    main(load())
