"""Replay for C06: feed the REAL ThroughputCalculator one in-order sample stream cut into batches in many ways; every reported
value must equal (operations completed so far) / (elapsed time) with each sample counted exactly once; sample types never go back."""
import itertools
import random

from common import done, load


def run_stream(times, types, cuts, ops=1):
    from esrally import metrics
    from esrally.driver import driver

    calc = driver.ThroughputCalculator()
    samples = []
    for t, ty in zip(times, types):
        samples.append(
            driver.Sample(0, t, t, 0, "task-a", metrics.SampleType.Normal if ty else metrics.SampleType.Warmup, None, 0.01, 0.01, 0.01, None, ops, "docs", t - (times[0] - 0.1) if False else 0.1, None)
        )
    start = times[0] - 0.1
    out = []
    pos = 0
    for c in list(cuts) + [len(samples)]:
        batch = samples[pos:c]
        pos = c
        if not batch:
            continue
        res = calc.calculate(batch)
        out.extend(res.get("task-a", []))
    return start, samples, out


def violation(times, types, cuts, ops=1):
    start, samples, out = run_stream(times, types, cuts, ops)
    prev_type = None
    for abs_t, rel, ty, value, unit in out:
        done_ops = sum(ops for s in samples if s.absolute_time <= abs_t)
        want = done_ops / (abs_t - start)
        if abs(value - want) > 1e-9 * max(1.0, want):
            return f"value {value} at t={abs_t}: {done_ops} operations completed in {abs_t - start:.3f}s give {want}"
        if value < 0:
            return f"negative value {value}"
        if unit != "docs/s":
            return f"unit {unit!r}"
        if prev_type is not None and ty < prev_type:
            return f"sample type went back from {prev_type!r} to {ty!r}"
        prev_type = ty
    if any(types) and not any(ty == 1 for _, _, ty, _, _ in out):
        return "no normal-type throughput value although the task has a normal sample and positive elapsed time"
    return None


def passthrough_violation():
    """a throughput supplied by the runner is reported verbatim (value, times, type, unit '<ops unit>/s'), one value per sample, in order"""
    from esrally import metrics
    from esrally.driver import driver

    vals = [0.0, 1.0, 123.456789, 1e-9, 99999.99999, 7.5]
    samples = [driver.Sample(0, 100.0 + k, 10.0 + k, 3.0, "task-a", metrics.SampleType.Normal if k >= 2 else metrics.SampleType.Warmup, None, 0.01, 0.01, 0.01, v, 5, "docs" if k % 2 else "pages", 0.1, None)
               for k, v in enumerate(vals)]
    got = driver.ThroughputCalculator().map_task_throughput(samples)
    if len(got) != len(samples):
        return f"{len(samples)} samples with a runner-supplied throughput gave {len(got)} values"
    for k, (s, g) in enumerate(zip(samples, got)):
        want = (s.absolute_time, s.relative_time, s.sample_type, s.throughput, f"{s.total_ops_unit}/s")
        if tuple(g) != want:
            return f"sample {k} with runner-supplied throughput {s.throughput!r} {s.total_ops_unit}: reported {tuple(g)!r}, expected {want!r}"
    return None


def main(rec):
    if rec.get("target", "").endswith("map_task_throughput"):
        v = passthrough_violation()
        done(bool(v), v or "runner-supplied throughput is passed through unchanged on the probe samples")
    cands = [([0.2, 0.4, 0.5, 0.6, 0.7, 1.5], [1] * 6, [1, 2, 3, 4, 5])]
    rnd = random.Random(5)
    base_times = [0.3, 0.6, 0.8, 0.9, 1.2, 1.7, 2.05, 2.4, 3.3]
    for n in range(2, len(base_times) + 1):
        times = base_times[:n]
        for w in range(0, n):
            types = [0] * w + [1] * (n - w)
            for k in range(0, min(n, 4)):
                for cuts in itertools.combinations(range(1, n), k):
                    cands.append((times, types, list(cuts)))
    for _ in range(300):
        n = rnd.randint(2, 12)
        t, times = 0.0, []
        for _ in range(n):
            t += rnd.choice([0.05, 0.2, 0.35, 0.6, 1.1])
            times.append(round(t, 3))
        w = rnd.randint(0, n - 1)
        cuts = sorted(rnd.sample(range(1, n), rnd.randint(0, n - 1)))
        cands.append((times, [0] * w + [1] * (n - w), cuts))
    # two clients leaving warm-up at different times: a late warm-up sample arrives after normal ones
    for n in range(3, 8):
        times = base_times[:n]
        for late in range(1, n):
            for first_normal in range(0, late):
                types = [0 if (k < first_normal or k == late) else 1 for k in range(n)]
                for k in range(0, 3):
                    for cuts in itertools.combinations(range(1, n), k):
                        cands.append((times, types, list(cuts)))
    for times, types, cuts in cands:
        v = violation(times, types, cuts)
        if v:
            batches = [times[a:b] for a, b in zip([0] + cuts, cuts + [len(times)])]
            done(True, f"1-op samples at times {times} (normal from index {types.index(1) if 1 in types else None}) delivered in batches {batches}: {v}")
    done(False, f"no failing batching among {len(cands)} streams for {rec['obligation']}")


if __name__ == "__main__":
    main(load())
