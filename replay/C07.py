"""Replay for C07 (starts from the C01 probes): real Driver / Worker objects built with __new__, recording actor stubs, scripted allocation columns; probes of the
barrier, the completed-by broadcast and the worker's progress obligation (every drive() ends with a message sent or a wake-up armed)."""
import logging
import threading
import types

from common import done, load, probe_exception

logging.disable(logging.CRITICAL)


class Allocs:
    """columns: list of lists; an item 'JP' marks a join-point column"""

    def __init__(self, cols):
        self.cols = cols

    def is_joinpoint(self, i):
        return all(x == "JP" for x in self.cols[i])

    def tasks(self, i, remove_empty=True):
        return list(self.cols[i])


def mk_worker(cols, next_index, complete=False, sampler=None, future=None):
    from esrally.driver import driver

    w = driver.Worker.__new__(driver.Worker)
    w.logger = logging.getLogger("probe")
    w.sent, w.wakeups, w.submitted = [], [], []
    w.send = lambda t, m: w.sent.append((t, m))
    w.wakeupAfter = lambda *a, **k: w.wakeups.append(a)
    w.driver_actor, w.worker_id, w.config, w.track, w.client_contexts, w.on_error = "driver", 0, object(), None, None, None
    w.client_allocations = Allocs(cols)
    w.current_task_index, w.next_task_index = next_index - 1, next_index
    w.cancel, w.complete = threading.Event(), threading.Event()
    if complete:
        w.complete.set()
    w.executor_future, w.sampler, w.start_driving, w.wakeup_interval, w.sample_queue_size = future, sampler, False, 1, 100
    w.pool = types.SimpleNamespace(submit=lambda ex: (w.submitted.append(ex) or types.SimpleNamespace(done=lambda: False, result=lambda: None, running=lambda: True)))
    return w


def probe_worker_progress():
    from esrally.driver import driver

    real = driver.AsyncIoAdapter
    driver.AsyncIoAdapter = lambda *a, **k: ("executor", a[2])
    try:
        for complete in (False, True):
            for cols in ([["t0"], ["t1"], ["JP"]], [["t0"], [], ["t1"], ["JP"]], [["t0"], ["JP"]]):
                w = mk_worker(cols, 1, complete=complete)
                w.drive()
                jpr = [m for t, m in w.sent if isinstance(m, driver.JoinPointReached)]
                if not jpr and not (w.submitted and w.wakeups):
                    return (f"worker at column 0 of {cols} with CompleteCurrentTask {'set' if complete else 'not set'}: drive() returned having sent {w.sent}, armed {len(w.wakeups)} wake-ups and "
                            f"submitted {len(w.submitted)} executors -- the worker can never advance again (the race hangs)")
                if jpr and (w.submitted or len(jpr) != 1):
                    return f"drive() at a join point: {len(jpr)} JoinPointReached, {len(w.submitted)} executors"
    finally:
        driver.AsyncIoAdapter = real
    return None


def probe_sampler_handover():
    from esrally.driver import driver

    real = driver.AsyncIoAdapter
    driver.AsyncIoAdapter = lambda *a, **k: ("executor", a[2])
    try:
        s = driver.Sampler(start_timestamp=0)
        s.add("t0", 0, "normal", None, 0, 1.0, 0.1, 0.1, 0.1, None, 1, "ops", 1, 1.0)  # a sample stored after the wake-up's drain, before done()
        w = mk_worker([["t0"], ["t1"], ["JP"]], 1, sampler=s)
        w.drive()
        shipped = sum(len(m.samples) for t, m in w.sent if isinstance(m, driver.UpdateSamples))
        left = 0 if w.sampler is s else s.q.qsize()
        if shipped + (s.q.qsize() if w.sampler is s else 0) != 1:
            return f"a sample stored between the wake-up's drain and the done() check is lost at a task-to-task transition: shipped {shipped}, the old sampler (replaced) still holds {left}"
    except TypeError as ex:
        return None if "add()" in str(ex) else f"probe error {ex}"
    finally:
        driver.AsyncIoAdapter = real
    return None


def mk_driver(n_workers, steps=3):
    from esrally.driver import driver

    d = driver.Driver.__new__(driver.Driver)
    d.logger = logging.getLogger("probe")
    calls = []
    d.driver_actor = types.SimpleNamespace(
        drive_at=lambda w, ts: calls.append(("drive_at", w)), complete_current_task=lambda w: calls.append(("complete", w)),
        on_task_finished=lambda m, wp: calls.append(("task_finished",)), on_benchmark_complete=lambda m: calls.append(("benchmark_complete",)))
    d.workers = [f"w{k}" for k in range(n_workers)]
    d.currently_completed, d.workers_completed_current_step, d.current_step, d.number_of_steps = 0, {}, 0, steps
    d.complete_current_task_sent, d.most_recent_sample_per_client, d.raw_samples, d.quiet = False, {}, [], True
    d.metrics_store = types.SimpleNamespace(to_externalizable=lambda clear=False: "m", close=lambda: None)
    d.telemetry = types.SimpleNamespace(on_benchmark_stop=lambda: None)
    d.generated_api_key_ids, d.sample_post_processor = None, (lambda s: None)
    d.config = types.SimpleNamespace(opts=lambda *a, **k: True)
    d.calls = calls
    return d


def probe_barrier():
    from esrally.driver import driver

    for n in (1, 2, 3):
        d = mk_driver(n, steps=2)
        jp = [driver.ClientAllocation(0, driver.JoinPoint(1))]
        for step in range(2):
            for k in range(n):
                del d.calls[:]
                d.joinpoint_reached(k, 1.0, jp)
                drives = [c for c in d.calls if c[0] == "drive_at"]
                last = k == n - 1
                if not last and (drives or any(c[0] in ("task_finished", "benchmark_complete") for c in d.calls)):
                    return f"{n} workers, step {step}: after {k + 1} JoinPointReached the driver already issued {d.calls}"
                if last and step == 0 and [c[1] for c in drives] != d.workers:
                    return f"{n} workers: after the last JoinPointReached of step {step} Drive went to {[c[1] for c in drives]}"
                if last and step == 1 and (drives or [c[0] for c in d.calls].count("benchmark_complete") != 1):
                    return f"{n} workers: end of the race produced {d.calls}"
    return None


def probe_completed_by():
    from esrally.driver import driver

    # 2 workers, 4 clients (clients 0,1 on worker 0; 2,3 on worker 1); the completing task runs on client 2
    for completing_client, first_arrival, expect in ((2, 0, False), (2, 1, True), (0, 0, True), (1, 1, False)):
        d = mk_driver(2)
        d.clients_per_worker = {0: 0, 1: 0, 2: 1, 3: 1}
        jp = [driver.ClientAllocation(c, driver.JoinPoint(1, clients_executing_completing_task=[completing_client])) for c in (0, 1)]
        d.joinpoint_reached(first_arrival, 1.0, jp)
        sent = [c for c in d.calls if c[0] == "complete"]
        if bool(sent) != expect or (sent and [c[1] for c in sent] != d.workers):
            return (f"completed-by task runs on client {completing_client} (worker {d.clients_per_worker[completing_client]}); worker {first_arrival} reaches the join point first: "
                    f"CompleteCurrentTask sent to {[c[1] for c in sent]}, expected {'all workers' if expect else 'nobody yet'}")
    return None


def probe_postprocessor():
    """the real SamplePostprocessor on a batch of samples of two tasks and three clients: one latency / service_time / processing_time record per
    (down-sampled) sample, each with the sample's own client id, request meta-data and values"""
    from esrally import metrics
    from esrally.driver import driver
    from esrally.track import track

    class Store:
        def __init__(self):
            self.records = []

        def put_value_cluster_level(self, **kw):
            self.records.append(kw)

        def flush(self, refresh=True):
            self.records.append({"flush": refresh})

    op = track.Operation("op", "bulk", meta_data={"op-md": 1})
    tasks = [track.Task("t1", op, meta_data={"task": "t1"}), track.Task("t2", op, meta_data={"task": "t2"})]
    for factor in (1, 2, 3):
        samples = []
        for k in range(14):
            samples.append(driver.Sample(k % 3, 1000.0 + k, 10.0 + k, 5.0, tasks[k % 2], metrics.SampleType.Normal, {"req": k, "success": True}, 0.5 + k, 0.25 + k, 0.75 + k, None, 1, "docs", 1.0, None))
        store = Store()
        driver.SamplePostprocessor(store, factor, {"track": 1}, {"challenge": 1})(list(samples))
        want = [s for i, s in enumerate(samples) if i % factor == 0]
        for name, field in (("latency", "latency"), ("service_time", "service_time"), ("processing_time", "processing_time")):
            recs = [r for r in store.records if r.get("name") == name]
            if len(recs) != len(want):
                return f"down-sampling factor {factor}: {len(recs)} {name} records for {len(want)} samples"
            for r, smp in zip(recs, want):
                if abs(r["value"] - getattr(smp, field) * 1000) > 1e-6:
                    return f"{name} record {r['value']} for a sample with {field}={getattr(smp, field)} s"
                md = r["meta_data"]
                if md.get("client_id") != smp.client_id or md.get("req") != smp.request_meta_data["req"] or md.get("task") != smp.task.meta_data["task"] or r["task"] != smp.task.name:
                    return (f"{name} record of the sample of client {smp.client_id} / request {smp.request_meta_data['req']} / task {smp.task.name} carries "
                            f"client_id={md.get('client_id')}, req={md.get('req')}, task={r['task']} (down-sampling factor {factor})")
        if store.records[-1] != {"flush": False}:
            return f"batch not flushed without refresh: last call {store.records[-1]}"
    return None


def probe_final_join_point():
    """the last worker reaching the LAST join point: the samples gathered in the last step are post-processed before the race is reported complete"""
    d = mk_driver(2, steps=1)
    calls = []
    d.post_process_samples = lambda: calls.append("post_process")
    d.telemetry = type("T", (), {"on_benchmark_stop": lambda self: calls.append("telemetry_stop")})()
    d.metrics_store = type("M", (), {"to_externalizable": lambda self, clear=False: calls.append("externalize") or "m", "close": lambda self: calls.append("close")})()
    d.update_progress_message = lambda task_finished=False: None
    d.delete_api_keys = lambda *a, **k: None
    d.config = type("C", (), {"opts": lambda self, *a, **k: None})()
    d.driver_actor.on_benchmark_complete = lambda m: calls.append("on_benchmark_complete")
    d.tasks_per_join_point = [set()]
    d.current_step = 0
    d.number_of_steps = 1
    try:
        d.joinpoint_reached(0, 1.0, [])
        d.joinpoint_reached(1, 1.0, [])
    except Exception as ex:  # noqa
        return None if "probe" in str(ex) else f"probe error {type(ex).__name__}: {ex}"
    if "on_benchmark_complete" in calls and ("post_process" not in calls or calls.index("post_process") > calls.index("on_benchmark_complete")):
        return f"final join point: calls {calls}: the samples of the last step are not post-processed before the race is reported complete"
    return None


def probe_sampler_drain():
    """Sampler.samples hands over the whole queue in order (any backlog size below the queue capacity), and leaves it empty"""
    from esrally.driver import driver

    for n in (0, 1, 5, 16383, 16384, 16385, 40000):
        s = driver.Sampler(start_timestamp=0, buffer_size=2**20)
        for k in range(n):
            s.q.put_nowait(k)
        got = s.samples
        if list(got) != list(range(n)):
            return f"Sampler.samples with {n} queued samples returned {len(got)} (first mismatch at {next((i for i, (a, b) in enumerate(zip(got, range(n))) if a != b), min(len(got), n))})"
        if not s.q.empty():
            return f"Sampler.samples left {s.q.qsize()} of {n} samples in the queue"
    return None


def probe_metrics_handover():
    """to_externalizable(clear=True) + bulk_add move every record exactly once"""
    import pickle
    import zlib

    from esrally import metrics

    src = metrics.InMemoryMetricsStore.__new__(metrics.InMemoryMetricsStore)
    dst = metrics.InMemoryMetricsStore.__new__(metrics.InMemoryMetricsStore)
    for st in (src, dst):
        st.docs = []
        st.logger = type("L", (), {"debug": lambda *a, **k: None, "info": lambda *a, **k: None})()
    moved = []
    for rnd_ in range(3):
        batch = [{"name": "latency", "value": rnd_ * 10 + k} for k in range(rnd_ + 2)]
        src.docs.extend(batch)
        m = src.to_externalizable(clear=True)
        if [d["value"] for d in pickle.loads(zlib.decompress(m))] != [d["value"] for d in batch]:
            return f"hand-over {rnd_}: externalised {[d['value'] for d in pickle.loads(zlib.decompress(m))]} but the store held {[d['value'] for d in batch]}"
        if src.docs:
            return f"hand-over {rnd_}: {len(src.docs)} records stay in the store after to_externalizable(clear=True)"
        dst.bulk_add(m)
        moved.extend(batch)
        if [d["value"] for d in dst.docs] != [d["value"] for d in moved]:
            return f"after hand-over {rnd_} race control holds {[d['value'] for d in dst.docs]}, the driver produced {[d['value'] for d in moved]}"
    keep = metrics.InMemoryMetricsStore.__new__(metrics.InMemoryMetricsStore)
    keep.docs, keep.logger = [{"name": "x", "value": 1}], src.logger
    keep.to_externalizable(clear=False)
    if len(keep.docs) != 1:
        return "to_externalizable(clear=False) changed the store"
    dst.bulk_add(None)
    if len(dst.docs) != len(moved):
        return "bulk_add(None) changed the store"
    return None


def main(rec):
    for f in (probe_postprocessor, probe_final_join_point, probe_barrier, probe_completed_by, probe_worker_progress, probe_sampler_handover, probe_sampler_drain, probe_metrics_handover):
        try:
            v = f()
        except Exception as ex:  # noqa
            v = probe_exception(f, ex)
        if v:
            done(True, v)
    done(False, "probes pass for " + rec.get("obligation", ""))


if __name__ == "__main__":
    main(load())
