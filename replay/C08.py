"""Replay for C08: percentile_value against the linear-interpolation definition and its consequences (exact rational arithmetic)."""
import itertools
import math
import random
from fractions import Fraction

from common import conv, done, load


def pv_violation(values, p):
    from esrally import metrics

    got = metrics.InMemoryMetricsStore.percentile_value(values, p)
    n = len(values)
    r = Fraction(p) / 100 * (n - 1)
    lo, hi = math.floor(r), math.ceil(r)
    want = Fraction(values[lo]) + (Fraction(values[hi]) - Fraction(values[lo])) * (r - lo)
    tol = 1e-9 * max(1.0, abs(float(want)))
    if abs(got - float(want)) > tol:
        return f"got {got}, linear interpolation gives {float(want)}"
    if not (values[0] - tol <= got <= values[-1] + tol):
        return f"{got} outside [min,max]"
    return None


def mono_violation(values):
    from esrally import metrics

    prev = None
    for p in [0, 1, 10, 25, 33.3, 50, 66.6, 75, 90, 99, 99.9, 100]:
        v = metrics.InMemoryMetricsStore.percentile_value(values, p)
        if prev is not None and v < prev - 1e-9 * max(1.0, abs(prev)):
            return f"not monotone in p at p={p}: {v} < {prev}"
        prev = v
    return None


def replay_pv(rec):
    inp = rec["inputs"]
    vals = conv(inp.get("sorted_values")) or []
    p = conv(inp.get("percentile"))
    cands = []
    if vals and isinstance(p, (int, float)) and 0 <= p <= 100:
        cands.append((sorted(float(v) for v in vals), p))
    rnd = random.Random(3)
    for n in range(1, 7):
        base = sorted(rnd.sample(range(0, 50), n))
        for p_ in [0, 10, 25, 33, 50, 75, 90, 99, 99.9, 100]:
            cands.append(([float(x) for x in base], p_))
    for _ in range(200):
        n = rnd.randint(1, 30)
        cands.append((sorted(rnd.uniform(0, 1000) for _ in range(n)), rnd.choice([0, 50, 90, 99, 99.9, 99.99, 100, rnd.uniform(0, 100)])))
    for vals_, p_ in cands:
        v = pv_violation(vals_, p_) or mono_violation(vals_)
        if v:
            done(True, f"percentile_value({vals_[:8]}{'...' if len(vals_) > 8 else ''}, {p_}): {v}")
    done(False, f"no failing input among {len(cands)} candidates for {rec['obligation']}")


if __name__ == "__main__":
    rec = load()
    if rec.get("target", "").endswith("GlobalStats.metrics"):
        import os
        import sys

        sys.path.insert(0, os.path.join(os.path.dirname(os.path.abspath(__file__)), "..", "bounded"))
        from C08_results import check_lookup

        p_ = check_lookup()
        done(bool(p_), p_[0] if p_ else "GlobalStats.metrics lookup table passes")
    if rec["target"].endswith("percentile_value"):
        replay_pv(rec)
    done(False, "no adapter for " + rec["target"])
