"""Replay for C09: real actors built with __new__ and a recording send; concrete probes of the failure / cancellation forwarding chain."""
import types

from common import done, load, probe_exception


def mk(cls):
    a = cls.__new__(cls)
    a.logger = types.SimpleNamespace(**{n: (lambda *x, **k: None) for n in ("info", "debug", "warning", "error", "exception")})
    a.sent = []
    a.send = lambda target, msg: a.sent.append((target, msg))
    return a


def probe_guard():
    from esrally import actor

    class A:
        def __init__(self):
            self.sent = []

        def send(self, t, m):
            self.sent.append((t, m))

    for exc in (ValueError("x"), KeyboardInterrupt(), SystemExit(1), None):
        def handler(self, msg, sender):
            if exc is not None:
                raise exc
            return "ok"

        a = A()
        try:
            r = actor.no_retry("probe")(handler)(a, "m", "sender")
        except BaseException as ex:  # noqa
            return f"no_retry let {type(ex).__name__} escape from a handler"
        if exc is None and (a.sent or r != "ok"):
            return f"no_retry on a successful handler sent {a.sent} / returned {r!r}"
        if exc is not None and (len(a.sent) != 1 or a.sent[0][0] != "sender" or not isinstance(a.sent[0][1], actor.BenchmarkFailure)):
            return f"handler raising {type(exc).__name__}: no_retry sent {a.sent}"
    return None


def probe_child_exited():
    from esrally import actor
    from esrally.driver import driver

    for n in (1, 2, 4):
        for dead in range(n):
            for status in ("init", "exiting"):
                d = mk(driver.DriverActor)
                d.benchmark_actor, d.status = "bench", status
                d.driver = types.SimpleNamespace(workers=[f"w{k}" for k in range(n)], close=lambda: None)
                d.receiveMsg_ChildActorExited(types.SimpleNamespace(childAddress=f"w{dead}"), "system")
                fails = [m for t, m in d.sent if t == "bench" and isinstance(m, actor.BenchmarkFailure)]
                if (status != "exiting") != (len(fails) == 1) or len(d.sent) != len(fails):
                    return f"worker {dead} of {n} exited while the driver is in status {status!r}: {len(fails)} BenchmarkFailure sent to race control"
    d = mk(driver.DriverActor)
    d.benchmark_actor, d.status = "bench", "init"
    d.driver = types.SimpleNamespace(workers=["w0"], close=lambda: None)
    d.receiveMsg_ChildActorExited(types.SimpleNamespace(childAddress="preparator"), "system")
    if d.sent:
        return f"a track preparator exiting produced {d.sent}"
    return None


def probe_benchmark_actor():
    from esrally import actor, racecontrol

    for kind in ("failure", "cancel", "poison"):
        b = mk(racecontrol.BenchmarkActor)
        b.start_sender = "race"
        b.coordinator = types.SimpleNamespace(cancelled=False, error=False)
        msg = actor.BenchmarkFailure("x") if kind == "failure" else (actor.BenchmarkCancelled() if kind == "cancel" else types.SimpleNamespace(details="d"))
        h = {"failure": b.receiveMsg_BenchmarkFailure, "cancel": b.receiveMsg_BenchmarkCancelled, "poison": b.receiveMsg_PoisonMessage}[kind]
        h(msg, "driver")
        if b.sent != [("race", msg)]:
            return f"BenchmarkActor {kind}: forwarded {b.sent}"
        if kind == "cancel" and not b.coordinator.cancelled or kind != "cancel" and not b.coordinator.error:
            return f"BenchmarkActor {kind}: coordinator flags cancelled={b.coordinator.cancelled} error={b.coordinator.error} -- results of the race would still be stored and printed"
    return None


def probe_on_complete():
    from esrally import metrics, racecontrol, reporter

    for cancelled, error in ((False, False), (True, False), (False, True)):
        calls = []
        c = racecontrol.BenchmarkCoordinator.__new__(racecontrol.BenchmarkCoordinator)
        c.logger = types.SimpleNamespace(info=lambda *a, **k: None)
        c.cancelled, c.error, c.cfg = cancelled, error, None
        c.metrics_store = types.SimpleNamespace(bulk_add=lambda m: calls.append("bulk_add"), flush=lambda: calls.append("flush"), close=lambda: calls.append("close"))
        c.race = types.SimpleNamespace(add_results=lambda r: calls.append("add_results"))
        c.race_store = types.SimpleNamespace(store_race=lambda r: calls.append("store_race"))
        saved = (metrics.calculate_results, metrics.results_store, reporter.summarize)
        metrics.calculate_results = lambda ms, r: calls.append("calculate") or "res"
        metrics.results_store = lambda cfg: types.SimpleNamespace(store_results=lambda r: calls.append("store_results"))
        reporter.summarize = lambda r, cfg: calls.append("summarize")
        try:
            c.on_benchmark_complete("m")
        finally:
            metrics.calculate_results, metrics.results_store, reporter.summarize = saved
        stored = [x for x in calls if x in ("store_race", "store_results", "summarize", "calculate")]
        if (cancelled or error) and stored or not (cancelled or error) and len(stored) != 4:
            return f"on_benchmark_complete with cancelled={cancelled} error={error}: {calls}"
    return None


def probe_execute_single():
    import asyncio

    import elasticsearch

    from esrally import exceptions
    from esrally.driver import driver

    class R:
        def __init__(self, outcome):
            self.outcome = outcome

        async def __aenter__(self):
            return self

        async def __aexit__(self, *a):
            return False

        async def __call__(self, es, params):
            if isinstance(self.outcome, BaseException):
                raise self.outcome
            return dict(self.outcome) if isinstance(self.outcome, dict) else self.outcome

        def __str__(self):
            return "probe-runner"

    cases = [
        ({"weight": 5, "unit": "docs", "success": False, "error-type": "bulk"}, False), ({"weight": 5, "unit": "docs", "success": True}, True), ({"weight": 1}, True), ((3, "docs"), True), (None, True),
        (elasticsearch.ConnectionTimeout("t"), False), (elasticsearch.TransportError("x"), False), (elasticsearch.ConnectionError("refused"), "fatal"),
    ]
    for outcome, ok in cases:
        for on_error in ("abort", "continue"):
            try:
                res = asyncio.run(driver.execute_single(R(outcome), None, {}, on_error))
                err = None
            except exceptions.RallyAssertionError as e:
                res, err = None, e
            what = f"execute_single: runner -> {outcome!r}, on-error={on_error}"
            must_raise = ok == "fatal" or (ok is False and on_error == "abort")
            if must_raise and err is None:
                return f"{what}: returned {res} instead of raising (a failed request under on-error=abort / a refused connection must end the race)"
            if not must_raise and err is not None:
                return f"{what}: raised {err}"
            if err is None and bool(res[2].get("success")) != (ok is True):
                return f"{what}: request meta-data says success={res[2].get('success')}"
    try:
        asyncio.run(driver.execute_single(R(KeyError("p")), None, {}, "continue"))
        return "execute_single: a KeyError of the runner (missing parameter) was swallowed"
    except exceptions.SystemSetupError:
        pass
    return None


def main(rec):
    for f in (probe_execute_single, probe_guard, probe_child_exited, probe_benchmark_actor, probe_on_complete):
        try:
            v = f()
        except Exception as ex:  # noqa
            v = probe_exception(f, ex)
        if v:
            done(True, v)
    done(False, "probes pass for " + rec.get("obligation", ""))


if __name__ == "__main__":
    main(load())
