"""Replay for C10: bounded-violation records are re-run through bounded/C10_loader.py; contract violations of parse_task are replayed on a
grid of task specs against the documented rules."""
import itertools
import os
import subprocess
import sys

from common import done, load

rec = load()
if "case" in rec:
    here = os.path.dirname(os.path.dirname(os.path.abspath(__file__)))
    p = subprocess.run([sys.executable, os.path.join(here, "bounded", "C10_loader.py"), "--replay", sys.argv[1]], capture_output=True, text=True)
    print(p.stdout.strip().splitlines()[-1] if p.stdout.strip() else p.stderr[-300:])
    sys.exit(p.returncode)

from esrally.track import loader, track

r = loader.TrackSpecificationReader()
r.name = "t"
ops = {"q": track.Operation("q", "search", {})}
keys = ["warmup-iterations", "iterations", "warmup-time-period", "time-period", "ramp-up-time-period"]
n = 0
for vals in itertools.product((None, 2), (None, 3), (None, 10), (None, 20), (None, 5, 10, 15)):
    for dflt_wi, dflt_ru, cb in itertools.product((None, 1), (None, 5), (None, "q", "any", "other")):
        spec = {"operation": "q"}
        spec.update({k: v for k, v in zip(keys, vals) if v is not None})
        wi = vals[0] if vals[0] is not None else dflt_wi
        it, wt, tp = vals[1], vals[2], vals[3]
        ru = vals[4] if vals[4] is not None else dflt_ru
        bad = (wi is not None and tp is not None) or (wt is not None and it is not None) or ((wi is not None or it is not None) and ru is not None) or (ru is not None and (wt is None or wt < ru))
        n += 1
        try:
            t = r.parse_task(dict(spec), ops, "ch", default_warmup_iterations=dflt_wi, default_ramp_up_time_period=dflt_ru, completed_by_name=cb)
            if bad:
                done(True, f"task spec {spec} (parallel defaults warmup-iterations={dflt_wi}, ramp-up={dflt_ru}) violates a documented rule but was accepted")
            if (t.warmup_iterations, t.iterations, t.warmup_time_period, t.time_period, t.ramp_up_time_period, t.clients) != (wi, it, wt, tp, ru, 1) or t.completes_parent != (cb == "q") or t.any_completes_parent != (cb == "any"):
                done(True, f"task spec {spec} with completed-by {cb}: loaded task has {(t.warmup_iterations, t.iterations, t.warmup_time_period, t.time_period, t.ramp_up_time_period, t.clients, t.completes_parent, t.any_completes_parent)}")
        except loader.TrackSyntaxError:
            if not bad:
                done(True, f"valid task spec {spec} (defaults {dflt_wi}, {dflt_ru}) was rejected")
done(False, f"parse_task agrees with the documented rules on {n} specs for {rec.get('obligation', '')}")
