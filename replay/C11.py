"""Replay for C11: bounded-violation records are re-run through bounded/C11_filters.py; contract violations of the helper functions are
replayed by small concrete probes of the real classes."""
import json
import os
import subprocess
import sys

from common import done, load

rec = load()
if "case" in rec:
    here = os.path.dirname(os.path.dirname(os.path.abspath(__file__)))
    p = subprocess.run([sys.executable, os.path.join(here, "bounded", "C11_filters.py"), "--replay", sys.argv[1]], capture_output=True, text=True)
    print(p.stdout.strip().splitlines()[-1] if p.stdout.strip() else p.stderr[-300:])
    sys.exit(p.returncode)
from esrally.track import track

probs = []
t1 = track.Task("t", track.Operation("o", "search", {}), tags="pre-setup")
t2 = track.Task("t2", track.Operation("o2", "bulk", {}), tags=["a", "b"])
t3 = track.Task("t3", track.Operation("o3", "bulk", {}))
if not isinstance(t1.tags, list) or t1.tags != ["pre-setup"] or t2.tags != ["a", "b"] or t3.tags != []:
    probs.append(f"Task tags are not normalised to a list: {t1.tags!r} {t2.tags!r} {t3.tags!r}")
if track.TaskTagFilter("setup").matches(t1) or not track.TaskTagFilter("pre-setup").matches(t1) or not track.TaskTagFilter("b").matches(t2):
    probs.append("tag filter does not test list membership (e.g. tag:setup matches a task tagged 'pre-setup')")
if not track.TaskNameFilter("t").matches(t1) or track.TaskNameFilter("t").matches(t2):
    probs.append("name filter")
if not track.TaskOpTypeFilter("search").matches(t1) or track.TaskOpTypeFilter("search").matches(t2):
    probs.append("type filter")
par = track.Parallel([t1, t2])
if not par.matches(track.TaskNameFilter("t2")) or par.matches(track.TaskNameFilter("zz")):
    probs.append("Parallel.matches is not 'any sub-task matches'")
done(bool(probs), "; ".join(probs) if probs else "helper probes pass for " + rec.get("obligation", ""))
