"""Replay for C12: real mechanic actors built with __new__ and recording send/createActor stubs; concrete probes of the handler-local
guarantees (failure reporting on daemon departure, one ack slot per ip:port, counting, stop/cleanup)."""
import types

from common import done, load, probe_exception


def mk(cls):
    from esrally.mechanic import mechanic

    a = cls.__new__(cls)
    a.logger = types.SimpleNamespace(**{n: (lambda *x, **k: None) for n in ("info", "debug", "warning", "error", "exception")})
    a.children, a.received_responses, a.status = [], [], None
    a.sent, a.created = [], []
    a.send = lambda target, msg: a.sent.append((target, msg))
    a.createActor = lambda c, **kw: (a.created.append(c) or f"actor-{len(a.created)}")
    a.wakeupAfter = lambda *x, **k: None
    a.notifyOnSystemRegistrationChanges = lambda *x: None
    return a


def probe_departure():
    from esrally import actor
    from esrally.mechanic import mechanic

    d = mk(mechanic.Dispatcher)
    d.start_sender, d.pending, d.remotes = "race-control", [], {"10.0.0.5": ["m"]}
    conv = types.SimpleNamespace(remoteAdded=False, remoteAdminAddress="10.0.0.5:1900", remoteCapabilities={"ip": "10.0.0.5"})
    try:
        d.receiveMsg_ActorSystemConventionUpdate(conv, "system")
    except Exception as ex:  # noqa
        return f"a remote Rally daemon leaving during start-up: Dispatcher.receiveMsg_ActorSystemConventionUpdate raised {type(ex).__name__}: {ex} and sent {d.sent}; a BenchmarkFailure to the start requester was expected"
    if len(d.sent) != 1 or d.sent[0][0] != "race-control" or not isinstance(d.sent[0][1], actor.BenchmarkFailure):
        return f"daemon departure sent {d.sent}"
    return None


def probe_start_engine():
    from esrally.mechanic import mechanic

    class Cfg:
        def opts(self, section, key, **kw):
            if key == "hosts":
                return types.SimpleNamespace(default=[{"host": "127.0.0.1", "port": 39200}, {"host": "127.0.0.1", "port": 39201}, {"host": "10.0.0.7", "port": 9200}])
            return "rev"

    real = mechanic.load_team
    mechanic.load_team = lambda cfg, external: ("car", None)
    try:
        for external in (False, True):
            m = mk(mechanic.MechanicActor)
            msg = mechanic.StartEngine(Cfg(), None, None, None, external, False)
            mechanic.MechanicActor.receiveMsg_StartEngine.__wrapped__(m, msg, "rc") if hasattr(mechanic.MechanicActor.receiveMsg_StartEngine, "__wrapped__") else m.receiveMsg_StartEngine(msg, "rc")
            if external:
                if m.created or len(m.sent) != 1 or not isinstance(m.sent[0][1], mechanic.EngineStarted):
                    return f"external cluster: created {m.created}, sent {m.sent}"
            else:
                if len(m.children) != 3:
                    return f"3 target hosts (127.0.0.1:39200, 127.0.0.1:39201, 10.0.0.7:9200) but {len(m.children)} acknowledgement slots: EngineStarted would be reported after {len(m.children)} of 3 hosts"
                if m.created != [mechanic.Dispatcher] or len(m.sent) != 1 or m.sent[0][1] is not msg or any(isinstance(x[1], mechanic.EngineStarted) for x in m.sent):
                    return f"start: created {m.created}, sent {m.sent}"
    finally:
        mechanic.load_team = real
    return None


def probe_counting():
    from esrally.mechanic import mechanic

    m = mk(mechanic.MechanicActor)
    m.race_control, m.team_revision, m.children, m.status = "rc", "r", [None, None, None], "starting"
    for k in range(3):
        m.receiveMsg_NodesStarted("ack", f"host-{k}")
        started = [x for x in m.sent if isinstance(x[1], mechanic.EngineStarted)]
        if (k < 2 and started) or (k == 2 and len(started) != 1):
            return f"after {k + 1} of 3 NodesStarted acknowledgements race control has received {len(started)} EngineStarted"
    return None


def probe_stop_engine():
    from esrally import exceptions
    from esrally.mechanic import mechanic, provisioner

    calls = []
    real = provisioner.cleanup
    provisioner.cleanup = lambda **kw: calls.append(("cleanup", kw["install_dir"]))
    try:
        for not_found in (False, True):
            del calls[:]
            me = mechanic.Mechanic.__new__(mechanic.Mechanic)
            me.logger = types.SimpleNamespace(**{n: (lambda *x, **k: None) for n in ("info", "debug", "warning", "error", "exception")})
            me.nodes = [types.SimpleNamespace(node_name="n0")]
            me.node_configs = [types.SimpleNamespace(binary_path="/i0", data_paths=["/d0"]), types.SimpleNamespace(binary_path="/i1", data_paths=["/d1"])]
            me.preserve_install = False
            me.launcher = types.SimpleNamespace(stop=lambda nodes, ms: calls.append(("stop",)))
            me.metrics_store = types.SimpleNamespace(flush=lambda refresh=False: calls.append(("flush", refresh)), close=lambda: calls.append(("close",)))

            def current_race():
                if not_found:
                    raise exceptions.NotFound("no race")
                return types.SimpleNamespace(add_results=lambda r: None)

            me._current_race = current_race
            me._add_results = lambda race, node: calls.append(("results", node.node_name))
            me.stop_engine()
            kinds = [c[0] for c in calls]
            if kinds[:2] != ["stop", "flush"] or ("flush", True) not in calls or kinds.count("cleanup") != 2 or kinds.index("close") > kinds.index("cleanup"):
                return f"stop_engine (race record {'missing' if not_found else 'present'}): calls {calls}; expected stop, flush(refresh), [system results], close, one cleanup per node"
    finally:
        provisioner.cleanup = real
    return None


def main(rec):
    for f in (probe_departure, probe_start_engine, probe_counting, probe_stop_engine):
        try:
            v = f()
        except Exception as ex:  # noqa
            v = probe_exception(f, ex)
        if v:
            done(True, v)
    done(False, "probes pass for " + rec.get("obligation", ""))


if __name__ == "__main__":
    main(load())
