"""Replay for C13: concrete probes of the real provisioning / car loading code on temporary directories."""
import os
import tempfile

from common import done, load, probe_exception


class Car:
    def __init__(self, variables, config_paths=()):
        self.variables = variables
        self.config_paths = list(config_paths)
        self.names = ["c"]
        self.name = "c"


def probe_installer():
    from esrally.mechanic import provisioner

    rally = dict(cluster_name="rc", node_name="n0", node_ip="10.0.0.9", http_port=39200)
    car_vars = {"cluster_name": "evil", "node_name": "evil", "data_paths": "/evil", "log_path": "/evil", "heap_dump_path": "/evil", "node_ip": "6.6.6.6", "network_host": "6.6.6.6",
                "http_port": "1", "transport_port": "2", "all_node_ips": "x", "all_node_names": "x", "minimum_master_nodes": 99, "install_root_path": "/evil", "heap_size": "4g"}
    inst = provisioner.ElasticsearchInstaller.__new__(provisioner.ElasticsearchInstaller)
    inst.car = Car(dict(car_vars))
    inst.cluster_name, inst.node_name, inst.node_ip, inst.http_port = rally["cluster_name"], rally["node_name"], rally["node_ip"], rally["http_port"]
    inst.data_paths, inst.node_log_dir, inst.heap_dump_dir = ["/d"], "/l", "/h"
    inst.all_node_ips, inst.all_node_names, inst.es_home_path = ["10.0.0.9"], ["n0"], "/es"
    v = inst.variables
    want = {"cluster_name": "rc", "node_name": "n0", "data_paths": ["/d"], "log_path": "/l", "heap_dump_path": "/h", "node_ip": "10.0.0.9", "network_host": "10.0.0.9",
            "http_port": "39200", "transport_port": "39300", "minimum_master_nodes": 1, "install_root_path": "/es", "heap_size": "4g"}
    for k, w in want.items():
        if v.get(k) != w:
            return f"ElasticsearchInstaller.variables[{k!r}] == {v.get(k)!r} although Rally's own value is {w!r} (car defines {car_vars.get(k)!r})"
    if inst.car.variables != car_vars:
        return "the car's variable map was modified"
    return None


def probe_provisioner_variables():
    from esrally.mechanic import provisioner

    class Plugin:
        def __init__(self, name, variables, moved=False):
            self.name, self.variables, self.moved_to_module, self.config_paths = name, variables, moved, []

    class PI:
        def __init__(self, plugin):
            self.plugin = plugin
            self.variables = plugin.variables
            self.plugin_name = plugin.name

    car_vars = {"cluster_name": "evil", "node_name": "evil", "data_paths": "/evil", "log_path": "/evil", "heap_dump_path": "/evil", "node_ip": "6.6.6.6", "network_host": "6.6.6.6",
                "http_port": "1", "transport_port": "2", "install_root_path": "/evil", "heap_size": "4g", "shared": "car"}
    inst = provisioner.ElasticsearchInstaller.__new__(provisioner.ElasticsearchInstaller)
    inst.car = Car(dict(car_vars))
    inst.cluster_name, inst.node_name, inst.node_ip, inst.http_port = "rc", "n0", "10.0.0.9", 39200
    inst.data_paths, inst.node_log_dir, inst.heap_dump_dir = ["/d"], "/l", "/h"
    inst.all_node_ips, inst.all_node_names, inst.es_home_path = ["10.0.0.9"], ["n0"], "/es"
    for plugins in ([], [PI(Plugin("p1", {"shared": "plugin", "p1_only": 1}))], [PI(Plugin("p1", {"x": 1}, moved=True)), PI(Plugin("p2", {"x": 2}))]):
        p = provisioner.BareProvisioner(inst, plugins)
        v = p._provisioner_variables()
        want = {"cluster_name": "rc", "node_name": "n0", "data_paths": ["/d"], "log_path": "/l", "heap_dump_path": "/h", "node_ip": "10.0.0.9", "network_host": "10.0.0.9",
                "http_port": "39200", "transport_port": "39300", "install_root_path": "/es", "heap_size": "4g"}
        for k, w in want.items():
            if v.get(k) != w:
                return f"BareProvisioner._provisioner_variables()[{k!r}] == {v.get(k)!r} with plugins {[x.plugin_name for x in plugins]}: Rally's / the installer's value is {w!r} (car defines {car_vars.get(k)!r})"
        if plugins and "shared" in plugins[0].variables and v.get("shared") != "plugin":
            return f"a plugin variable does not override the car's: shared == {v.get('shared')!r}"
        if "cluster_settings" not in v:
            return "cluster_settings missing"
    return None


def probe_docker():
    from esrally.mechanic import provisioner

    car_vars = {"cluster_name": "evil", "node_name": "evil", "data_paths": "/evil", "log_path": "/evil", "network_host": "6.6.6.6", "http_port": "1", "heap_size": "4g"}
    with tempfile.TemporaryDirectory() as d:
        p = provisioner.DockerProvisioner(Car(dict(car_vars)), "n0", "rc", "10.0.0.9", 39200, d, "8.0.0", d)
        want = {"cluster_name": "rc", "node_name": "n0", "network_host": "0.0.0.0", "http_port": "39200", "transport_port": "39300", "log_path": "/var/log/elasticsearch",
                "data_paths": ["/usr/share/elasticsearch/data"], "heap_size": "4g"}
        for k, w in want.items():
            if p.config_vars.get(k) != w:
                return f"DockerProvisioner.config_vars[{k!r}] == {p.config_vars.get(k)!r} although Rally's own value is {w!r} (car defines {car_vars.get(k)!r})"
    return None


def probe_cleanup():
    from esrally.mechanic import provisioner

    # data paths elsewhere, below the installation, and siblings whose NAME merely starts with the installation directory's name
    layouts = [("data1", "data2"), ("install/data",), ("install-data", "install.data/d0"), ("data1", "install/data", "installX")]
    for preserve in (True, False):
        for layout in layouts:
            with tempfile.TemporaryDirectory() as d:
                inst, other = os.path.join(d, "install"), os.path.join(d, "other")
                data = [os.path.join(d, x) for x in layout]
                for x in [inst, other] + data:
                    os.makedirs(x, exist_ok=True)
                provisioner.cleanup(preserve, inst, data)
                gone = [x for x in [inst] + data if os.path.exists(x)]
                if preserve and len(gone) != len(data) + 1:
                    return f"cleanup(preserve=True, install, data paths {layout}) removed something: still there {gone}"
                if not preserve and gone:
                    return f"cleanup(preserve=False, install, data paths {layout}) left {[os.path.relpath(x, d) for x in gone]} behind"
                if not os.path.isdir(other):
                    return f"cleanup removed an unrelated directory (data paths {layout})"
    return None


def probe_carloader():
    from esrally.mechanic import team

    with tempfile.TemporaryDirectory() as d:
        os.makedirs(os.path.join(d, "cars", "v1", "vanilla", "templates"))
        open(os.path.join(d, "cars", "v1", "vanilla", "config.ini"), "w").write("[variables]\nheap_size=1g\nbase_only=b\n")
        open(os.path.join(d, "cars", "v1", "4gheap.ini"), "w").write("[meta]\ndescription=x\n[config]\nbase=vanilla\n[variables]\nheap_size=4g\ncar_only=c\n")
        desc = team.CarLoader(d).load_car("4gheap", {"heap_size": "8g", "extra": "e"})
        if desc.variables.get("heap_size") != "8g" or desc.variables.get("extra") != "e" or desc.variables.get("car_only") != "c":
            return f"car 4gheap ([variables] heap_size=4g) loaded with car-params heap_size=8g has variables {desc.variables}"
        desc = team.CarLoader(d).load_car("4gheap", None)
        if desc.variables != {"heap_size": "4g", "car_only": "c"}:
            return f"car 4gheap without parameters has variables {desc.variables}"
        car = team.load_car(d, ["4gheap"], {"heap_size": "8g"})
        if car.variables.get("heap_size") != "8g" or car.variables.get("base_only") != "b":
            return f"composed car variables {car.variables}"
    return None


def probe_plain_text():
    from esrally.mechanic import provisioner

    templ = {".ini", ".txt", ".json", ".yml", ".yaml", ".options", ".properties"}
    exts = sorted(templ) + ["", ".", ".js", ".ya", ".prop", ".option", ".t", ".i", ".jar", ".so", ".bin", ".keystore", ".sh", ".policy", ".xml", ".tar.gz", ".yml.bak", ".JSON", ".yaml "]
    for stem in ("elasticsearch", "jvm", "a.b", ".hidden", "dir.d/file"):
        for e in exts:
            name = stem + e
            want = os.path.splitext(name)[1] in templ
            got = provisioner.plain_text(name)
            if bool(got) != want:
                return f"plain_text({name!r}) = {got!r}: a file is a template exactly if its whole extension is one of {sorted(templ)}"
    return None


def main(rec):
    for f in (probe_installer, probe_provisioner_variables, probe_docker, probe_cleanup, probe_carloader, probe_plain_text):
        try:
            v = f()
        except Exception as ex:  # noqa
            v = probe_exception(f, ex)
        if v:
            done(True, v)
    done(False, "probes pass for " + rec.get("obligation", ""))


if __name__ == "__main__":
    main(load())
