"""Replay for C14: concrete probes of the real download / decompression / preparation / offset-table code.
The failed obligation's function selects which probes run first; all probes are scenario grids on the REAL functions with their
file-system / network neighbours replaced by scripted fakes (or real temporary files where that is simpler)."""
import contextlib
import io as _io
import os
import sys
import tempfile
import urllib.error
from unittest import mock

from common import done, load, probe_exception

import urllib3.exceptions


# ------------------------------------------------------------------------------------------------ net.download
def probe_download():
    from esrally import exceptions
    from esrally.utils import net

    body = b"x" * 1000
    for scheme in ("http", "s3"):
        for written, returned, declared, boom in [
            (1000, 1000, 1000, None), (1000, None, None, None), (400, 1000, 1000, None), (1000, 1000, 999, None), (400, None, 1000, None),
            (400, None, None, KeyboardInterrupt()), (400, None, 1000, urllib.error.HTTPError("u", 500, "", None, None)), (0, None, None, OSError("disk")),
            (400, None, 1000, urllib3.exceptions.ProtocolError("dropped")),
        ]:
            for preexisting in (False, True):
                with tempfile.TemporaryDirectory() as d:
                    target = os.path.join(d, "docs.json.bz2")
                    if preexisting:
                        open(target, "wb").write(b"OLD")
                    seen = []

                    def fetch(*a):
                        path = a[2] if scheme == "s3" else a[1]
                        seen.append(path)
                        if written:
                            open(path, "wb").write(body[:written])
                        if boom is not None:
                            raise boom
                        # like the real fetchers: the caller's expected size wins
                        exp = a[3] if scheme == "s3" else a[2]
                        return exp if exp is not None else returned

                    what = f"net.download({scheme}://.., declared size {declared}); fetch wrote {written} bytes, returned {returned}, raised {type(boom).__name__ if boom else None}; final file before: {preexisting}"
                    with mock.patch.object(net, "download_http", fetch), mock.patch.object(net, "download_from_bucket", fetch):
                        try:
                            net.download(f"{scheme}://host/docs.json.bz2", target, declared)
                            err = None
                        except BaseException as e:  # noqa
                            err = e
                    final = open(target, "rb").read() if os.path.isfile(target) else None
                    expected_size = declared if declared is not None else returned
                    complete = boom is None and (expected_size is None or expected_size == written)
                    if seen and seen[0] == target:
                        return f"{what}: the fetch was pointed at the FINAL name"
                    if os.path.exists(target + ".tmp"):
                        return f"{what}: {target}.tmp left behind"
                    if complete and (err is not None or final != body[:written]):
                        return f"{what}: expected the complete file under the final name, got {type(err).__name__ if err else 'a different file'}"
                    if not complete:
                        if err is None:
                            return f"{what}: returned normally"
                        if boom is None and not isinstance(err, exceptions.DataError):
                            return f"{what}: raised {type(err).__name__}, expected DataError"
                        if boom is not None and err is not boom:
                            return f"{what}: raised {type(err).__name__} instead of the fetch's own error"
                        if final != (b"OLD" if preexisting else None):
                            return f"{what}: a partial file ({None if final is None else len(final)} bytes) stands under the final name"
    return None


def probe_download_http():
    from esrally.utils import net

    PE, RT = urllib3.exceptions.ProtocolError, urllib3.exceptions.ReadTimeoutError
    http = urllib.error.HTTPError("u", 503, "", None, None)
    scripts = [[PE("x")] * k + [77] for k in range(0, 11)] + [[RT(None, "u", "x")] * 3 + [5], [PE("x")] * 11, [RT(None, "u", "x")] * 11, [http], [PE("x"), http], [OSError("x")], [PE("x")] * 10 + [http]]
    for script in scripts:
        calls, sleeps = [], []

        def attempt(url, path, exp, prog):
            calls.append(path)
            r = script[len(calls) - 1]
            if isinstance(r, BaseException):
                raise r
            return r

        with mock.patch.object(net, "_download_http", attempt):
            try:
                res, err = net.download_http("http://h/f", "/p/f.tmp", None, None, sleep=sleeps.append), None
            except BaseException as e:  # noqa
                res, err = None, e
        what = f"download_http with attempt outcomes {[type(x).__name__ if isinstance(x, BaseException) else x for x in script]}"
        n = len(calls)
        if n > 11:
            return f"{what}: {n} attempts"
        if any(p != "/p/f.tmp" for p in calls):
            return f"{what}: an attempt wrote to {calls}"
        last = script[n - 1]
        if sleeps != [5] * (n - 1):
            return f"{what}: pauses {sleeps} for {n} attempts"
        if any(not isinstance(x, (PE, RT)) for x in script[: n - 1]):
            return f"{what}: retried after {type(script[n - 2]).__name__}"
        if isinstance(last, BaseException):
            if err is not last:
                return f"{what}: raised {type(err).__name__ if err else None}, the last attempt raised {type(last).__name__}"
            if isinstance(last, (PE, RT)) and n != 11:
                return f"{what}: gave up after {n} attempts"
        elif err is not None or res != last:
            return f"{what}: returned {res!r} / raised {err!r}"
    return None


class FakeResp:
    def __init__(self, status, chunks, length):
        self.status, self.chunks, self.length = status, chunks, length

    def __enter__(self):
        return self

    def __exit__(self, *a):
        return False

    def getheader(self, name, default=None):
        return default if self.length is None else str(self.length)

    def stream(self, n):
        return iter(self.chunks)


def probe_attempt():
    from esrally.utils import net

    for status in (200, 204, 206, 299, 300, 301, 304, 399, 400, 404, 500, 503):
        for declared in (None, 12):
            for length in (None, 12, "abc"):
                with tempfile.TemporaryDirectory() as d:
                    p = os.path.join(d, "f.tmp")
                    with mock.patch.object(net, "_request", lambda *a, **k: FakeResp(status, [b"hello ", b"world!"], length)):
                        try:
                            res, err = net._download_http("http://h/f", p, declared, None), None
                        except BaseException as e:  # noqa
                            res, err = None, e
                    content = open(p, "rb").read() if os.path.exists(p) else None
                    what = f"_download_http: HTTP {status}, Content-Length {length!r}, declared size {declared}"
                    if status > 299:
                        if not isinstance(err, urllib.error.HTTPError):
                            return f"{what}: {'returned ' + repr(res) if err is None else 'raised ' + type(err).__name__}; the body of a non-2xx answer was stored ({content!r})"
                        if content:
                            return f"{what}: {len(content)} body bytes were stored before the HTTPError"
                    else:
                        if err is not None:
                            return f"{what}: raised {type(err).__name__}"
                        if content != b"hello world!":
                            return f"{what}: stored {content!r}"
                        want = declared if declared is not None else (12 if length == 12 else None)
                        if res != want:
                            return f"{what}: size to verify against is {res!r}, expected {want!r}"
    return None


# ------------------------------------------------------------------------------------------------ loader
class FakeFS:
    """path -> size; scripted downloader / decompressor effects"""

    def __init__(self, files):
        self.files = dict(files)
        self.log = []

    def isfile(self, p):
        return p in self.files

    def getsize(self, p):
        if p not in self.files:
            raise FileNotFoundError(p)
        return self.files[p]


def probe_decompressor_downloader():
    from esrally import exceptions
    from esrally.track import loader
    from esrally.utils import io, net

    # Decompressor.decompress
    for produced in (None, 100, 99):
        for declared in (None, 100):
            fs = FakeFS({"/d/a.bz2": 10})

            def dec(a, t):
                fs.log.append(("decompress", a, t))
                if produced is not None:
                    fs.files["/d/docs.json"] = produced

            with mock.patch.object(io, "decompress", dec), mock.patch("os.path.isfile", fs.isfile), mock.patch("os.path.getsize", fs.getsize), mock.patch("esrally.utils.console.info"), mock.patch("esrally.utils.console.println"):
                try:
                    loader.Decompressor().decompress("/d/a.bz2", "/d/docs.json", declared)
                    err = None
                except BaseException as e:  # noqa
                    err = e
            ok = produced is not None and (declared is None or produced == declared)
            what = f"Decompressor.decompress: archive produced {produced} bytes, declared {declared}"
            if fs.log != [("decompress", "/d/a.bz2", "/d")]:
                return f"{what}: io.decompress calls {fs.log}"
            if ok and err is not None:
                return f"{what}: raised {type(err).__name__}"
            if not ok and not isinstance(err, exceptions.DataError):
                return f"{what}: {'returned normally' if err is None else 'raised ' + type(err).__name__} (DataError expected)"
    # Downloader.download
    http404 = urllib.error.HTTPError("u", 404, "nf", None, None)
    for base_url in (None, "", "http://h/c", "http://h/c/"):
        for offline in (False, True):
            for outcome in ("ok", "short", "long", "missing", http404, urllib.error.URLError("dns"), exceptions.DataError("corrupt"), OSError("disk")):
                for declared in (None, 100):
                    fs = FakeFS({})

                    def dl(url, path, size, progress_indicator=None):
                        fs.log.append((url, path, size))
                        if isinstance(outcome, BaseException):
                            raise outcome
                        if outcome != "missing":
                            fs.files[path] = {"ok": 100, "short": 40, "long": 140}[outcome]

                    with mock.patch.object(net, "download", dl), mock.patch("os.path.isfile", fs.isfile), mock.patch("os.path.getsize", fs.getsize), mock.patch.object(io, "ensure_dir"):
                        try:
                            loader.Downloader(offline=offline, test_mode=False).download(base_url, "/d/docs.json.bz2", declared)
                            err = None
                        except BaseException as e:  # noqa
                            err = e
                    what = f"Downloader.download(base_url={base_url!r}, declared {declared}), offline={offline}, net.download -> {outcome if isinstance(outcome, str) else type(outcome).__name__}"
                    if not base_url or offline:
                        if fs.log:
                            return f"{what}: the network was used ({fs.log})"
                        want = exceptions.DataError if not base_url else exceptions.SystemSetupError
                        if not isinstance(err, want):
                            return f"{what}: {'returned' if err is None else 'raised ' + type(err).__name__}, expected {want.__name__}"
                        continue
                    if fs.log != [("http://h/c/docs.json.bz2", "/d/docs.json.bz2", declared)]:
                        return f"{what}: net.download calls {fs.log}"
                    good = outcome == "ok" or (outcome in ("short", "long") and declared is None)
                    if good and err is not None:
                        return f"{what}: raised {type(err).__name__}"
                    if not good:
                        if err is None:
                            return f"{what}: returned normally"
                        if isinstance(outcome, OSError) and not isinstance(outcome, urllib.error.URLError):
                            if err is not outcome:
                                return f"{what}: raised {type(err).__name__}"
                        elif not isinstance(err, (exceptions.DataError, exceptions.SystemSetupError)):
                            return f"{what}: raised {type(err).__name__}, expected a Rally DataError / SystemSetupError"
    return None


def probe_preparator():
    from esrally import exceptions
    from esrally.track import loader, track
    from esrally.utils import io

    DOC, ARC = "/data/docs.json", "/data/docs.json.bz2"
    # the declared number of lines: 2 per document when the file carries action-and-meta-data lines
    for with_meta, lines_read, ok in ((False, 10, True), (False, 20, False), (True, 20, True), (True, 10, False)):
        docs = track.Documents(source_format="bulk", document_file="docs.json", number_of_documents=10, includes_action_and_meta_data=with_meta, uncompressed_size_in_bytes=100)
        fs = FakeFS({DOC: 100})
        with mock.patch("os.path.isfile", fs.isfile), mock.patch("os.path.getsize", fs.getsize), mock.patch.object(io, "prepare_file_offset_table", lambda p: lines_read), mock.patch.object(io, "remove_file_offset_table"):
            try:
                loader.DocumentSetPreparator("t", None, None).prepare_document_set(docs, "/data")
                err = None
            except exceptions.DataError as e:
                err = e
        if (err is None) != ok:
            return f"prepare_document_set: 10 documents, action-and-meta-data lines {with_meta}, file has {lines_read} lines: {'accepted' if err is None else 'rejected'}"
    sizes = (None, 100, 60)  # absent, right, wrong
    for bundled in (False, True):
        for doc0 in sizes:
            for arc0 in sizes:
                for has_archive in (True, False):
                    for declare in (True, False):
                        for dl_result in ("ok", "bad", "fail"):
                            for dec_result in (100, 60, None):
                                for lines in (10, 11, None):
                                    files = {}
                                    if doc0 is not None:
                                        files[DOC] = doc0
                                    if arc0 is not None and has_archive:
                                        files[ARC] = arc0
                                    fs = FakeFS(files)
                                    steps = [0]

                                    class Dl:
                                        def download(self, base_url, target, size):
                                            steps[0] += 1
                                            if steps[0] > 6:
                                                raise RuntimeError("probe: preparation does not terminate")
                                            fs.log.append(("download", target, size))
                                            if dl_result == "fail":
                                                raise exceptions.DataError("download failed")
                                            fs.files[target] = (100 if target == DOC else 50) if dl_result == "ok" else 7
                                            if size is not None and fs.files[target] != size:
                                                raise exceptions.DataError("corrupt download")  # as the real Downloader does (its own contract)

                                    class Dec:
                                        def decompress(self, a, dpath, size):
                                            steps[0] += 1
                                            if steps[0] > 6:
                                                raise RuntimeError("probe: preparation does not terminate")
                                            fs.log.append(("decompress", a, dpath, size, fs.files.get(a)))
                                            if dec_result is None:
                                                raise exceptions.DataError("archive produced nothing")
                                            fs.files[dpath] = dec_result
                                            if size is not None and dec_result != size:
                                                raise exceptions.DataError("corrupt")

                                    def table(path):
                                        fs.log.append(("table", path, fs.files.get(path)))
                                        return lines

                                    docs = track.Documents(
                                        source_format="bulk", document_file="docs.json", document_archive="docs.json.bz2" if has_archive else None, base_url="http://h",
                                        number_of_documents=10, compressed_size_in_bytes=50 if declare else None, uncompressed_size_in_bytes=100 if declare else None,
                                    )
                                    if has_archive and arc0 == 100:
                                        fs.files[ARC] = 50  # "right" size of the archive is 50
                                    prep = loader.DocumentSetPreparator("t", Dl(), Dec())
                                    removed = []
                                    with mock.patch("os.path.isfile", fs.isfile), mock.patch("os.path.getsize", fs.getsize), mock.patch.object(io, "prepare_file_offset_table", table), mock.patch.object(io, "remove_file_offset_table", removed.append):
                                        try:
                                            r = (prep.prepare_bundled_document_set if bundled else prep.prepare_document_set)(docs, "/data")
                                            err = None
                                        except BaseException as e:  # noqa
                                            r, err = None, e
                                    what = (f"{'prepare_bundled_document_set' if bundled else 'prepare_document_set'}: document file initially {doc0}, archive {arc0 if has_archive else 'not in corpus'} "
                                            f"(sizes {'declared 100/50' if declare else 'undeclared'}), download -> {dl_result}, decompress -> {dec_result}, lines read {lines} of 10; trace {fs.log}")
                                    if isinstance(err, RuntimeError):
                                        return f"{what}: {err}"
                                    if err is None and (r is True or not bundled):
                                        # returned: the document file is there, with the declared size, the table was built for it and the line count matched
                                        if fs.files.get(DOC) is None or (declare and fs.files[DOC] != 100):
                                            return f"{what}: returned although the document file is {fs.files.get(DOC)}"
                                        if not fs.log or fs.log[-1][:2] != ("table", DOC):
                                            return f"{what}: returned without building the offset table for the document file"
                                        if lines == 11:
                                            return f"{what}: returned although the file has 11 lines instead of 10"
                                    if err is None and bundled and r is False and fs.files.get(DOC) is not None and doc0 is not None:
                                        return f"{what}: said 'not here' although the document file is present"
                                    if err is not None and not isinstance(err, (exceptions.DataError, exceptions.SystemSetupError, exceptions.RallyAssertionError)):
                                        return f"{what}: raised {type(err).__name__}: {err}"
                                    if lines == 11 and err is not None and fs.log and fs.log[-1][0] == "table" and removed != [DOC]:
                                        return f"{what}: the offset table of a rejected file was not removed"
                                    for ev in fs.log:
                                        if ev[0] == "decompress" and (ev[1] != ARC or (declare and ev[4] != 50)):
                                            return f"{what}: decompressed {ev[1]} of size {ev[4]} (declared 50)"
                                        if ev[0] == "download" and ev[1] != (ARC if has_archive else DOC):
                                            return f"{what}: downloaded to {ev[1]}"
    return None


# ------------------------------------------------------------------------------------------------ io
def probe_decompress_dispatch():
    from esrally.utils import io

    want = {".zip": "extract", ".tar": "extract", ".tar.gz": "extract", ".tgz": "extract", ".tar.bz2": "extract", ".bz2": "bz2", ".gz": "gzip", ".zst": "ZstAdapter"}
    for ext in list(want) + [".rar", ".7z", ".json", ""]:
        log = []
        with mock.patch.object(io, "_do_decompress", lambda t, f: log.append(("extract", t))), mock.patch.object(
            io, "_do_decompress_manually", lambda t, n, args, lib: log.append((getattr(lib, "__module__", "") if lib is not io.ZstAdapter else "ZstAdapter", t, n))
        ), mock.patch("zipfile.ZipFile"), mock.patch("tarfile.open"):
            try:
                io.decompress("/d/archive" + ext, "/d")
                err = None
            except BaseException as e:  # noqa
                err = e
        what = f"io.decompress('/d/archive{ext}')"
        if ext in want:
            if err is not None or len(log) != 1 or log[0][0] != want[ext] or log[0][1] != "/d":
                return f"{what}: handler calls {log}, error {err!r}; expected one {want[ext]} call"
        elif not isinstance(err, RuntimeError) or log:
            return f"{what}: unsupported extension gave {err!r}, calls {log} (explicit RuntimeError expected)"
    # fallback to the library
    for executable in (False, True):
        for tool_ok in (False, True):
            log = []
            with mock.patch.object(io, "is_executable", lambda b: executable), mock.patch.object(io, "_do_decompress_manually_external", lambda *a: (log.append("tool"), tool_ok)[1]), mock.patch.object(
                io, "_do_decompress_manually_with_lib", lambda t, n, f: log.append(("lib", f))
            ):
                io._do_decompress_manually("/d", "/d/a.bz2", ["pbzip2", "-d"], lambda n: "libfile:" + n)
            want_log = (["tool"] if executable else []) + ([] if executable and tool_ok else [("lib", "libfile:/d/a.bz2")])
            if log != want_log:
                return f"_do_decompress_manually: tool present {executable}, tool succeeded {tool_ok}: steps {log}, expected {want_log}"
    return None


def probe_table_build_and_read():
    from esrally.utils import io

    with contextlib.redirect_stdout(_io.StringIO()):
        with tempfile.TemporaryDirectory() as d:
            p = os.path.join(d, "docs.json")
            offs = [0]
            with open(p, "wb") as f:
                for i in range(120_000):
                    line = ('{"i": %d, "n": "%s"}\n' % (i, "Zürich 日本" if i % 3 == 0 else "x")).encode()
                    f.write(line)
                    offs.append(offs[-1] + len(line))
            n = io.prepare_file_offset_table(p)
            if n != 120_000:
                return f"prepare_file_offset_table returned {n} for a file of 120000 lines"
            table = open(p + ".offset").read()
            if table != f"50000;{offs[50000]}\n100000;{offs[100000]}\n":
                return f"offset table {table!r}, expected entries (50000, {offs[50000]}), (100000, {offs[100000]})"
            if os.path.exists(p + ".offset.tmp"):
                return "temporary table left behind after a complete build"
            # an I/O error / Ctrl-C in the middle of the build: nothing may appear under the final name
            os.remove(p + ".offset")
            real_open = open
            for boom in (OSError("read error"), KeyboardInterrupt()):

                class Failing:
                    def __init__(self, f):
                        self.f, self.n = f, 0

                    def __enter__(self):
                        return self

                    def __exit__(self, *a):
                        self.f.close()
                        return False

                    def readline(self):
                        self.n += 1
                        if self.n > 70_000:
                            raise boom
                        return self.f.readline()

                    def tell(self):
                        return self.f.tell()

                def open_(file, *a, **k):
                    f = real_open(file, *a, **k)
                    return Failing(f) if file == p else f

                with mock.patch("builtins.open", open_):
                    try:
                        io.prepare_file_offset_table(p)
                        return "an error while reading the data file was swallowed by prepare_file_offset_table"
                    except BaseException as e:  # noqa
                        if e is not boom:
                            return f"table build interrupted by {type(boom).__name__} raised {type(e).__name__}: {e}"
                left = sorted(os.listdir(d))
                if left != ["docs.json"]:
                    return f"table build interrupted by {type(boom).__name__} after 70000 lines left {left} behind (a partial table that is newer than the data file counts as valid)"
    # reading: find_closest_offset / skip_lines on synthetic tables
    class Reader:
        def __init__(self):
            self.log = []

        def seek(self, o):
            self.log.append(("seek", o))

        def readline(self):
            self.log.append("readline")

    tables = [[], [(50000, 111)], [(50000, 111), (100000, 222)], [(50000, 111), (100000, 222), (150000, 333)]]
    for entries in tables:
        for n in (0, 1, 49999, 50000, 50001, 99999, 100000, 100001, 150000, 170000):
            with tempfile.TemporaryDirectory() as d:
                p = os.path.join(d, "docs.json")
                open(p, "w").close()
                if entries:
                    open(p + ".offset", "w").write("".join(f"{a};{b}\n" for a, b in entries))
                r = Reader()
                io.skip_lines(p, r, n)
                what = f"skip_lines({n}) with table {entries}"
                if n == 0:
                    if r.log:
                        return f"{what}: reader touched: {r.log[:3]}"
                    continue
                if not r.log or r.log[0][0] != "seek" or any(x != "readline" for x in r.log[1:]):
                    return f"{what}: reader operations {r.log[:4]}.."
                o, rem = r.log[0][1], len(r.log) - 1
                ok = (o == 0 and rem == n) or any(b == o and a <= n and rem == n - a for a, b in entries)
                if not ok:
                    return f"{what}: seek({o}) + {rem} lines does not end after line {n}"
    return None


PROBES = [
    ("download_http", probe_download_http), ("_download_http", probe_attempt), ("download", probe_download), ("Decompressor", probe_decompressor_downloader), ("Downloader", probe_decompressor_downloader),
    ("DocumentSetPreparator", probe_preparator), ("decompress", probe_decompress_dispatch), ("_do_decompress_manually", probe_decompress_dispatch),
    ("prepare_file_offset_table", probe_table_build_and_read), ("find_closest_offset", probe_table_build_and_read), ("skip_lines", probe_table_build_and_read),
]


def main(rec):
    import logging

    logging.disable(logging.CRITICAL)
    target = rec.get("target", "").split("::")[-1]
    ordered = sorted(PROBES, key=lambda kv: 0 if target.startswith(kv[0]) or target.endswith(kv[0]) else 1)
    ran = set()
    for _, f in ordered:
        if f in ran:
            continue
        ran.add(f)
        try:
            with contextlib.redirect_stdout(_io.StringIO()):
                v = f()
        except Exception as ex:  # noqa
            v = probe_exception(f, ex)
        if v:
            done(True, v)
    done(False, "probes pass for " + rec.get("obligation", ""))


if __name__ == "__main__":
    main(load())
