"""Replay for C15: versions.best_match / latest_bounded_minor on enumerated branch sets against an independent statement of the
documented precedence (exact suffix, exact patch, exact minor, nearest prior minor of the same major incl. minor 0, major, master
only when newer than every versioned branch, else None)."""
import itertools
import re

from common import done, load

SCHEME = re.compile(r"^(\d+)(?:\.(\d+)(?:\.(\d+)(?:-(.+))?)?)?$")


def parse(b):
    m = SCHEME.match(b)
    if not m:
        return None
    return tuple(int(x) if x is not None and i < 3 else x for i, x in enumerate(m.groups()))


def documented(alts, version):
    if version is None or version == "" or version == "serverless":
        return "master"
    m = re.match(r"^(\d+)\.(\d+)\.(\d+)(?:-(.+))?$", version)
    if not m:
        return None
    M, mi, p, s = int(m.group(1)), int(m.group(2)), int(m.group(3)), m.group(4)
    if s and f"{M}.{mi}.{p}-{s}" in alts:
        return f"{M}.{mi}.{p}-{s}"
    if f"{M}.{mi}.{p}" in alts:
        return f"{M}.{mi}.{p}"
    if f"{M}.{mi}" in alts:
        return f"{M}.{mi}"
    prior = [parse(a)[1] for a in alts if parse(a) and parse(a)[0] == M and parse(a)[1] is not None and parse(a)[2] is None and parse(a)[1] <= mi]
    if prior:
        return f"{M}.{max(prior)}"
    if f"{M}" in alts:
        return f"{M}"
    majors = [parse(a)[0] for a in alts if parse(a)]
    if all(M > x for x in majors):
        return "master"
    return None


def main(rec):
    from esrally.utils import versions

    pool = ["master", "5", "6", "7", "7.0", "7.2", "7.10", "7.11", "7.10.2", "7.10.2-SNAPSHOT", "8", "8.0", "unrelated-branch"]
    vers = ["7.3.0", "7.10.2", "7.10.2-SNAPSHOT", "7.0.0", "7.1.0", "8.0.0", "8.5.1", "9.0.0", "6.5.0", None, "serverless", "", "not-a-version"]
    n = 0
    for k in range(0, 5):
        for alts in itertools.combinations(pool, k):
            for v in vers:
                n += 1
                try:
                    got = versions.best_match(list(alts), v)
                except Exception as ex:  # noqa
                    got = f"raised {type(ex).__name__}"
                want = documented(alts, v)
                if got != want:
                    done(True, f"best_match({list(alts)}, {v!r}) returned {got!r}; the documented precedence gives {want!r}")
    done(False, f"no failing input among {n} (branch set, version) pairs for {rec['obligation']}")


if __name__ == "__main__":
    main(load())
