"""Replay for C16: drive the REAL runner.Retry.__call__ with scripted delegate outcomes and a recording asyncio.sleep;
oracle = the property statement (attempt budget, one wait between attempts, what is retried, what is returned/raised)."""
import asyncio
import itertools
import sys

from common import done, load


def kinds():
    import socket

    import elastic_transport
    import elasticsearch

    def meta(status):
        return elastic_transport.ApiResponseMeta(status=status, http_version="1.1", headers=elastic_transport.HttpHeaders(), duration=0.0,
                                                 node=elastic_transport.NodeConfig("http", "h", 9200))

    return {
        "ok": lambda: {"weight": 1, "success": True},
        "ok-nokey": lambda: {"weight": 1},
        "fail": lambda: {"success": False},
        "nondict": lambda: (1, "ops"),
        "sock": lambda: socket.timeout("s"),
        "connerr": lambda: elasticsearch.ConnectionError("c"),
        "conntimeout": lambda: elasticsearch.ConnectionTimeout("t"),
        "api408": lambda: elasticsearch.ApiError(message="m", meta=meta(408), body={}),
        "api500": lambda: elasticsearch.ApiError(message="m", meta=meta(500), body={}),
        "transport": lambda: elastic_transport.SerializationError("x"),
        "keyerror": lambda: KeyError("k"),
    }


TIMEOUTISH = {"sock", "connerr", "conntimeout", "api408"}


def expected(seq, p, default_rus):
    """(attempts, index of the outcome that is returned/raised, waits) per the property"""
    rus = p.get("retry-until-success", default_rus)
    max_attempts = None if rus else p.get("retries", 0) + 1
    roe = True if rus else p.get("retry-on-error", False)
    rot = p.get("retry-on-timeout", True)
    for i, k in enumerate(seq):
        last = max_attempts is not None and i + 1 == max_attempts
        retry = (k in TIMEOUTISH and rot) or (k == "fail" and roe)
        if last or not retry:
            return i + 1, i
    return None


def run_one(K, seq, p, default_rus, prior=None):
    from esrally.driver import runner

    calls, produced, waits = [0], [], []

    async def delegate(es, params):
        calls[0] += 1
        v = K[seq[calls[0] - 1]]()
        produced.append(v)
        if isinstance(v, BaseException):
            raise v
        return v

    r = runner.Retry(delegate, retry_until_success=default_rus)
    if prior is not None:
        # an earlier call on the SAME instance (Rally registers one Retry per operation type and reuses it)
        async def d0(es, params):
            return {"success": True}

        r0 = runner.Retry(d0, retry_until_success=default_rus)
        asyncio.run(r0(None, prior))
        r0.delegate = delegate
        r = r0

    async def fake_sleep(t):
        waits.append((calls[0], t))

    real = runner.asyncio.sleep
    runner.asyncio.sleep = fake_sleep
    try:
        try:
            out = ("ret", asyncio.run(r(None, p)))
        except IndexError:
            out = ("script-exhausted", None)
        except BaseException as ex:  # noqa
            out = ("exc", ex)
    finally:
        runner.asyncio.sleep = real
    return calls[0], produced, waits, out


def violation(K, seq, p, default_rus, prior=None):
    exp = expected(seq, p, default_rus)
    if exp is None:
        return None
    attempts, idx = exp
    calls, produced, waits, out = run_one(K, seq, p, default_rus, prior)
    w = p.get("retry-wait-period", 0.5)
    if calls != attempts:
        return f"{calls} attempts, the property requires {attempts}"
    if out[0] == "script-exhausted" or out[1] is not produced[idx]:
        return f"returned/raised {out[1]!r}, not what attempt {idx + 1} produced ({produced[idx]!r})"
    if [c for c, _ in waits] != list(range(1, attempts)) or any(t != w for _, t in waits):
        return f"waits {waits} are not exactly one wait of {w}s after each of the first {attempts - 1} attempts"
    return None


def main(rec):
    K = kinds()
    if "known_input" in rec:
        ki = rec["known_input"]
        v = violation(K, ki["outcomes"], ki["params"], ki.get("default_rus", False))
        done(bool(v), f"Retry with delegate outcomes {ki['outcomes']} and params {ki['params']}: {v}")
    base = ["ok", "ok-nokey", "fail", "nondict", "sock", "connerr", "conntimeout", "api408", "api500", "keyerror"]
    plist = []
    for retries, roe, rot, rus in itertools.product((None, 0, 1, 3), (None, True, False), (None, True, False), (None, True, False)):
        p = {"retry-wait-period": 7.0} if retries != 1 else {}
        if retries is not None:
            p["retries"] = retries
        if roe is not None:
            p["retry-on-error"] = roe
        if rot is not None:
            p["retry-on-timeout"] = rot
        if rus is not None:
            p["retry-until-success"] = rus
        plist.append(p)
    n = 0
    for L in (1, 2, 3, 4):
        for seq in itertools.product(base, repeat=L):
            if L == 4 and seq[3] not in ("ok", "api500"):
                continue
            for p in plist:
                for drus in (False, True):
                    if expected(seq, p, drus) is None or expected(seq, p, drus)[0] != L:
                        continue
                    n += 1
                    v = violation(K, list(seq), p, drus)
                    if v:
                        done(True, f"Retry(retry_until_success={drus}) with delegate outcomes {list(seq)} and params {p}: {v}")
    # two calls on one instance: the first call's parameters must not influence the second
    for drus in (False, True):
        for prior in ({"retry-until-success": True}, {"retry-until-success": False}, {"retries": 4, "retry-on-error": True}):
            for seq in (["fail", "fail", "fail", "ok"], ["sock", "sock", "sock", "ok"], ["ok"]):
                for p in ({}, {"retries": 1}, {"retries": 1, "retry-on-error": True}):
                    n += 1
                    v = violation(K, seq, p, drus, prior)
                    if v:
                        done(True, f"Retry(retry_until_success={drus}) after an earlier call with params {prior}: delegate outcomes {seq} and params {p}: {v}")
    done(False, f"no failing outcome sequence among {n} for {rec['obligation']}")


if __name__ == "__main__":
    main(load())
