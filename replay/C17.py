"""Replay for C17: drive the REAL EsClient.guarded with scripted delegate outcomes (bounded enumeration seeded by the failed
obligation), virtual sleep; oracle = the property statement (retry classes, <= 10 retries, growing pauses, error mapping)."""
import itertools
import sys

from common import done, load


def make_env():
    import elastic_transport
    import elasticsearch
    import elasticsearch.helpers

    from esrally import exceptions, metrics

    def meta(status):
        return elastic_transport.ApiResponseMeta(status=status, http_version="1.1", headers=elastic_transport.HttpHeaders(), duration=0.0,
                                                 node=elastic_transport.NodeConfig("http", "h", 9200))

    def api(status):
        cls = {401: elasticsearch.AuthenticationException, 403: elasticsearch.AuthorizationException}.get(status, elasticsearch.ApiError)
        return cls(message="m", meta=meta(status), body={})

    kinds = {
        "ok": lambda: "VALUE",
        "timeout": lambda: elasticsearch.ConnectionTimeout("t"),
        "connerr": lambda: elasticsearch.ConnectionError("c"),
        "authn": lambda: api(401),
        "authz": lambda: api(403),
        "api429": lambda: api(429),
        "api502": lambda: api(502),
        "api503": lambda: api(503),
        "api504": lambda: api(504),
        "api500": lambda: api(500),
        "api404": lambda: api(404),
        "bulk429": lambda: elasticsearch.helpers.BulkIndexError("b", [{"index": {"status": 429, "error": {"type": "x"}}}, {"index": {"status": 503}}]),
        "bulk400": lambda: elasticsearch.helpers.BulkIndexError("b", [{"index": {"status": 429}}, {"index": {"status": 400, "error": {"type": "y"}}}]),
        "transport": lambda: elastic_transport.TransportError("x"),
    }
    return metrics, exceptions, kinds


RETRYABLE = {"timeout", "connerr", "api429", "api502", "api503", "api504", "bulk429"}


def expected(seq):
    """(calls, result) per the property: retry retryables up to 10 times; first success returned; else error kind"""
    calls = 0
    for k in seq:
        calls += 1
        if k == "ok":
            return calls, "VALUE"
        if k in ("authn", "authz"):
            return calls, "SystemSetupError"
        if k not in RETRYABLE or calls == 11:
            return calls, "RallyError"
    return None


def run_one(metrics, exceptions, kinds, seq):
    import time as _time
    import random as _random

    class Node:
        host, port = "h", 9200

    class Pool:
        def get(self):
            return Node()

    class Transport:
        node_pool = Pool()

    class Raw:
        transport = Transport()

    c = metrics.EsClient(Raw())
    calls, sleeps = [0], []
    it = iter(seq)

    def target(*a, **kw):
        calls[0] += 1
        v = kinds[next(it)]()
        if isinstance(v, BaseException):
            raise v
        return v

    real_sleep = metrics.time.sleep
    metrics.time.sleep = lambda s: sleeps.append(s)
    try:
        try:
            res = c.guarded(target)
        except exceptions.SystemSetupError:
            res = "SystemSetupError"
        except exceptions.RallyError:
            res = "RallyError"
        except StopIteration:
            res = "script-exhausted"
        except BaseException as ex:  # noqa
            res = "escaped:" + type(ex).__name__
    finally:
        metrics.time.sleep = real_sleep
    return calls[0], res, sleeps


def sequences():
    base = ["ok", "timeout", "connerr", "authn", "authz", "api429", "api500", "api404", "bulk429", "bulk400", "transport", "api503"]
    for n in (1, 2, 3):
        for seq in itertools.product(base, repeat=n):
            if expected(seq) is not None:
                yield list(seq)
    for r in ("timeout", "api429", "bulk429", "connerr"):
        for n in (9, 10, 11, 12):
            for tail in ("ok", "api500", r):
                yield [r] * n + [tail] * 3


def main(rec):
    metrics, exceptions, kinds = make_env()
    n = 0
    for seq in sequences():
        exp = expected(seq)
        if exp is None:
            continue
        n += 1
        calls, res, sleeps = run_one(metrics, exceptions, kinds, seq)
        if (calls, res) != exp:
            done(True, f"guarded with delegate outcomes {seq[:exp[0] + 1]}: {calls} calls -> {res}; the property requires {exp[0]} calls -> {exp[1]}")
        if len(sleeps) != calls - 1 or any(not (2**k <= s < 2**k + 1) for k, s in enumerate(sleeps)) or any(b <= a for a, b in zip(sleeps, sleeps[1:])):
            done(True, f"guarded with delegate outcomes {seq[:calls]}: pauses {sleeps} are not one growing pause in [2^k, 2^k+1) per retry")
    c = metrics.EsClient(object())
    if sorted(c.retryable_status_codes) != [429, 502, 503, 504]:
        done(True, f"retryable statuses are {c.retryable_status_codes}")
    done(False, f"no failing outcome sequence among {n} for {rec['obligation']}")


if __name__ == "__main__":
    main(load())
