"""Replay for C18: real RequestContextHolder / RequestContextManager with nested and concurrent sub-request contexts (asyncio tasks,
explicit interleavings); the outer request must record (earliest start, latest end) of all wire requests, an empty child changes nothing."""
import asyncio
import itertools

from common import done, load


async def scenario(children, order):
    """children: list of (start, end) or None (no wire request); order: the order in which the children's contexts are closed"""
    from esrally.client import context

    holder = context.RequestContextHolder()
    gates = [asyncio.Event() for _ in children]
    closed = [asyncio.Event() for _ in children]

    async def child(i, timing):
        with holder.new_request_context() as ctx:
            if timing is not None:
                holder.update_request_start(timing[0])
                holder.update_request_end(timing[1])
            await gates[i].wait()
            own = (ctx.request_start, ctx.request_end)
        closed[i].set()
        return own

    with holder.new_request_context() as outer:
        tasks = [asyncio.ensure_future(child(i, t)) for i, t in enumerate(children)]
        await asyncio.sleep(0)
        for i in order:
            gates[i].set()
            await closed[i].wait()
        owns = await asyncio.gather(*tasks)
        return (outer.request_start, outer.request_end), owns


def main(rec):
    cases = []
    timings = [(1.0, 10.0), (2.0, 5.0), (3.0, 12.0), None]
    for n in (1, 2, 3):
        for ch in itertools.permutations(timings, n):
            for order in itertools.permutations(range(n)):
                cases.append((list(ch), list(order)))
    for ch, order in cases:
        try:
            (s, e), owns = asyncio.run(scenario(ch, order))
        except Exception as ex:  # noqa
            done(True, f"sub-requests {ch} closed in order {order}: {type(ex).__name__}: {ex}")
        real = [c for c in ch if c is not None]
        want = (min(c[0] for c in real), max(c[1] for c in real)) if real else (None, None)
        if (s, e) != want:
            done(True, f"concurrent sub-requests with (start, end) {ch} closed in order {order}: the outer request records {(s, e)}, earliest start / latest end is {want}")
        for c, own in zip(ch, owns):
            if (c or (None, None)) != own:
                done(True, f"sub-request {c} reports its own timing as {own}")
    # sub-requests issued one after the other inside one outer context: each one's own timing covers exactly its own wire requests
    from esrally.client import context

    holder = context.RequestContextHolder()
    seq = [(1.0, 10.0), (20.0, 30.0), (40.0, 45.0)]
    with holder.new_request_context() as outer:
        for k, (a, b) in enumerate(seq):
            with holder.new_request_context() as sub:
                empty = (sub.request_start, sub.request_end)
                holder.update_request_start(a)
                holder.update_request_end(b)
                own = (sub.request_start, sub.request_end)
            if empty != (None, None):
                done(True, f"sub-request #{k} of a sequence {seq} starts with the timing {empty} before it issued any request (a fresh context must be empty)")
            if own != (a, b):
                done(True, f"sub-request #{k} of a sequence {seq} reports its own timing as {own}, its wire request ran {(a, b)}")
        if (outer.request_start, outer.request_end) != (1.0, 45.0):
            done(True, f"outer request of the sequence {seq} records {(outer.request_start, outer.request_end)}")
    done(False, f"no failing scenario among {len(cases) + 1} for {rec['obligation']}")


if __name__ == "__main__":
    main(load())
