"""Replay for C19: bounded-violation / known-finding records are re-run through bounded/C19_parsing.py; bulk accounting violations are replayed
on enumerated bulk responses against a full parse."""
import io
import itertools
import json
import os
import subprocess
import sys

from common import done, load

rec = load()
if "case" in rec or "known_input" in rec:
    here = os.path.dirname(os.path.dirname(os.path.abspath(__file__)))
    p = subprocess.run([sys.executable, os.path.join(here, "bounded", "C19_parsing.py"), "--replay", sys.argv[1]], capture_output=True, text=True)
    print(p.stdout.strip().splitlines()[-1] if p.stdout.strip() else p.stderr[-300:])
    sys.exit(p.returncode)

from esrally.driver import runner

ITEMS = [
    {"index": {"status": 201, "_shards": {"total": 2, "successful": 2, "failed": 0}}},
    {"index": {"status": 429, "error": {"type": "x", "reason": "rejected"}}},
    {"index": {"status": 429, "error": {"type": "x", "reason": "rejected"}}},
    {"index": {"status": 500, "error": "boom"}},
    {"create": {"status": 200, "_shards": {"total": 2, "successful": 1, "failed": 1}}},
    {"index": {"status": 404}},
]
b = runner.BulkIndex()
n = 0
for k in range(1, 5):
    for items in itertools.product(ITEMS, repeat=k):
        n += 1
        failed = sum(1 for it in items for d in it.values() if d["status"] > 299 or d.get("_shards", {}).get("failed", 0) > 0)
        resp = {"took": 3, "errors": failed > 0, "items": list(items)}
        raw = io.BytesIO(json.dumps(resp).encode())
        fast = b.simple_stats(len(items), "docs", raw)
        det = b.detailed_stats({"action-metadata-present": True, "body": ["{}"] * (2 * len(items))}, resp)
        for name, st in (("fast path", fast), ("detailed path", det)):
            if st["error-count"] != failed or st["success-count"] != len(items) - failed or st["success"] != (failed == 0):
                done(True, f"bulk response with item statuses {[list(i.values())[0]['status'] for i in items]} ({failed} failed): {name} reports success={st['success']} "
                           f"success-count={st['success-count']} error-count={st['error-count']}")
done(False, f"bulk accounting agrees with the full parse on {n} responses for {rec.get('obligation', '')}")
