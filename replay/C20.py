"""Replay for C20: ComparisonReporter._diff / _line on concrete values with real colour codes, checked against the
property statement (sign, direction colour, zero-printing differences neutral, plain output without colour)."""
import ast
import itertools
import re
import sys

from common import conv, done, load

ANSI = re.compile(r"\x1b\[[0-9;]*m")


def reporter(plain):
    from esrally import reporter as rep
    from esrally.utils import console

    console.format = console.RichFormat
    r = rep.ComparisonReporter.__new__(rep.ComparisonReporter)
    r.plain = plain
    return r, console


def diff_violation(b, c, tiai, pct, plain, fmt=lambda x: x):
    r, console = reporter(plain)
    got = r._diff(b, c, tiai, fmt, pct) if pct else r._diff(b, c, tiai, fmt)
    d = ((c - b) / b * 100.0 if b else 0) if pct else fmt(c - b)
    prec, suffix = (2, "%") if pct else (5, "")
    text = f"{d:.{prec}f}{suffix}"
    stripped = ANSI.sub("", got)
    prints_zero = float(f"{d:.{prec}f}") == 0
    if plain and stripped != got:
        return f"plain output contains colour codes: {got!r}"
    want_cls = 1 if d >= 10**-prec else (-1 if d <= -(10**-prec) else 0)
    if prints_zero:
        want_cls = 0
    if want_cls == 1:
        want = "+" + text
        col = console.format.green if tiai else console.format.red
    elif want_cls == -1:
        want = text
        col = console.format.red if tiai else console.format.green
    else:
        want = text
        col = console.format.neutral
    if stripped != want:
        return f"text {stripped!r}, expected {want!r}"
    if not plain and got != col(want):
        return f"colour/marking {got!r}, expected {col(want)!r}"
    return None


def replay_diff(rec):
    inp = rec["inputs"]
    b, c = conv(inp.get("baseline")), conv(inp.get("contender"))
    cands = []
    if isinstance(b, (int, float)) and isinstance(c, (int, float)):
        cands.append((float(b), float(c)))
    for base in (0.0, 1.0, 100.0, -5.0, 250000.0, 0.003):
        for delta in (0, 1e-6, 4e-6, 5e-6, 9e-6, 1e-5, 2e-5, 1e-3, 4e-3, 5e-3, 1e-2, 0.5, 3.0):
            for sgn in (1, -1):
                cands.append((base, base + sgn * delta))
                cands.append((base, base * (1 + sgn * delta / 100)))
    n = 0
    for (b_, c_), tiai, pct, plain in itertools.product(cands, (True, False), (True, False), (True, False)):
        n += 1
        v = diff_violation(b_, c_, tiai, pct, plain)
        if v:
            done(True, f"_diff(baseline={b_!r}, contender={c_!r}, treat_increase_as_improvement={tiai}, as_percentage={pct}, plain={plain}): {v}")
    done(False, f"no failing input among {n} candidates for {rec['obligation']}")


def replay_line(rec):
    r, console = reporter(False)
    for b, c in ((None, 1.0), (1.0, None), (None, None), (1.0, 2.0), (2.0, 1.0), (0.0, 0.0)):
        row = r._line("m", b, c, "t", "u", False)
        if (b is None or c is None) != (row == []):
            done(True, f"_line(baseline={b}, contender={c}) returned {row}")
        if row and (len(row) != 7 or row[0] != "m" or row[2] != b or row[3] != c or row[5] != "u"):
            done(True, f"_line(baseline={b}, contender={c}) returned {row}")
    done(False, "no failing input for _line")


def replay_sites(rec):
    import esrally.reporter as rep

    tree = ast.parse(open(rep.__file__).read())
    for node in ast.walk(tree):
        if isinstance(node, ast.Call) and isinstance(node.func, ast.Attribute) and node.func.attr == "_line" and ast.unparse(node.func.value) == "self":
            label = ast.unparse(node.args[0])
            flag = next((kw.value for kw in node.keywords if kw.arg == "treat_increase_as_improvement"), node.args[5] if len(node.args) > 5 else None)
            val = getattr(flag, "value", None)
            if val != ("throughput" in label.lower()):
                done(True, f"reporter.py line {node.lineno}: metric {label} is reported with treat_increase_as_improvement={val}")
    done(False, "all call sites consistent")


if __name__ == "__main__":
    rec = load()
    if rec.get("target", "").endswith("GlobalStats.metrics"):
        import os
        import sys

        sys.path.insert(0, os.path.join(os.path.dirname(os.path.abspath(__file__)), "..", "bounded"))
        from C08_results import check_lookup

        p_ = check_lookup()
        done(bool(p_), p_[0] if p_ else "GlobalStats.metrics lookup table passes")
    if "failed_sites" in rec:
        replay_sites(rec)
    if rec["target"].endswith("_diff"):
        replay_diff(rec)
    if rec["target"].endswith("_line"):
        replay_line(rec)
    done(False, "no adapter for " + rec.get("target", "?"))
