"""Shared helpers for replay adapters (run under /venv/bin/python with PYTHONPATH=$VERIF_REPO:/verif)."""
import json
import sys


def load(path=None):
    with open(path or sys.argv[1]) as f:
        return json.load(f)


def conv(node, maxlen=2000):
    """model template -> python value (lists truncated to the model's length, capped)"""
    if node is None:
        return None
    if not isinstance(node, dict) or "$" not in node:
        return node
    k = node["$"]
    if k in ("int", "bool"):
        if node.get("none") is True:
            return None
        return node["v"]
    if k == "real":
        if node.get("none") is True:
            return None
        v = node["v"]
        return v["float"] if isinstance(v, dict) else float(v) if v is not None else 0.0
    if k in ("str", "any"):
        return f"s{node['v']}"
    if k == "list":
        n = node["len"] if isinstance(node["len"], int) else 0
        items = [conv(x, maxlen) for x in node["items"]]
        n = max(0, min(n, maxlen))
        out = items[:n]
        while len(out) < n and items:
            out.append(items[-1] if not isinstance(items[-1], (dict, list)) else json.loads(json.dumps(items[-1])))
        return out
    if k == "rec":
        return {f: conv(v, maxlen) for f, v in node["fields"].items()}
    if k == "tuple":
        return tuple(conv(v, maxlen) for v in node["items"])
    if k == "obj":
        return {"$cls": node["cls"], **{f: conv(v, maxlen) for f, v in node["fields"].items()}}
    return None


def done(reproduced, msg):
    print(("REPRODUCED: " if reproduced else "NOT-REPRODUCED: ") + msg)
    sys.exit(1 if reproduced else 0)


def probe_exception(f, ex):
    """An exception escaping a probe: a finding only if it was raised INSIDE the code under test (innermost frame in the repository);
    an exception raised by the probe script itself is a probe error and never counts as a reproduction."""
    import traceback

    frames = traceback.extract_tb(ex.__traceback__)
    inner = frames[-1].filename if frames else ""
    where = f"{inner.split('/')[-1]}:{frames[-1].lineno}" if frames else "?"
    if "/replay/" in inner or "/bounded/" in inner or inner.endswith("common.py"):
        print(f"PROBE-ERROR: {f.__name__} raised {type(ex).__name__}: {ex} at {where} (error of the probe, not of the code under test)")
        return None
    return f"{f.__name__}: the code under test raised {type(ex).__name__}: {ex} at {where}"
