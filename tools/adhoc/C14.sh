#!/bin/bash
. /verif/tools/adhoc/lib.sh
N=esrally/utils/net.py; L=esrally/track/loader.py; I=esrally/utils/io.py
mut C14 net-size-lt $N "if expected_size_in_bytes is not None and download_size != expected_size_in_bytes:" "if expected_size_in_bytes is not None and download_size < expected_size_in_bytes:"
mut C14 net-except-exception $N "    except BaseException:
        if os.path.isfile(tmp_data_set_path):" "    except Exception:
        if os.path.isfile(tmp_data_set_path):"
mut C14 net-direct-final $N "expected_size_in_bytes = download_http(url, tmp_data_set_path, expected_size_in_bytes, progress_indicator)" "expected_size_in_bytes = download_http(url, local_path, expected_size_in_bytes, progress_indicator)"
mut C14 net-retry-12 $N "            if i == HTTP_DOWNLOAD_RETRIES:
                raise" "            if i > HTTP_DOWNLOAD_RETRIES:
                raise"
mut C14 net-retry-http $N "        except (urllib3.exceptions.ProtocolError, urllib3.exceptions.ReadTimeoutError) as exc:" "        except (urllib3.exceptions.HTTPError, urllib.error.HTTPError) as exc:"
mut C14 prep-break-or $L "if self.is_locally_available(doc_path) and self.has_expected_size(doc_path, document_set.uncompressed_size_in_bytes):
                break" "if self.is_locally_available(doc_path) or self.has_expected_size(doc_path, document_set.uncompressed_size_in_bytes):
                break"
mut C14 prep-size-ge $L "return expected_size is None or os.path.getsize(file_name) == expected_size" "return expected_size is None or os.path.getsize(file_name) >= expected_size"
mut C14 dl-size-lt $L "if size_in_bytes is not None and actual_size != size_in_bytes:" "if size_in_bytes is not None and actual_size < size_in_bytes:"
mut C14 dl-offline-off $L "        if self.offline:
            raise exceptions.SystemSetupError(f\"Cannot find [{target_path}]. Please disable offline mode and retry.\")
" ""
mut C14 table-keep-rejected $L "            io.remove_file_offset_table(document_file_path)
" ""
mut C14 dec-no-isfile $L "        if not os.path.isfile(documents_path):
            raise exceptions.DataError(
                f\"Decompressing [{archive_path}] did not create [{documents_path}]. Please check with the track \"
                f\"author if the compressed archive has been created correctly.\"
            )
" ""
mut C14 lines-x1 esrally/track/track.py "return self.number_of_documents * 2" "return self.number_of_documents"
mut C14 bundled-table-wrong-path $L "self.create_file_offset_table(doc_path, document_set.number_of_lines)
                    return True" "self.create_file_offset_table(archive_path, document_set.number_of_lines)
                    return True"
mut C14 prep-archive-size-skip $L "                and self.has_expected_size(archive_path, document_set.compressed_size_in_bytes)
" ""
mut C14 io-gz-uses-bz2 $I "decompressor_lib_gzip = gzip.open" "decompressor_lib_gzip = bz2.open"
mut C14 io-no-fallback $I "        if _do_decompress_manually_external(target_directory, filename, base_path_without_extension, decompressor_args):
            return" "        _do_decompress_manually_external(target_directory, filename, base_path_without_extension, decompressor_args)
        return"
mut C14 io-tgz-dropped $I 'elif extension in [".tar", ".tar.gz", ".tgz", ".tar.bz2"]:' 'elif extension in [".tar", ".tar.gz", ".tar.bz2"]:'
mut C14 io-unknown-silent $I '        raise RuntimeError("Unsupported file extension [%s]. Cannot decompress [%s]" % (extension, zip_name))' '        logging.getLogger(__name__).warning("Unsupported file extension [%s]. Cannot decompress [%s]", extension, zip_name)'
mut C14 tbl-revert-fix $I 'path = f"{self.offset_table_path}.tmp" if self.mode.startswith("w") else self.offset_table_path' 'path = self.offset_table_path'
mut C14 tbl-replace-always $I '            if exc_type is None:
                os.replace' '            if True:
                os.replace'
mut C14 tbl-every-50001 $I 'if line_number % 50000 == 0:' 'if line_number % 50001 == 0:'
mut C14 tbl-remaining-off-by-one $I "                prior_remaining_lines = target_line_number - line_number" "                prior_remaining_lines = target_line_number - line_number + 1"
mut C14 tbl-skip-range-minus1 $I "        for _ in range(remaining_lines):" "        for _ in range(remaining_lines - 1):"
mut C14 tbl-swapped-fields $I "            line_number, offset_in_bytes = (int(i) for i in line.strip().split(\";\"))" "            offset_in_bytes, line_number = (int(i) for i in line.strip().split(\";\"))"
echo "-- harmless edits (must stay green):"
mut C14 harmless-closest-lt $I "            if line_number <= target_line_number:" "            if line_number < target_line_number:"
