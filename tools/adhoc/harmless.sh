#!/bin/bash
# behaviour-preserving edits: every one of these must stay GREEN (exit 0) -- a non-zero exit here is a false alarm of the machinery
. /verif/tools/adhoc/lib.sh
mut C18 harmless-nested-if esrally/client/context.py '        if new_request_start is not None and ("request_start" not in meta or new_request_start < meta["request_start"]):
            meta["request_start"] = new_request_start' '        if new_request_start is not None:
            if "request_start" not in meta or meta["request_start"] > new_request_start:
                meta["request_start"] = new_request_start'
mut C11 harmless-swapped-operands esrally/track/track.py '        return self.name == task.name' '        return task.name == self.name'
mut C08 harmless-rank-rearranged esrally/metrics.py '        rank = float(percentile) / 100.0 * (len(sorted_values) - 1)' '        rank = (len(sorted_values) - 1) * float(percentile) / 100.0'
mut C13 harmless-extra-log esrally/mechanic/provisioner.py '        for path in data_paths:
            delete_path(path)' '        for path in data_paths:
            logger.debug("Considering data path [%s].", path)
            delete_path(path)'
mut C14 harmless-retry-constant esrally/utils/net.py '    for i in range(HTTP_DOWNLOAD_RETRIES + 1):' '    attempts = HTTP_DOWNLOAD_RETRIES + 1
    for i in range(attempts):'
mut C15 harmless-early-continue esrally/utils/versions.py '    for a in alternatives:' '    for a in list(alternatives):'
mut C16 harmless-renamed-local esrally/driver/runner.py '            last_attempt = attempt + 1 == max_attempts' '            last_attempt = (attempt + 1) == max_attempts'
mut C20 harmless-write-order esrally/reporter.py '    print_internal(formatter(headers, data_rich))' '    rich_table = formatter(headers, data_rich)
    print_internal(rich_table)'
mut C19 harmless-pagination-null-order esrally/driver/runner.py '            elif in_object and event in ["null", "boolean", "integer", "double", "number", "string"]:' '            elif in_object and event in ["boolean", "integer", "double", "number", "string", "null"]:'
