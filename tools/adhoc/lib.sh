# ad-hoc property-breaking edits used while building a check: each is applied to a scratch copy of /repo/esrally (never to /repo),
# the check runs with --repo, the copy is removed.   usage: mut PROP name file 'old text' 'new text'
mut() { prop=$1; name=$2; file=$3; scr=$(mktemp -d /tmp/mut.XXXXXX); cp -r /repo/esrally $scr/; OLD="$4" NEW="$5" python3 - $scr/$file <<'EOF' || { echo "== $name: mutation failed"; rm -rf $scr; return; }
import sys,os
p=sys.argv[1]; s=open(p).read(); old=os.environ['OLD']; new=os.environ['NEW']
assert s.count(old)>=1, "pattern not found"
open(p,'w').write(s.replace(old,new,1))
EOF
echo "== $name"; (cd /verif && ./check $prop --repo $scr 2>&1 | grep -v "^  C[0-9]*/" | tail -${TAILN:-3}); rm -rf $scr; }
