"""debug: tools/debug_ob.py PROP CONTRACT_IDX OBL_SUBSTR [WHERE] [--n K] [--extra 'spec expr' ...] [--eval 'spec expr' ...]"""
import sys, os, time
sys.path.insert(0,'/verif'); os.chdir('/verif')
import z3
from pyvc import run, smt, builtins as bi
from pyvc.engine import Contract, Engine, State, parse_spec
from pyvc.extract import RepoIndex
from pyvc.types import V, vint, R
args = sys.argv[1:]
prop, idx, sub = args[0], int(args[1]), args[2]
where = args[3] if len(args) > 3 and not args[3].startswith('--') else None
def opt(name):
    out=[]; 
    for i,a in enumerate(args):
        if a==name: out.append(args[i+1])
    return out
nth = int(opt('--n')[0]) if opt('--n') else 0
cm = run.load_contracts(prop); run.load_facts()
if opt('--repo'): os.environ['VERIF_REPO']=opt('--repo')[0]
repo = RepoIndex(); cs = [Contract(d) for d in cm.CONTRACTS]; c = cs[idx]
E = Engine(repo, c, {x.qual:x for x in cs}); obs = E.explore()
R_ = run.Runner(prop)
cands = [o for o in obs if sub in o.id and (where is None or where == o.where)]
print(len(cands), 'candidates; using', nth)
ob = cands[nth]
print(ob.id, ob.where, ob.env.get('trail'))
hint_fn = R_.hints_for(E, ob)
def setup(sk):
    st = E.st = State(); st.vars = dict(ob.env['vars']); st.heap = ob.env['heap'].copy(); st.nref = ob.env['nref']; st.labels = dict(ob.env['labels'])
    for c_ in sk: st.vars[str(c_).split('!')[1]] = V('real' if c_.sort()==R else 'int', c_)
    if ob.idx: st.vars['_i'] = vint(ob.idx[-1])
    return st
if opt('--goal'):
    st = setup([]); st.spec += 1
    ob.goal = E.truthy(E.ev(parse_spec(opt('--goal')[0])))
subs = smt.split_goal(smt.flatten_hyps(ob.pc), ob.goal, [])
for k,(pc2,g,sk) in enumerate(subs):
    hints = hint_fn(sk)
    st = setup(sk)
    extra = []
    st.spec += 1
    for x in opt('--extra'):
        extra.append(E.truthy(E.ev(parse_spec(x))))
    stages = smt.build_stages(pc2 + extra, g, sk, ob.idx, hints, c.float)
    t=time.time()
    for label, asserts in stages:
        s = z3.Solver(); s.set('timeout', 20000); s.add(*asserts); r = s.check()
        print(f'  sub {k} {label}: {r} {time.time()-t:.2f}s  goal: {str(g)[:150]!r}'.replace('\n',' '))
        if r == z3.unsat: break
        if r == z3.sat and label in ('qf','full'):
            m = s.model()
            for x in opt('--eval'):
                try: print('     ', x, '=', m.eval(E.ev(parse_spec(x)).z, model_completion=True))
                except Exception as ex: print('     ', x, 'ERR', ex)
            for c_ in sk: print('     ', c_, '=', m.eval(c_, model_completion=True))
if opt('--pc'):
    for h in smt.flatten_hyps(ob.pc):
        t = str(h).replace('\n',' ')
        if opt('--pc')[0] in t: print('PC>', t[:int(opt('--pc')[1]) if len(opt('--pc'))>1 else 900]); print()
if opt('--dump'):
    pc2,g,sk = subs[0]
    stages = smt.build_stages(pc2, g, sk, ob.idx, hint_fn(sk), c.float)
    open(opt('--dump')[0],'w').write(smt.to_smt2(dict(stages)['full']))
if opt('--atom'):
    from pyvc.types import atom_name
    for a in opt('--atom'): print('ATOM', a, repr(atom_name(int(a))))
if opt('--core'):
    hs = [h for h in smt.flatten_hyps(ob.pc)]
    s2 = z3.Solver(); s2.set(unsat_core=True); s2.set('timeout', 20000)
    for i,h in enumerate(hs): s2.assert_and_track(h, f'h{i}')
    print('PC check:', s2.check())
    for x in s2.unsat_core(): print('CORE>', str(hs[int(str(x)[1:])])[:400].replace('\n',' '))
