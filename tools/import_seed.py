#!/usr/bin/env python3
"""Copy a confirmed candidate (verifyK.json ok) from the sub-agent's output dir into /verif/seeded/<id>_m<k>/."""
import json, os, shutil, sys
src, k = sys.argv[1].rstrip("/"), sys.argv[2]
pid = os.path.basename(src)
v = json.load(open(f"{src}/verify{k}.json"))
assert v["ok"], v
dst = f"/verif/seeded/{pid}_m{k}"
os.makedirs(dst, exist_ok=True)
shutil.copy(f"{src}/patch{k}.diff", f"{dst}/patch.diff")
shutil.copy(f"{src}/demo{k}.py", f"{dst}/demo.py")
notes = open(f"{src}/notes{k}.md").read() if os.path.exists(f"{src}/notes{k}.md") else ""
open(f"{dst}/notes.md", "w").write(notes)
meta = {
    "property": pid,
    "origin": "fresh sub-agent given only the property text and its own scratch worktree",
    "needs_to_manifest": "see notes.md",
    "confirmed_by": {
        "script": "tools/verify_seed.py (scratch worktree under /tmp/vs, removed afterwards)",
        "demo_on_clean_tree_exit": v["demo_clean_rc"],
        "demo_with_patch_exit": v["demo_patched_rc"],
        "demo_with_patch_output_tail": v["demo_patched_tail"][-400:],
        "full_suite_with_patch": f"all {v['stable_pass']} stable_pass tests of BASELINE.json still pass" if v.get("suite_ok") else "NOT CONFIRMED",
        "suite_seconds": v.get("suite_s"),
    },
    "detected_by": None,
}
json.dump(meta, open(f"{dst}/meta.json", "w"), indent=1)
print(dst)
