#!/usr/bin/env python3
"""merge sweep logs: later files override earlier rows with the same (seed, check). usage: merge_sweeps.py out.log in1.log in2.log ..."""
import re, sys
rows, order = {}, []
for f in sys.argv[2:]:
    for line in open(f, errors="replace"):
        m = re.match(r"(C\d\d_m\d+) check=(C\d\d) rc=", line)
        if m:
            k = (m.group(1), m.group(2))
            if k not in rows:
                order.append(k)
            rows[k] = line if line.endswith("\n") else line + "\n"
open(sys.argv[1], "w").writelines(rows[k] for k in sorted(order))
print(len(rows), "rows")
