#!/usr/bin/env python3
"""Regenerate MANIFEST.json from the table below (kept in one place so claims and not_applicable stay consistent)."""
import json, os
HERE = os.path.dirname(os.path.dirname(os.path.abspath(__file__)))
props = [json.loads(l) for l in open(os.path.join(HERE, "properties.jsonl"))]
TECH = "contract-based deductive verification: VCs generated from the real AST by PyVC, discharged by z3 5.1 / cvc5"
CLAIMS = {
    "C02": dict(
        text="Proofs (unbounded, SMT-discharged): calculate_worker_assignments against a closed-form postcondition (one entry per host, `cores` worker slots, worker w of host h holds exactly the contiguous ids base(h)+S(w).., ranges tile [0,client_count), loads differ by <=1, the internal assert never fires); Allocator.clients (width = max(1, max element clients)); Allocator.allocations as a shape proof over all seven loops (rows are distinct fresh lists, round-robin row lengths L0 + c//n + [r < c%n], None padding makes the matrix rectangular, every row ends with the same join point whose id is the element count so far, a join point's client lists start empty with every element) plus ghost assertions at every allocation (leaf task, client index within the task = loop index - start in 0..clients-1, element-wide index, total_clients = the ELEMENT's clients); TaskAllocation.__init__; Driver.start_benchmark (every worker is started with exactly the matrix rows of the clients assigned to it, ids are valid rows). BOUNDED stand-in: the finished matrix / join_points / tasks_per_joinpoint of the real Allocator for 1350 schedules against the property wording.",
        note="Assumes: float rounding model for ceil(c/h) (c<=2^40, hosts<=2^20); x.clients is a pure function of a schedule element while the matrix is built; Task/Parallel.__iter__ are `return iter(<list>)` (checked syntactically each run); Allocator loops may modify any object created by the call (modifies_fresh). 'Every (task, client index) exactly once' over the finished matrix and join_points/tasks_per_joinpoint are bounded only. Trusted: PyVC, z3/cvc5.",
        design="§4 C02; §8",
    ),
    "C03": dict(
        text='Proofs: bounds() returns exactly (L*R(start), R(end+1)-R(start), L*docs) with R(i)=round(fl(fl(total/num)*i)) under the float rounding model, plus lemmas R(0)=0, R(num)=total, R monotone, adjacent ranges abut (disjoint, contiguous, complete slices for ANY split of clients; total<=10^12, clients<=2^20); GenerateActionMetaData.__next__ (each fresh id handed out exactly once in order; a simulated conflict targets an id that HAS ALREADY been used, never index -1 / an unused id; StopIteration exactly when ids are exhausted); the line-offset table contracts of C14 (one entry per 50000 lines = tell() after that line, moved into place only when complete; lookup + skip end after line n). BOUNDED stand-in: offset table == skipping lines one by one on real files incl. multi-byte and CRLF content. PartitionBulkIndexParamSource._init_internal_params: the bulks a worker will send are counted with the same corpora, partition range and BULK size the reader chain is built with; total_bulks is the ceiling of the ingest-percentage share.',
        note="Float rounding model (|fl(x)-x|<=2^-53|x|, monotone, exact on small integers), round-half-even; ids <= 2^40. Text-mode tell() as byte offset is bounded only. Readers' bulk cutting (Slice/IndexDataReader) and the corpus/client partition in PartitionBulkIndexParamSource are not under contract.",
        design="§4 C03; §8",
    ),
    "C08": dict(
        text='Proofs: percentile_value equals the linear-interpolation definition for every sorted non-empty list and 0<=p<=100, within [min,max], p100=max, p0=min, p50=median, never out of range, lemma non-decreasing in p; GlobalStats.metrics returns the FIRST record filed under the task name (records with a task name are never found through their operation name; loop invariant). percentiles_for_sample_size: total function of the count only, raises below 1, strictly ascending in (0,100], ends with 100, 50 first from two samples on, one more 9 per decade (exact ladder). InMemoryMetricsStore.get_percentiles: queries the store with exactly the caller-given name/task/operation-type/SAMPLE-TYPE filters, sorts those values, and reports every requested percentile under its own key with the interpolation value over the sorted values (loop invariant; percentile_value used by contract); get_stats: None iff no values, count = number of values, min/max attained and bounding every value. Call-site obligations (syntactic): every store query behind the per-task result metrics passes sample_type=SampleType.Normal. BOUNDED stand-in: the real GlobalStatsCalculator on 40 generated in-memory stores (normal samples only, p50=median within [min,max], percentile set by NORMAL sample count, error rate), metrics lookup table, race.json round trip incl. zero-valued metrics.',
        note='Exact-real arithmetic for floats; sorted() is an assumed external (same length, ascending, rearrangement); statistics.mean / sum uninterpreted. Store filters (_get), error rate, result assembly (GlobalStatsCalculator.__call__, summary_stats, single_latency) and persistence are bounded or call-site only, not proved.',
        design="§4 C08; §8",
    ),
    "C20": dict(
        text='Proof of ComparisonReporter._diff (sign, threshold, direction colour, plain output, zero-printing differences neutral, self-comparison neutral) for all reals and every formatter; _line row shape; convert formatters linear; swap lemmas; GlobalStats.metrics (the per-task record both races are read from: first record filed under the task name); 33 call-site obligations: treat_increase_as_improvement is True iff the metric is a throughput. write_single_report: the console shows the formatter applied to the rich rows, the report file gets the same formatter applied to the PLAIN rows (ghost event trace).',
        note='Exact-real arithmetic; number formatting and colour functions are uninterpreted. tabulate/csv rendering and relative difference for zero/opposite-sign baselines not decided.',
        design="§4 C20; §8",
    ),
}
CLAIMS["C15"] = dict(
    text="Proof that best_match returns exactly the documented precedence (exact suffix, exact patch, exact minor, LARGEST prior minor of the same major incl. minor 0, major, master only when newer than every versioned branch, else None) for every branch list and version; latest_bounded_minor and _latest_major under contract with loop invariants; called by contract from best_match. RallyRepository.update: with a remote match exactly that branch is checked out (a failed rebase alone is tolerated with a warning); a failed git checkout / branch listing is never swallowed (DataError); no local branch or tag is a SystemSetupError.",
    note="The regular expressions / components() are represented by assumed spec functions with scheme axioms (listed in evidence), not proved. Git side (RallyRepository.update) not under contract. One genuine defect (minor 0) was found by this check and repaired by a fix: commit.",
    design="§4 C15",
)
CLAIMS["C16"] = dict(
    text="Proof over all delegate outcome sequences (unbounded length) that Retry.__call__ makes <= retries+1 attempts, waits exactly retry-wait-period once between attempts, retries only timeouts/connection errors/HTTP 408 under retry-on-timeout and unsuccessful dict results under retry-on-error, returns/raises exactly what the last attempt produced, and leaves its own configuration untouched (frame). Ghost trace of call/sleep events with a loop invariant. Call-site obligations (syntactic; docs/track.rst vs the real AST): each of the 34 operations documented as retryable is registered by register_default_runners wrapped in Retry(..).",
    note="Delegate outcomes are an assumed enumeration of classes (evidence); except-matching uses issubclass facts dumped from the installed libraries. One known finding (other TransportErrors are swallowed and retried without waiting) is listed in known_findings.txt and excluded by path tag only.",
    design="§4 C16",
)
CLAIMS["C17"] = dict(
    text="Proof over all delegate outcome sequences that EsClient.guarded makes <= 11 attempts, pauses in [2^k,2^k+1) after the k-th failure (strictly growing), retries exactly timeouts, connection errors, HTTP 429/502/503/504 and bulk errors whose every item is retryable, returns the first success without repeating the call, and maps auth errors to SystemSetupError and everything else / exhaustion to RallyError; __init__ establishes the status list; 13 call-site obligations: every store operation routes through guarded exactly once with no library-side retry option, and the delegate it hands over is an eager call of the raw client (or the eager bulk helper), never a generator function whose requests would be sent outside the retry loop.",
    note="Delegate outcomes are an assumed enumeration; random.random in [0,1); message texts not decided.",
    design="§4 C17",
)
CLAIMS["C05"] = dict(
    text="Proofs for the iteration-based loop control (class invariant, sample type, progress in (0,1] ending at 1), the time-period control (warm-up/completion boundaries, equality left open as the statement allows), the schedule generator ScheduleHandle.__call__ with a loop invariant over the ghost sequence of yields (exactly warmup+iterations requests unless the parameter source is exhausted, first W flagged warm-up, progress (k+1)/(W+N), scheduled times non-decreasing), deterministic pacing (wait == weight*clients/target via UnitAwareScheduler.after_request + DeterministicScheduler), ramp-up wait, requires_time_period_schedule and schedule_for (choice and parameters of the loop control). AsyncExecutor.__call__ (shared with C04): the task's warm-up / time-period clock is started BEFORE the client waits for its ramp-up slot (ghost ordering assertion).",
    note="Exact-real arithmetic; every scheduler's next(c) >= c is assumed inside the generator (proved for the deterministic one); Poisson shape, throughput-string regex and the time-period branch of the generator are not decided.",
    design="§4 C05",
)
CLAIMS["C06"] = dict(
    text="Proof of the conservation law of ThroughputCalculator.calculate_task_throughput with a ghost prefix-sum list: after every call total_count + ops(unprocessed) equals all operations handed in so far, unprocessed is exactly the not-yet-bucketed suffix of the batch (each sample once, in order); emitted values are non-negative, their sample types never decrease, and with positive elapsed time the task has a value for its current sample type. Loop invariant, frame obligations for every heap write. BOUNDED stand-in: ThroughputCalculator.calculate on 60 scenarios with interleaved tasks and batches -- what is reported for a task equals what a fresh calculator reports for that task's samples alone.",
    note="Exact reals; SampleType as ints 0/1; calculate()'s grouping/sorting and map_task_throughput not yet under contract. One genuine defect (double counting of carried-over samples) was found by this check and repaired by a fix: commit.",
    design="§4 C06",
)
CLAIMS["C11"] = dict(
    text="Proofs for the three filter predicates (name equality, operation type equality, tag LIST membership), Task.__init__ tag normalisation (always a list), Parallel.matches (any sub-task) and the decision function _filter_out_match (include: out iff no filter selects; exclude: leaf out iff selected, parallel never dropped whole). The structural function on_after_load_track and filter parsing are covered by a BOUNDED stand-in only (exhaustive small schedules x filters on the real code, incl. driver allocation of the result).",
    note="The bounded part (<=3 elements, parallels of 1-2 leaves, 1-2 filters) is labelled bounded in evidence and not counted as proved. One genuine defect (emptied parallel element left in the schedule) was found by it and repaired by a fix: commit.",
    design="§4 C11",
)
CLAIMS["C18"] = dict(
    text="Proof, with the ContextVar binding as ghost state, that update_request_start/end keep the earliest start / latest end and ignore None, that RequestContextManager.__exit__ restores the parent's record, propagates min(start)/max(end) of the child into the parent, leaves the child's own timing untouched and propagates nothing at top level, and that on_request_start/end record the clock value; call-site obligations for the aiohttp trace-hook wiring. Closing sub-request contexts in any order therefore yields (min,max) at the root. init_request_context: every (sub-)request context starts EMPTY (nothing inherited from the enclosing context) and is a new record bound in the current task.",
    note="contextvars semantics assumed (each asyncio task has its own binding; dicts shared by reference). One genuine defect (first start / last-written end instead of min/max, None pushed into the parent) was found by this check and repaired by a fix: commit. RequestTiming/Composite not yet under contract.",
    design="§4 C18",
)
CLAIMS["C13"] = dict(
    text="Proofs over maps as (domain, value) arrays: ElasticsearchInstaller.variables and DockerProvisioner.__init__ give Rally's own node variables whatever the composed car defines and pass every other car variable through unchanged (forall keys); CarLoader.load_car lets command-line car parameters override the car's [variables] section and takes everything else from it; provisioner.cleanup removes nothing under preserve-install and otherwise only the installation directory and the data paths, each at most once (ghost trace of rmtree events, loop invariant). plain_text: a config file is treated as a template exactly if its WHOLE extension is one of the seven documented ones (everything else is copied verbatim). BareProvisioner._provisioner_variables: what templates and hooks see are Rally's node variables unless a PLUGIN defines the key (the car's variables never re-override them); cleanup examines EVERY data path exactly once and then the installation directory (ghost counter) and removes whatever exists.",
    note="configparser section copying, os.path, str() and str.join are assumed/uninterpreted; team.load_car's car-order loop and _apply_config template mirroring are not under contract (not_decided).",
    design="§4 C13",
)
CLAIMS["C19"] = dict(
    text="Proof (loop invariant over a ghost failed-item prefix count) that BulkIndex.simple_stats reports error-count / success-count equal to the numbers of failed / succeeded items of the fully parsed response and success iff no item failed on the slow path, and 0 errors / bulk_size successes on the fast path. The search_after cursor (_get_last_sort) and the selective parser are text scanners: they are covered by a BOUNDED stand-in only (36k enumerated responses vs json.loads on the real code), labelled bounded. Second BOUNDED stand-in: composite-aggregation after_key cursors (dotted / colliding / non-ASCII source names, null values) and scroll-search hit and page counters (totals as object or number, zero hits) against json.loads.",
    note="Two known findings of the bounded part (']' inside a sort string; the text \"sort\" recurring after the last hit's sort key) are recorded in known_findings.txt by input class; any other failing response is reported. json.loads / next(iter(..)) are uninterpreted; detailed_stats and Query page accounting are not yet under contract. One more genuine defect (null members of the after_key dropped by the selective parser) was found by the bounded part and repaired by a fix: commit.",
    design="§4 C19",
)
CLAIMS["C12"] = dict(
    text="Proofs of the handler-local guarantees the all-or-nothing argument rests on, over ghost traces of send/createActor/launcher/cleanup events: acknowledgement counting (transition exactly when the last child answers), MechanicActor start (one ack slot per target ip:port, one Dispatcher, nothing reported yet; external cluster: no Dispatcher, EngineStarted at once), stop (one StopNodes per known child in order, no early acknowledgement; external: EngineStopped without StopNodes), failure forwarding, Dispatcher (every pending start message sent exactly once; a departing remote daemon yields one BenchmarkFailure), NodeMechanicActor.StartNodes (exactly one reply: NodesStarted after start_engine, or BenchmarkFailure on ANY exception), Mechanic.stop_engine (stop, flush with refresh, results, close, one cleanup per node configuration even if the race record is missing).",
    note="NOT decided (outside this family): the quantifier over orders and delays of acknowledgements and hang freedom; assumed: thespian delivers each message once, FIFO per pair, handlers run atomically. One genuine defect (daemon departure raised TypeError instead of reporting) was found by this check and repaired by a fix: commit.",
    design="§4 C12",
)
CLAIMS["C09"] = dict(
    text="Proofs, over ghost send traces, of the per-handler guarantees of the failure chain: no_retry.guard turns an exception of ANY class raised by a handler into exactly one BenchmarkFailure to the original sender (and passes results through otherwise); DriverActor forwards BenchmarkFailure / BenchmarkCancelled / PoisonMessage exactly once to race control and reports the premature exit of ANY worker (index 0 included) unless exiting; BenchmarkActor marks the coordinator failed / cancelled and forwards the same message; BenchmarkCoordinator.on_benchmark_complete computes, stores and prints final results iff the race was neither cancelled nor failed. execute_single: a normal return under on-error=abort means the runner returned and did not report success=false; the meta-data carries the runner's own verdict (true only by default); transport/API errors are failures; a refused connection is fatal whatever on-error says; a runner KeyError becomes SystemSetupError. Call-site obligation (syntactic): AsyncIoAdapter.run awaits asyncio.gather without return_exceptions and without an except clause, so client exceptions reach the worker.",
    note="NOT decided (outside this family): 'in bounded time', hang freedom and the interleaving quantifier; Worker wake-up/race() chain only as far as C01/C07 go. Assumed: thespian delivery; runner outcomes as listed in evidence; untyped + str concatenation treats the untyped operand as a string.",
    design="§4 C09",
)
CLAIMS["C01"] = dict(
    text="Proofs of the handler-local guarantees the barrier argument rests on, over ghost message traces: Driver.joinpoint_reached (nobody is driven on, nothing reported and the step does not advance until the LAST worker of the step reports; then the step advances by one, bookkeeping is reset and exactly one of: one on_benchmark_complete and no Drive, or on_task_finished followed by exactly one Drive per worker), move_to_next_task, may_complete_current_task (at most one broadcast per step; completed-by any / named task conditions over worker ids), Worker.receiveMsg_Drive / CompleteCurrentTask (ignored at a join point), Worker.drive PROGRESS obligation (every return has either sent exactly one JoinPointReached at a join point with flags reset, or submitted an executor AND armed a wake-up; join-point columns are never skipped; recursion by its own contract). AsyncExecutor.__call__ (shared with C04): a client of the task that completes its parent never consults the shared completion flag (it runs until its own runner is done) and sets the flag when it ends.",
    note="NOT decided (outside this family): the quantifier over delivery orders/delays/clock offsets and liveness; the composition lemma (no worker in step k+1 while another is in step k) is assumed from the handler contracts. One genuine defect (skip branch armed nothing: race hangs) was found by this check and repaired by a fix: commit. Allocator join points: see C02.",
    design="§4 C01",
)
CLAIMS["C07"] = dict(
    text="Proofs of the function-level exactly-once links: Sampler.samples (the drain returns the WHOLE queue content in order and leaves the queue empty: ghost queue, loop invariant over items taken), Worker.send_samples (queue drained once, everything drained shipped in ONE UpdateSamples), Worker.drive (the sampler is only replaced or dropped after it was drained and the finished executor joined), Driver.update_samples (shipment appended as a whole, order kept), Driver.post_process_samples (the processor gets exactly the gathered list, new samples go to a fresh empty list), move_to_next_task (metrics externalised with clear exactly once per step and handed to race control). SamplePostprocessor.__call__: exactly one latency and one processing-time record per down-sampled sample (ghost counters, (i+f-1)//f lemma), every record of a sample carries the meta-data merged FOR THAT sample (own request meta-data and client id) and its own values, the batch is flushed without refresh; Driver.joinpoint_reached post-processes the finished step's samples FIRST at every last join point, also the final one.",
    note="NOT decided: interleavings of ticks/shipments/hand-overs; MetricsStore._put_metric / to_externalizable / bulk_add internals. One genuine defect (sampler replaced un-drained at a task-to-task transition) was found and repaired by a fix: commit.",
    design="§4 C07",
)
CLAIMS["C04"] = dict(
    text="Proof, for every schedule and every clock behaviour allowed by a monotone ghost clock, of ghost assertions placed at the call sites inside AsyncExecutor.__call__: a throttled request is never issued before total_start + its scheduled time; at every Sampler.add the recorded service_time == request_end - request_start >= 0, processing_time == processing_end - processing_start >= service_time, latency == request_end - scheduled time (>= service_time) if throttled and == service_time otherwise, and the sample carries the executor's task, client id, the yielded sample type and the issue time; exactly one sample per consumed schedule entry (loop invariant nev == iterations); the completion flag is set at the end iff the task completes its parent. Sampler.add: the queued Sample carries latency / service_time / processing_time and all other arguments in the fields of their own names; the request-context hooks (shared with C18): service time spans the FIRST wire request's start to the last response.",
    note="Assumed: perf_counter monotone, asyncio.sleep(d) returns no earlier than d later, the runner issues >= 1 wire request inside the request context (A-REQ). Exact reals.",
    design="§4 C04",
)
CLAIMS["C10"] = dict(
    text="Proof that TrackSpecificationReader.parse_task builds a task whose iterations / time periods / ramp-up / clients / name are the spec entry if present, else the enclosing parallel element's default, else the documented default, with the completed-by flags as documented, and that it raises a track syntax error IFF one of the documented rules is violated (no mixing of iterations and time periods, ramp-up only with a sufficient warm-up time period, operation present). Challenge/parallel assembly, duplicate-name rules, default-challenge rules and template include expansion are covered by a BOUNDED stand-in only (generated tracks and template trees through the real loader), labelled bounded. The bounded part also loads a track directory through TrackFileReader.read with 7 track-parameter sets (parameters used only in an index body file count as used; unused / reserved ones are rejected).",
    note="Jinja2 rendering, jsonschema validation and json.loads are third-party engines (assumed). The bounded part (17 single-rule violations, optional-property drops, include depth <= 2) is not counted as proved.",
    design="§4 C10",
)
CLAIMS["C14"] = dict(
    text="Proofs over ghost traces of file-system / network events (every os.*, open, fetch, decompress effect is an event): net.download touches the final name exactly once, by renaming <file>.tmp after its size was verified, and removes the temporary file on ANY failure incl. BaseException; download_http makes <= 11 attempts, retries only protocol errors / read timeouts with one sleep(5) between, re-raises the last error; _download_http stores a body only for a 2xx answer; Downloader / Decompressor return only after the file exists with the declared size and otherwise raise DataError / SystemSetupError (offline: without touching the network); prepare_document_set / prepare_bundled_document_set (loop invariant over the event history) return only after the document file was seen with the declared size and the offset table was built for the declared number of lines, decompress only an archive seen with its declared size, download only to the archive / document path; create_file_offset_table removes the table of a rejected file; io.decompress dispatches every supported extension to exactly one decompressor with the matching library fallback and rejects unknown ones; prepare_file_offset_table writes one entry (50000 j, tell() after line 50000 j) per 50000 lines under a temporary name and moves it into place only when complete; find_closest_offset / skip_lines seek to a table entry (L, o) with L <= n and read exactly n - L more lines. BOUNDED stand-in (labelled bounded): real files for offset table == line-by-line skipping incl. multi-byte content, interrupted table builds at every byte, 8 archive formats x 5 faults, 12 download scenarios against a local misbehaving HTTP server.",
    note="Assumed: the listed outcomes of os / urllib3 / archive-library calls; text-mode tell() is a byte offset (bounded check only); a table file under the final name is well-formed (two fields per line) because it is only moved there when complete. Not decided: termination of the preparation loop; contents of decompressed bytes (library behaviour, bounded round trips only). One genuine defect (an interrupted table build left a truncated table that was accepted as valid) was found by the bounded part and repaired by a fix: commit.",
    design="§4 C14",
)
NA_DEFAULT = "check not built yet in this revision (the framework is under construction; see DESIGN.md §6b build order)"
checks = []
for p in props:
    pid = p["id"]
    if pid in CLAIMS:
        c = CLAIMS[pid]
        checks.append({
            "property_id": pid,
            "quick_cmd": f"./check {pid} --tier quick",
            "thorough_cmd": f"./check {pid} --tier thorough",
            "evidence_file": f"/verif/evidence/{pid}.json",
            "replay_cmd_template": f"./check {pid} --replay {{path}}",
            "engine": "pyvc",
            "level_claimed": {"category": "proof", "text": c["text"], "design_ref": c["design"]},
            "level_note": c["note"],
            "technique": TECH,
        })
m = {
    "version": 1,
    "setup_cmd": "python3-vt -m compileall -q pyvc contracts && mkdir -p out evidence",
    "hooks": {
        "guard": "ELASTIC_RALLY_VERIF",
        "enable": "no hooks are needed: contracts are sidecars under /verif/contracts keyed to path::QualifiedName; replay builds real objects with __new__ and recording stubs",
        "baseline_off_cmd": "cd /repo && /venv/bin/python -m pytest -ra -q -p no:cacheprovider --timeout=900 --continue-on-collection-errors",
        "source_commits": [],
        "add_only": True,
    },
    "engines": [{"name": "pyvc", "path": "/verif/pyvc", "serves_properties": sorted(CLAIMS), "kind_free_text": "verification-condition generator over the real Python AST (symbolic execution with loop invariants, call-by-contract, field-array heap) + z3/cvc5 back ends; counter-models replayed on the real code under /venv"}],
    "checks": checks,
    "notes": "Exit codes of ./check: 0 held, 1 violation (VIOLATION line), 2 undecided, 3 checker error. See DESIGN.md.",
    "not_applicable": [{"property_id": p["id"], "reason": NA_DEFAULT} for p in props if p["id"] not in CLAIMS],
}
json.dump(m, open(os.path.join(HERE, "MANIFEST.json"), "w"), indent=1)
print("claims:", sorted(CLAIMS))
