import sys, os, time
sys.path.insert(0,'/verif'); os.chdir('/verif')
from pyvc import run, smt
from pyvc.engine import Contract, Engine
from pyvc.extract import RepoIndex
prop = sys.argv[1]; idx = int(sys.argv[2]) if len(sys.argv) > 2 else 0
cm = run.load_contracts(prop); run.load_facts()
repo = RepoIndex(); cs = [Contract(d) for d in cm.CONTRACTS]; c = cs[idx]
t=time.time(); E = Engine(repo, c, {x.qual:x for x in cs}); obs = E.explore(); print('explore', time.time()-t, len(obs), E.paths)
R = run.Runner(prop)
for ob in obs:
    t=time.time()
    tmpl, terms = run.cex_template(E, ob); t1=time.time()-t
    hint_fn = R.hints_for(E, ob)
    t=time.time()
    subs = smt.split_goal(smt.flatten_hyps(ob.pc), ob.goal, [])
    t2=time.time()-t
    t=time.time()
    qs = run.build_with_hints(ob, hint_fn, c.float, terms)
    t3=time.time()-t
    print(ob.id, ob.where, 'cex %.2f split %.2f build %.2f subs %d size %d'%(t1,t2,t3,len(qs), sum(len(s[1]) for q in qs for s in q['stages'])), flush=True)
