#!/bin/bash
# run every claimed quick (or $1=thorough) check on the real tree, sequentially; print one summary line per property
tier=${1:-quick}
cd /verif
for p in $(python3 -c "import json; print(' '.join(c['property_id'] for c in json.load(open('MANIFEST.json'))['checks']))"); do
  s=$(date +%s); out=$(./check $p --tier $tier 2>&1); rc=$?; e=$(date +%s)
  echo "$p rc=$rc $((e-s))s $(echo "$out" | grep -E "^C[0-9]+:" | tail -1)"
  echo "$out" | grep -E "VIOLATION|UNDECIDED|KNOWN-FINDING|CHECKER" | head -5
done
