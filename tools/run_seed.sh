#!/bin/bash
# usage: tools/run_seed.sh <seed-dir-name> [prop]   -- run the property's quick check against a scratch copy with the seeded patch applied
V=$(dirname "$(dirname "$(realpath "$0")")")
seed=$1; prop=${2:-${seed%%_*}}
scr=$(mktemp -d /tmp/seedscr.XXXXXX)
cp -r /repo/esrally $scr/ && cp -r /repo/docs $scr/ 2>/dev/null
pf=$V/seeded/$seed/patch.diff; [ -f $V/seeded/$seed/patch_on_fixed.diff ] && pf=$V/seeded/$seed/patch_on_fixed.diff; (cd $scr && patch -p1 -s < $pf) || { echo "patch failed"; rm -rf $scr; exit 9; }
cd $V && ./check $prop --repo $scr 2>&1 | grep -v "^  C[0-9]*/" | tail -${TAILN:-6}
rc=${PIPESTATUS[0]}
rm -rf $scr
exit $rc
