#!/usr/bin/env python3
"""Fill seeded/*/meta.json `detected_by` and the seed table of DESIGN.md from a sweep log (tools/sweep_seeds.sh output).
usage: tools/seed_table.py <sweep.log>"""
import glob, json, os, re, sys
V = os.path.dirname(os.path.dirname(os.path.abspath(__file__)))
rows = {}
for line in open(sys.argv[1]):
    m = re.match(r"(C\d\d_m\d+) check=(C\d\d) rc=(\d+) violations=(\d+) replayed=(\d+) first=(\S*)", line)
    if m:
        rows.setdefault(m.group(1), []).append(dict(check=m.group(2), rc=int(m.group(3)), violations=int(m.group(4)), replayed=int(m.group(5)), first=m.group(6).replace(".json", "")))
NEUTRALISED = {"C11_m1": "neutralised: the change re-introduces exactly the defect repaired by fix 345661e in a function the fix rewrote; the patch no longer changes behaviour on the fixed tree",
               "C07_m2": "neutralised by fix e0bcd56 (the drained-before-replace repair covers the removed statement's effect)"}
out = ["| seed | changed (file: function) | caught by | obligation / part that fails | replayed input |", "|---|---|---|---|---|"]
caught = missed = undec = neutral = 0
for d in sorted(glob.glob(os.path.join(V, "seeded", "C*_m*"))):
    sid = os.path.basename(d)
    diff = open(os.path.join(d, "patch_on_fixed.diff" if os.path.exists(os.path.join(d, "patch_on_fixed.diff")) else "patch.diff")).read()
    f = re.search(r"^\+\+\+ b/(\S+)", diff, re.M).group(1)
    hunk = re.search(r"^@@ [^@]*@@ ?(.*)$", diff, re.M)
    fn = (hunk.group(1).strip() if hunk else "")[:60]
    rs = rows.get(sid, [])
    hit = next((r for r in rs if r["rc"] == 1 and r["violations"] > 0), None)
    meta_p = os.path.join(d, "meta.json")
    meta = json.load(open(meta_p))
    if hit:
        caught += 1
        meta["detected_by"] = {"check": hit["check"], "first_violation": hit["first"], "replayed_on_real_code": hit["replayed"] > 0, "violations": hit["violations"]}
        out.append(f"| {sid} | {f.replace('esrally/', '')}: {fn} | {hit['check']} quick | {hit['first']} | {'yes' if hit['replayed'] else 'no (no-failing-input-found)'} |")
    elif sid in NEUTRALISED:
        neutral += 1
        meta["detected_by"] = {"check": None, "note": NEUTRALISED[sid]}
        out.append(f"| {sid} | {f.replace('esrally/', '')}: {fn} | – | {NEUTRALISED[sid]} | – |")
    elif any(r["rc"] == 2 for r in rs):
        undec += 1
        meta["detected_by"] = {"check": None, "note": "undecided (exit 2)"}
        out.append(f"| {sid} | {f.replace('esrally/', '')}: {fn} | **undecided** (exit 2) | – | – |")
    else:
        missed += 1
        meta["detected_by"] = {"check": None, "note": "not caught"}
        out.append(f"| {sid} | {f.replace('esrally/', '')}: {fn} | **not caught** | – | – |")
    json.dump(meta, open(meta_p, "w"), indent=1)
summary = f"Result of the last sweep (`tools/sweep_seeds.sh`, quick tier): **{caught} caught**, {undec} undecided, {missed} not caught, {neutral} neutralised by repairs, of {caught + undec + missed + neutral}."
p = os.path.join(V, "DESIGN.md")
s = open(p).read()
block = "<!-- SEEDS:BEGIN -->\n" + summary + "\n\n" + "\n".join(out) + "\n<!-- SEEDS:END -->"
if "SEED_TABLE_PLACEHOLDER" in s:
    s = s.replace("SEED_TABLE_PLACEHOLDER", block)
else:
    s = re.sub(r"<!-- SEEDS:BEGIN -->.*?<!-- SEEDS:END -->", lambda m: block, s, flags=re.S)
open(p, "w").write(s)
print(summary)
