#!/bin/bash
# run every seeded change against the quick check of its property (scratch copies under /tmp); one line per seed
cd /verif
for d in seeded/*/; do s=$(basename $d); prop=${s%%_*}
  out=$(TAILN=40 tools/run_seed.sh $s 2>&1); rc=$?
  nv=$(echo "$out" | grep -c "^VIOLATION"); nr=$(echo "$out" | grep "^VIOLATION" | grep -vc "no-failing-input-found")
  first=$(echo "$out" | grep "^VIOLATION" | head -1 | sed 's/.*replay=\/verif\/out\/[^/]*\///' )
  echo "$s rc=$rc violations=$nv replayed=$nr first=$first :: $(echo "$out" | grep -E "^C[0-9]+:" | tail -1 | cut -c1-90)"
done
