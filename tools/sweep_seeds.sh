#!/bin/bash
# run every seeded change against the quick check of its property (scratch copies under /tmp); one line per seed.
# Some changes break a property through a function that another property's check owns: those are also run against that check.
V=$(dirname "$(dirname "$(realpath "$0")")")
cd $V
declare -A ALSO=( [C02_m3]=C11 [C05_m2]=C02 [C01_m2]=C02 [C04_m3]=C18 [C20_m2]=C08 [C05_m5]=C02 [C11_m6]=C02 )
one() { s=$1; prop=$2
  out=$(TAILN=60 tools/run_seed.sh $s $prop 2>&1); rc=$?
  nv=$(echo "$out" | grep -c "^VIOLATION"); nr=$(echo "$out" | grep "^VIOLATION" | grep -vc "no-failing-input-found")
  first=$(echo "$out" | grep "^VIOLATION" | grep -v "no-failing-input-found" | head -1 | sed 's/.*replay=.*\/out\/[^/]*\///'); [ -z "$first" ] && first=$(echo "$out" | grep "^VIOLATION" | head -1 | sed 's/.*replay=.*\/out\/[^/]*\///')
  echo "$s check=$prop rc=$rc violations=$nv replayed=$nr first=$first :: $(echo "$out" | grep -E "^C[0-9]+:" | tail -1 | cut -c1-100)"
}
# optional arguments: the property ids to sweep (default: all). Different properties can be swept concurrently (they use different out/<id> dirs),
# except that the ALSO checks write into the other property's out dir: keep C02/C05/C01 and C11/C02, C08/C20, C04/C18 in the same group.
ONLY=" $* "
for d in seeded/*/; do s=$(basename $d); [ -f $d/patch.diff ] || continue; prop=${s%%_*}
  [ $# -gt 0 ] && [[ "$ONLY" != *" $prop "* ]] && continue
  # SEED_ROUNDS="m5 m6" restricts the sweep to those rounds of seeds
  [ -n "$SEED_ROUNDS" ] && [[ " $SEED_ROUNDS " != *" ${s##*_} "* ]] && continue
  one $s $prop
  [ -n "${ALSO[$s]}" ] && one $s ${ALSO[$s]}
done
