#!/usr/bin/env python3
"""Confirm a candidate seeded change: demo passes on the clean tree, fails with the patch, the full pinned test suite
(stable_pass of /root/.vp/BASELINE.json) still passes with the patch. Works in a scratch worktree that is removed afterwards.
usage: verify_seed.py <src-dir with patchK.diff demoK.py> <K> <out.json> [--skip-suite]"""
import json, os, subprocess, sys, time, xml.etree.ElementTree as ET

src, k, out = sys.argv[1], sys.argv[2], sys.argv[3]
skip = "--skip-suite" in sys.argv
wt = f"/tmp/vs/{os.path.basename(src.rstrip('/'))}-{k}-{os.getpid()}"
os.makedirs("/tmp/vs", exist_ok=True)
res = {"src": src, "k": k}
def run(cmd, **kw):
    return subprocess.run(cmd, shell=True, capture_output=True, text=True, **kw)
try:
    r = run(f"git -C /repo worktree add --detach {wt} HEAD")
    assert r.returncode == 0, r.stderr
    env = dict(os.environ, PYTHONPATH=wt)
    demo = os.path.join(src, f"demo{k}.py")
    r = run(f"/venv/bin/python {demo}", cwd=wt, env=env, timeout=600)
    res["demo_clean_rc"] = r.returncode
    res["demo_clean_tail"] = (r.stdout + r.stderr)[-300:]
    r = run(f"git apply {os.path.join(src, f'patch{k}.diff')}", cwd=wt)
    res["apply_rc"] = r.returncode
    res["apply_err"] = r.stderr[-300:]
    r = run(f"/venv/bin/python {demo}", cwd=wt, env=env, timeout=600)
    res["demo_patched_rc"] = r.returncode
    res["demo_patched_tail"] = (r.stdout + r.stderr)[-600:]
    if not skip:
        t = time.time()
        junit = f"{wt}/.junit.xml"
        r = run(f"/venv/bin/python -m pytest -ra -q -p no:cacheprovider --timeout=900 --continue-on-collection-errors --junitxml={junit}", cwd=wt, env=env, timeout=3600)
        res["suite_s"] = round(time.time() - t)
        res["suite_tail"] = r.stdout[-300:]
        passed = set()
        for tc in ET.parse(junit).getroot().iter("testcase"):
            if not any(c.tag in ("failure", "error", "skipped") for c in tc):
                passed.add(f"{tc.get('classname')}::{tc.get('name')}")
        base = json.load(open("/root/.vp/BASELINE.json"))["stable_pass"]
        missing = [b for b in base if b not in passed]
        res["stable_pass"] = len(base)
        res["missing_from_pass"] = missing[:20]
        res["suite_ok"] = not missing
    res["ok"] = res["demo_clean_rc"] == 0 and res["apply_rc"] == 0 and res["demo_patched_rc"] == 1 and (skip or res["suite_ok"])
except Exception as ex:
    res["error"] = repr(ex)
    res["ok"] = False
finally:
    run(f"git -C /repo worktree remove --force {wt}")
json.dump(res, open(out, "w"), indent=1)
print(json.dumps({k_: res[k_] for k_ in res if k_ in ("ok", "demo_clean_rc", "demo_patched_rc", "suite_ok", "missing_from_pass", "error")}))
